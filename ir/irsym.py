"""E3: symbolic executor over clang-14 LLVM IR with z3 bit-vectors and a region-based memory.
 * values: python ints (concrete) or z3 BitVec terms of the IR width; i1 = python bool / z3 Bool
 * pointers: Ptr(region, offset) with concrete region, concrete-or-symbolic offset; pointers stored to memory stay pointers
 * every load/store is bounds- and liveness-checked (for symbolic offsets by a solver query)
 * branches on symbolic conditions fork; infeasible sides are pruned by the solver
 * unmodelled instruction/callee => Unmodelled (the obligation is inconclusive, never a pass)"""
import os, re, time, struct
import z3
from .irparse import Module, split_top, split_tv, strip_attrs


class Ptr:
    __slots__ = ('reg', 'off')

    def __init__(s, reg, off):
        s.reg, s.off = reg, off

    def __repr__(s):
        return 'Ptr(%s,%s)' % (s.reg, s.off)


class FuncPtr:
    def __init__(s, name):
        s.name = name


class PtrInt:
    """integer obtained from pointers: linear combination  sum coeff[r] * base(r) + add  over abstract region base addresses
    (LLVM reassociates pointer differences such as (e1 + e2) - (b1 + b2), so single-pointer tracking is not enough)"""

    def __init__(s, p=None, add=0, terms=None):
        if terms is not None:
            s.terms = dict(terms); s.add = add
        else:
            s.terms = {p.reg: 1}; s.add = _badd(p.off, add)

    @property
    def p(s):
        if len(s.terms) == 1 and list(s.terms.values())[0] == 1:
            return Ptr(list(s.terms.keys())[0], s.add)
        raise Unmodelled('integer derived from several pointers used as a pointer')


def _badd(a, b, sub=False):
    if isinstance(a, bool):
        a = 1 if a else 0
    if isinstance(b, bool):
        b = 1 if b else 0
    if is_sym_(a) or is_sym_(b):
        A = a if is_sym_(a) else z3.BitVecVal(a, 64); B = b if is_sym_(b) else z3.BitVecVal(b, 64)
        return z3.simplify(A - B if sub else A + B)
    return ((a - b) if sub else (a + b)) & ((1 << 64) - 1)


def is_sym_(v):
    return isinstance(v, z3.ExprRef)


def lin_combine(a, b, sub=False):
    """a +/- b where at least one is a PtrInt; returns PtrInt or plain integer when all base addresses cancel"""
    ta = dict(a.terms) if isinstance(a, PtrInt) else {}; aa = a.add if isinstance(a, PtrInt) else a
    tb = b.terms if isinstance(b, PtrInt) else {}; ab = b.add if isinstance(b, PtrInt) else b
    for r, c in tb.items():
        ta[r] = ta.get(r, 0) + (-c if sub else c)
    ta = {r: c for r, c in ta.items() if c != 0}
    add = _badd(aa, ab, sub)
    if not ta:
        if is_sym_(add):
            return add
        return add
    return PtrInt(add=add, terms=ta)


NULL = Ptr(None, 0)


class Abort(Exception):
    pass


class Violation(Exception):
    pass


class Unmodelled(Exception):
    pass


class PathLimit(Exception):
    pass


def is_sym(v):
    return isinstance(v, z3.ExprRef)


def bv(v, w):
    if is_sym(v):
        if z3.is_bool(v):
            return z3.If(v, z3.BitVecVal(1, w), z3.BitVecVal(0, w))
        return v
    if isinstance(v, bool):
        v = 1 if v else 0
    return z3.BitVecVal(v, w)


def mask(v, w):
    return v & ((1 << w) - 1)


def sgn(v, w):
    return v - (1 << w) if v >> (w - 1) else v


def simp(v):
    if is_sym(v):
        v = z3.simplify(v)
        if z3.is_bv_value(v):
            return v.as_long()
        if z3.is_true(v):
            return True
        if z3.is_false(v):
            return False
    return v


class Region:
    __slots__ = ('size', 'name', 'cells', 'live', 'zero', 'kind')

    def __init__(s, size, name, kind='heap', zero=False):
        s.size, s.name, s.cells, s.live, s.zero, s.kind = size, name, {}, True, zero, kind


class State:
    def __init__(s):
        s.frames, s.regions, s.pc, s.steps, s.log, s.gmap = [], [], [], 0, [], {}

    def clone(s):
        t = State()
        t.frames = [dict(f, env=dict(f['env'])) for f in s.frames]
        for r in s.regions:
            q = Region(r.size, r.name, r.kind, r.zero); q.cells = dict(r.cells); q.live = r.live; t.regions.append(q)
        t.pc = list(s.pc); t.steps = s.steps; t.log = list(s.log); t.gmap = dict(s.gmap)
        return t

    def new_region(s, size, name, kind='heap', zero=False):
        s.regions.append(Region(size, name, kind, zero)); return len(s.regions) - 1


ABORT_FUNCS = {'_ZN4FEAT7Runtime5abortEb', '__cxa_throw', 'abort', '__cxa_pure_virtual', '_ZSt9terminatev', '__clang_call_terminate', 'exit', '_exit',
               '__cxa_rethrow', '__assert_fail', '_ZSt17__throw_bad_allocv', '_ZSt28__throw_bad_array_new_lengthv', '__cxa_bad_cast', '__cxa_bad_typeid', '__stack_chk_fail'}
NOP_FUNCS = {'_ZN4FEAT7Backend21get_preferred_backendEv': 0, 'fprintf': 0, 'fwrite': 0, 'fflush': 0, 'fputs': 0, 'fputc': 0, 'puts': 0, 'printf': 0, '__cxa_atexit': 0,
             '_ZNSt8ios_base4InitC1Ev': None, '_ZNSt8ios_base4InitD1Ev': None, '__cxa_guard_acquire': 1, '__cxa_guard_release': None, '__cxa_guard_abort': None,
             '__cxa_free_exception': None, 'backtrace': 0, 'backtrace_symbols': None,
             '_ZNSt18condition_variableC1Ev': None, '_ZNSt18condition_variableD1Ev': None, '_ZNSt18condition_variableC2Ev': None, '_ZNSt18condition_variableD2Ev': None}


def cvc5_unsat(smt2, tlimit=120):
    """True iff the cvc5 command line solver (integer encoding of bit-vectors) answers unsat without any error line"""
    import subprocess, tempfile
    with tempfile.NamedTemporaryFile('w', suffix='.smt2', delete=False, dir=(lambda d: d if os.path.isdir(d) else None)(os.path.join(os.path.dirname(os.path.dirname(os.path.abspath(__file__))), 'build'))) as f:
        f.write(smt2); name = f.name
    try:
        r = subprocess.run(['/usr/bin/cvc5', '--solve-bv-as-int=sum', '--tlimit=%d' % (tlimit * 1000), name], capture_output=True, text=True, timeout=tlimit + 30)
        out = r.stdout.strip()
        return out == 'unsat' and '(error' not in r.stdout + r.stderr
    except Exception:
        return False
    finally:
        os.remove(name)


class Executor:
    def __init__(self, module, max_steps=2000000, max_paths=20000, timeout=None):
        self.m = module
        self.solver = z3.Solver()
        self.stats = {'paths': 0, 'forks': 0, 'queries': 0, 'qtime': 0.0, 'steps': 0, 'instructions': 0}
        self.max_steps, self.max_paths = max_steps, max_paths
        self.gregion = {}  # global name -> region index (created in the initial state)
        self.stubs = {}
        self.deadline = None if timeout is None else time.time() + timeout
        self.funcs_entered = set()
        self.qcache = {}

    # ------------------------------------------------------------------ solver helpers
    def feasible(self, pc, extra=None):
        cons = list(pc) + ([extra] if extra is not None else [])
        cons = [c for c in cons if not (c is True)]
        if any(c is False for c in cons):
            return False
        if not cons:
            return True
        self.stats['queries'] += 1; t = time.time()
        self.solver.push(); self.solver.add(*cons); r = self.solver.check(); self.solver.pop()
        self.stats['qtime'] += time.time() - t
        if r == z3.unknown:
            raise Unmodelled('solver returned unknown on a feasibility query')
        return r == z3.sat

    def must_hold(self, pc, prop):
        """True iff pc => prop; returns (bool, model or None).  z3 gets a short budget first; a query it does not finish (adder chains over
        64-bit words) is handed to cvc5 with the integer encoding of bit-vectors (mod 2^64 semantics kept); only 'unsat' is taken from cvc5,
        a 'sat' answer is re-derived with z3 (no time limit) to obtain the model"""
        if prop is True:
            return True, None
        self.stats['queries'] += 1; t = time.time()
        self.solver.push(); self.solver.add(*[c for c in pc if c is not True]); self.solver.add(z3.Not(prop) if is_sym(prop) else z3.BoolVal(not prop))
        try:
            self.solver.set('timeout', 4000)
            r = self.solver.check()
            if r == z3.unknown:
                self.stats['ext_queries'] = self.stats.get('ext_queries', 0) + 1
                if cvc5_unsat('(set-logic QF_BV)\n' + self.solver.to_smt2()):
                    r = z3.unsat
                else:
                    self.solver.set('timeout', 600000)
                    r = self.solver.check()
            mdl = self.solver.model() if r == z3.sat else None
        finally:
            self.solver.set('timeout', 4294967295)
            self.solver.pop(); self.stats['qtime'] += time.time() - t
        if r == z3.unknown:
            raise Unmodelled('solver returned unknown')
        return r == z3.unsat, mdl

    def concretize(self, st, v, work=None, maxvals=24):
        """value of v under the path condition if unique; otherwise fork over its (few) possible values"""
        v = simp(v)
        if not is_sym(v):
            return v
        self.stats['queries'] += 1
        self.solver.push(); self.solver.add(*[c for c in st.pc if c is not True])
        vals = []
        while len(vals) <= maxvals and self.solver.check() == z3.sat:
            c = self.solver.model().eval(v, model_completion=True).as_long(); vals.append(c); self.solver.add(v != c)
        self.solver.pop()
        if not vals:
            raise Abort()
        if len(vals) > maxvals:
            raise Unmodelled('value used as size/length has more than %d possible values under the path condition' % maxvals)
        if len(vals) > 1:
            if work is None:
                raise Unmodelled('cannot fork here on a non-unique size value')
            for c in vals[1:]:
                o = st.clone(); o.pc.append(v == c); o.frames[-1]['idx'] = self._iidx  # re-execute the instruction in the fork
                work.append(o); self.stats['forks'] += 1
            st.pc.append(v == vals[0])
        return vals[0]

    # ------------------------------------------------------------------ memory
    def _chk(self, st, p, nbytes, what):
        if not isinstance(p, Ptr):
            raise Unmodelled('%s through non-pointer value %r' % (what, p))
        if p.reg is None:
            raise Violation('%s through null / invalid pointer' % what)
        r = st.regions[p.reg]
        if not r.live:
            raise Violation('%s after free of %s' % (what, r.name))
        off = simp(p.off)
        if not is_sym(off):
            if off >= (1 << 63):
                off -= (1 << 64)
            if off < 0 or off + nbytes > r.size:
                raise Violation('%s out of bounds: %s offset %d size %d (access %d bytes)' % (what, r.name, off, r.size, nbytes))
            return r, off
        inb = z3.And(z3.ULE(off, r.size - nbytes)) if r.size >= nbytes else z3.BoolVal(False)
        ok, mdl = self.must_hold(st.pc, inb)
        if not ok:
            e = Violation('%s may be out of bounds in %s (size %d, %d bytes) for some inputs' % (what, r.name, r.size, nbytes)); e.cond = z3.Not(inb)
            raise e
        return r, off

    def load(self, st, p, nbytes, isptr=False):
        r, off = self._chk(st, p, nbytes, 'load')
        if not is_sym(off):
            c = r.cells.get(off)
            if c is not None and c[1] == nbytes:
                return c[0]
            return self._load_bytes(r, off, nbytes)
        res = None
        cands = sorted(o for o, (v, w) in r.cells.items() if w == nbytes)
        if r.zero or len(cands) * nbytes < r.size:
            # some positions are not plain same-width cells: fall back to per-position reads
            cands = list(range(0, r.size - nbytes + 1, nbytes))
        for o in reversed(cands):
            c = r.cells.get(o)
            v = c[0] if (c is not None and c[1] == nbytes) else self._load_bytes(r, o, nbytes, soft=True)
            if v is None:
                continue
            if isinstance(v, Ptr):
                if res is None:
                    res = Ptr(v.reg, bv(v.off, 64))
                elif isinstance(res, Ptr) and res.reg == v.reg:
                    res = Ptr(v.reg, z3.If(off == o, bv(v.off, 64), res.off))
                else:
                    raise Unmodelled('symbolic-offset load mixing pointers into different regions')
                continue
            if isinstance(res, Ptr) or isinstance(v, (FuncPtr, PtrInt, float)):
                raise Unmodelled('symbolic-offset load mixing value kinds')
            res = bv(v, 8 * nbytes) if res is None else z3.If(off == o, bv(v, 8 * nbytes), res)
        if res is None:
            raise Violation('load of uninitialised memory in %s' % r.name)
        return res

    def _load_bytes(self, r, off, nbytes, soft=False):
        """assemble an integer from overlapping cells (little endian)"""
        parts = []
        pos = off
        while pos < off + nbytes:
            hit = None
            for o, (v, w) in r.cells.items():
                if o <= pos < o + w:
                    hit = (o, v, w); break
            if hit is None:
                if r.zero:
                    parts.append((0, 1)); pos += 1; continue
                if soft:
                    return None
                raise Violation('load of uninitialised memory: %s offset %d' % (r.name, pos))
            o, v, w = hit
            if isinstance(v, (Ptr, FuncPtr, PtrInt, float)):
                if o == off and w == nbytes:
                    return v
                if soft:
                    return None
                raise Unmodelled('partial load of a pointer/float cell in %s' % r.name)
            take = min(o + w, off + nbytes) - pos; sh = (pos - o) * 8
            if is_sym(v):
                parts.append((z3.Extract(sh + take * 8 - 1, sh, bv(v, 8 * w)), take))
            else:
                parts.append(((v >> sh) & ((1 << (8 * take)) - 1), take))
            pos += take
        if all(not is_sym(x) for x, _ in parts):
            res, sh = 0, 0
            for x, t in parts:
                res |= x << sh; sh += 8 * t
            return res
        res = None
        for x, t in parts:
            x = bv(x, 8 * t); res = x if res is None else z3.Concat(x, res)
        return simp(res)

    def store(self, st, p, v, nbytes):
        r, off = self._chk(st, p, nbytes, 'store')
        if r.kind == 'const':
            raise Violation('store into constant global %s' % r.name)
        if isinstance(v, bool):
            v = 1 if v else 0
        if not is_sym(off):
            # remove / split overlapping cells
            for o in [o for o, (vv, w) in r.cells.items() if o < off + nbytes and off < o + w and not (o == off and w == nbytes)]:
                vv, w = r.cells.pop(o)
                if isinstance(vv, (Ptr, FuncPtr, PtrInt, float)):
                    continue
                for b in range(w):
                    if not (off <= o + b < off + nbytes):
                        r.cells[o + b] = ((simp(z3.Extract(8 * b + 7, 8 * b, bv(vv, 8 * w))) if is_sym(vv) else (vv >> (8 * b)) & 255), 1)
            r.cells[off] = (v, nbytes)
            return
        for o in list(r.cells.keys()):
            old, w = r.cells[o]
            if w != nbytes:
                raise Unmodelled('symbolic-offset store into region %s with mixed cell widths' % r.name)
            if isinstance(old, Ptr) or isinstance(v, Ptr):
                if isinstance(old, Ptr) and isinstance(v, Ptr) and old.reg == v.reg:
                    r.cells[o] = (Ptr(v.reg, z3.If(off == o, bv(v.off, 64), bv(old.off, 64))), w)
                else:
                    raise Unmodelled('mixed pointer/int symbolic store')
            else:
                r.cells[o] = (z3.If(off == o, bv(v, 8 * nbytes), bv(old, 8 * nbytes)), w)
        if r.zero or len(r.cells) * nbytes < r.size:
            for o in range(0, r.size - nbytes + 1, nbytes):
                if o not in r.cells:
                    if r.zero:
                        r.cells[o] = (z3.If(off == o, bv(v, 8 * nbytes), z3.BitVecVal(0, 8 * nbytes)), nbytes)
                    else:
                        raise Unmodelled('symbolic-offset store into partially initialised region %s' % r.name)

    def memcpy(self, st, d, s_, n):
        if n == 0:
            return
        rs, so = self._chk(st, s_, n, 'memcpy source'); rd, do = self._chk(st, d, n, 'memcpy destination')
        if is_sym(so) or is_sym(do):
            raise Unmodelled('memcpy with symbolic pointer offset')
        items = []
        for o, (v, w) in rs.cells.items():
            if so <= o and o + w <= so + n:
                items.append((o - so, v, w))
            elif o < so + n and so < o + w:
                # partially covered cell: copy bytes
                for b in range(w):
                    if so <= o + b < so + n and not isinstance(v, (Ptr, FuncPtr, PtrInt, float)):
                        items.append((o + b - so, (simp(z3.Extract(8 * b + 7, 8 * b, bv(v, 8 * w))) if is_sym(v) else (v >> (8 * b)) & 255), 1))
        for o in [o for o, (v, w) in rd.cells.items() if o < do + n and do < o + w]:
            v, w = rd.cells.pop(o)
            if (o < do or o + w > do + n) and not isinstance(v, (Ptr, FuncPtr, PtrInt, float)):
                for b in range(w):
                    if not (do <= o + b < do + n):
                        rd.cells[o + b] = ((simp(z3.Extract(8 * b + 7, 8 * b, bv(v, 8 * w))) if is_sym(v) else (v >> (8 * b)) & 255), 1)
        if rs.zero and not rd.zero:
            covered = set()
            for (o, v, w) in items:
                covered.update(range(o, o + w))
            for b in range(n):
                if b not in covered:
                    rd.cells[do + b] = (0, 1)
        for (o, v, w) in items:
            rd.cells[do + o] = (v, w)

    # ------------------------------------------------------------------ constants / globals
    def global_ptr(self, st, name):
        name = self.m.aliases.get(name, name)
        if name in self.m.funcs or name in self.m.decls:
            return FuncPtr(name)
        key = name
        if key in st.gmap:
            return Ptr(st.gmap[key], 0)
        if name not in self.m.globals:
            # external data symbol (e.g. typeinfo, stdout): opaque non-null pointer
            rid = st.new_region(0, 'extern@' + name, 'extern'); st.gmap[key] = rid
            return Ptr(rid, 0)
        ty, init, const = self.m.globals[name]
        try:
            size = self.m.tybytes(ty)
        except Exception:
            size = 0
        rid = st.new_region(size, '@' + name, 'const' if const else 'global', zero=True)
        st.gmap[key] = rid
        if init and init not in ('zeroinitializer', 'undef'):
            try:
                self._init(st, Ptr(rid, 0), ty, init)
            except Unmodelled:
                pass
        return Ptr(rid, 0)

    def _init(self, st, p, ty, init):
        init = init.strip(); pt = self.m.parse_type(ty); r = st.regions[p.reg]
        if init in ('zeroinitializer', 'undef', 'poison'):
            return
        if pt[0] == 'int':
            r.cells[p.off] = (self.const(st, init, ty, None), self.m.tybytes(ty)); return
        if pt[0] in ('ptr', 'func'):
            r.cells[p.off] = (self.const(st, init, ty, None), 8); return
        if pt[0] in ('float', 'double'):
            r.cells[p.off] = (self.const(st, init, ty, None), self.m.tybytes(ty)); return
        if pt[0] == 'array':
            es = self.m.tybytes(pt[2])
            if init.startswith('c"'):
                data = init[2:init.rindex('"')]; i = 0; k = 0
                while i < len(data):
                    if data[i] == '\\':
                        b = int(data[i + 1:i + 3], 16); i += 3
                    else:
                        b = ord(data[i]); i += 1
                    r.cells[p.off + k] = (b, 1); k += 1
                return
            elems = split_top(init[1:-1])
            for k, e in enumerate(elems):
                et, ev = split_tv(e); self._init(st, Ptr(p.reg, p.off + k * es), et, ev)
            return
        if pt[0] == 'struct':
            body = init[2:-2] if init.startswith('<{') else init[1:-1]
            for k, e in enumerate(split_top(body)):
                et, ev = split_tv(e); fo, _ = self.m.field_offset(ty, k); self._init(st, Ptr(p.reg, p.off + fo), et, ev)
            return
        raise Unmodelled('initializer ' + init[:60])

    def const(self, st, tok, ty, env):
        tok = tok.strip()
        if tok.startswith('%'):
            try:
                return env[tok]
            except KeyError:
                raise Unmodelled('use of undefined value ' + tok)
        if tok == 'null':
            return NULL
        if tok in ('undef', 'poison', 'zeroinitializer'):
            pt = self.m.parse_type(ty)
            if pt[0] in ('ptr', 'func'):
                return NULL
            if pt[0] in ('struct', 'array'):
                return self._zero_agg(ty)
            if pt[0] in ('float', 'double'):
                return 0.0
            return 0
        if tok == 'true':
            return True
        if tok == 'false':
            return False
        if re.fullmatch(r'-?\d+', tok):
            pt = self.m.parse_type(ty)
            if pt[0] == 'int':
                return (int(tok) != 0) if pt[1] == 1 else mask(int(tok), pt[1])
            if pt[0] in ('float', 'double'):
                return float(tok)
            return int(tok)
        if re.fullmatch(r'-?\d+\.\d+(e[+-]?\d+)?', tok):
            return float(tok)
        if tok.startswith('0x') and self.m.parse_type(ty)[0] in ('float', 'double'):
            return struct.unpack('<d', struct.pack('<Q', int(tok, 16)))[0]
        if tok.startswith('@'):
            return self.global_ptr(st, tok[1:].strip('"'))
        m = re.match(r'(bitcast|addrspacecast) \((.*) to (.*)\)$', tok)
        if m:
            t1, v1 = split_tv(m.group(2)); return self.const(st, v1, t1, env)
        m = re.match(r'getelementptr (inbounds )?\((.*)\)$', tok)
        if m:
            parts = split_top(m.group(2)); pty, pv = split_tv(parts[1])
            return self.gep(st, parts[0], self.const(st, pv, pty, env), [split_tv(x.replace('inrange ', '')) for x in parts[2:]], env)
        m = re.match(r'ptrtoint \((.*) to (.*)\)$', tok)
        if m:
            t1, v1 = split_tv(m.group(1)); return PtrInt(self.const(st, v1, t1, env))
        m = re.match(r'inttoptr \((.*) to (.*)\)$', tok)
        if m:
            t1, v1 = split_tv(m.group(1)); v = self.const(st, v1, t1, env)
            return v.p if isinstance(v, PtrInt) else (NULL if v == 0 else Ptr(None, v))
        if tok.startswith('{') or tok.startswith('['):
            pt = self.m.parse_type(ty)
            return [self.const(st, split_tv(e)[1], split_tv(e)[0], env) for e in split_top(tok[1:-1])]
        raise Unmodelled('constant? ' + tok[:80])

    def _zero_agg(self, ty):
        pt = self.m.parse_type(ty)
        if pt[0] == 'struct':
            return [self._zero_agg(f) for f in pt[1]]
        if pt[0] == 'array':
            return [self._zero_agg(pt[2]) for _ in range(pt[1])]
        if pt[0] in ('ptr', 'func'):
            return NULL
        if pt[0] in ('float', 'double'):
            return 0.0
        return 0

    # ------------------------------------------------------------------ arithmetic
    def binop(self, op, a, b, w):
        if isinstance(a, PtrInt) or isinstance(b, PtrInt):
            if op in ('add', 'sub') and w == 64:
                r = lin_combine(a, b, op == 'sub')
                return simp(r) if is_sym(r) else r
            raise Unmodelled('arithmetic %s on ptrtoint value' % op)
        if isinstance(a, bool):
            a = 1 if a else 0
        if isinstance(b, bool):
            b = 1 if b else 0
        if w == 1 and (is_sym(a) or is_sym(b)) and op in ('and', 'or', 'xor'):
            A = a if is_sym(a) else z3.BoolVal(bool(a)); B = b if is_sym(b) else z3.BoolVal(bool(b))
            if z3.is_bool(A) and z3.is_bool(B):
                return simp({'and': z3.And, 'or': z3.Or, 'xor': z3.Xor}[op](A, B))
        if not is_sym(a) and not is_sym(b):
            sa, sb = sgn(a, w), sgn(b, w)
            if op in ('udiv', 'urem', 'sdiv', 'srem') and b == 0:
                raise Violation('division by zero')
            r = {'add': lambda: a + b, 'sub': lambda: a - b, 'mul': lambda: a * b, 'and': lambda: a & b, 'or': lambda: a | b, 'xor': lambda: a ^ b,
                 'shl': lambda: a << b if b < w else 0, 'lshr': lambda: a >> b if b < w else 0, 'ashr': lambda: sa >> b if b < w else (-1 if sa < 0 else 0),
                 'udiv': lambda: a // b, 'urem': lambda: a % b, 'sdiv': lambda: int(sa / sb), 'srem': lambda: sa - sb * int(sa / sb)}[op]()
            r = mask(r, w)
            return (r != 0) if w == 1 else r
        A, B = bv(a, w), bv(b, w)
        r = {'add': lambda: A + B, 'sub': lambda: A - B, 'mul': lambda: A * B, 'and': lambda: A & B, 'or': lambda: A | B, 'xor': lambda: A ^ B, 'shl': lambda: A << B,
             'lshr': lambda: z3.LShR(A, B), 'ashr': lambda: A >> B, 'udiv': lambda: z3.UDiv(A, B), 'urem': lambda: z3.URem(A, B), 'sdiv': lambda: A / B, 'srem': lambda: z3.SRem(A, B)}[op]()
        return simp(r)

    def icmp(self, pred, a, b, w):
        if isinstance(a, PtrInt) and isinstance(b, PtrInt) and a.terms == b.terms:
            return self.icmp(pred, a.add, b.add, 64)
        if isinstance(a, PtrInt):
            a = a.p
        if isinstance(b, PtrInt):
            b = b.p
        if isinstance(a, (Ptr, FuncPtr)) or isinstance(b, (Ptr, FuncPtr)):
            if isinstance(a, FuncPtr) or isinstance(b, FuncPtr):
                same = isinstance(a, FuncPtr) and isinstance(b, FuncPtr) and a.name == b.name
                if pred == 'eq':
                    return same
                if pred == 'ne':
                    return not same
                raise Unmodelled('ordered compare of function pointers')
            a = a if isinstance(a, Ptr) else (NULL if a == 0 else Ptr(None, a)); b = b if isinstance(b, Ptr) else (NULL if b == 0 else Ptr(None, b))
            if a.reg != b.reg:
                if pred == 'eq':
                    return False
                if pred == 'ne':
                    return True
                # address model (stated): regions are laid out in creation order, null below everything
                ra = -1 if a.reg is None else a.reg; rb = -1 if b.reg is None else b.reg
                return {'ult': ra < rb, 'ule': ra < rb, 'ugt': ra > rb, 'uge': ra > rb, 'slt': ra < rb, 'sle': ra < rb, 'sgt': ra > rb, 'sge': ra > rb}[pred]
            return self.icmp(pred, a.off, b.off, 64)
        if isinstance(a, bool):
            a = 1 if a else 0
        if isinstance(b, bool):
            b = 1 if b else 0
        if not is_sym(a) and not is_sym(b):
            sa, sb = sgn(a, w), sgn(b, w)
            return {'eq': a == b, 'ne': a != b, 'ult': a < b, 'ule': a <= b, 'ugt': a > b, 'uge': a >= b, 'slt': sa < sb, 'sle': sa <= sb, 'sgt': sa > sb, 'sge': sa >= sb}[pred]
        A, B = bv(a, w), bv(b, w)
        return simp({'eq': lambda: A == B, 'ne': lambda: A != B, 'ult': lambda: z3.ULT(A, B), 'ule': lambda: z3.ULE(A, B), 'ugt': lambda: z3.UGT(A, B), 'uge': lambda: z3.UGE(A, B),
                     'slt': lambda: A < B, 'sle': lambda: A <= B, 'sgt': lambda: A > B, 'sge': lambda: A >= B}[pred]())

    def gep(self, st, base_ty, p, idxs, env):
        if isinstance(p, PtrInt):
            p = p.p
        if not isinstance(p, Ptr):
            raise Unmodelled('gep on non-pointer %r' % (p,))
        off = p.off; cur = base_ty; first = True
        for ity, iv in idxs:
            w = self.m.parse_type(ity)[1]; v = self.const(st, iv, ity, env)
            if isinstance(v, bool):
                v = 1 if v else 0
            if is_sym(v):
                sv = z3.SignExt(64 - w, v) if w < 64 else v
            else:
                sv = mask(sgn(v, w), 64) if w < 64 else v
            if first:
                s = self.m.tybytes(cur); first = False
            else:
                pt = self.m.parse_type(cur)
                if pt[0] == 'struct':
                    o, f = self.m.field_offset(cur, int(iv)); off = simp(bv(off, 64) + o) if is_sym(off) else mask(off + o, 64); cur = f; continue
                elif pt[0] in ('array', 'vector'):
                    s = self.m.tybytes(pt[2]); cur = pt[2]
                else:
                    raise Unmodelled('gep into ' + cur)
            if isinstance(sv, PtrInt):
                raise Unmodelled('gep index is a pointer-derived integer: %r (base %r)' % (sv, p))
            if is_sym(off) or is_sym(sv):
                off = simp(bv(off, 64) + bv(sv, 64) * s)
            else:
                off = mask(off + sv * s, 64)
        return Ptr(p.reg, off)

    # ------------------------------------------------------------------ decoding
    def decode(self, f, label):
        key = label
        if key in f.decoded:
            return f.decoded[key]
        out = []
        for ln in f.blocks[label]:
            out.append(self._decode1(ln))
        f.decoded[key] = out
        return out

    def _decode1(self, ln):
        m = re.match(r'(%[\w.]+|%"[^"]+") = (.*)$', ln)
        dest, rhs = (m.group(1), m.group(2)) if m else (None, ln)
        op = rhs.split(' ', 1)[0]; rest = rhs[len(op):].strip()
        if op in ('add', 'sub', 'mul', 'and', 'or', 'xor', 'shl', 'lshr', 'ashr', 'udiv', 'urem', 'sdiv', 'srem'):
            r2 = re.sub(r'\b(nuw|nsw|exact)\b ?', '', rest); ty, ab = split_tv(r2) if False else r2.split(' ', 1)
            a, b = split_top(ab)
            return ('bin', dest, op, ty, a, b)
        if op == 'icmp':
            pred, r2 = rest.split(' ', 1); ty, ab = split_tv(r2); a, b = split_top(ab)
            return ('icmp', dest, pred, ty, a, b)
        if op in ('zext', 'trunc', 'sext', 'bitcast', 'ptrtoint', 'inttoptr', 'addrspacecast'):
            ty1, r2 = split_tv(rest); mm = re.match(r'(.*) to (.*)$', r2)
            return ('cast', dest, op, ty1, mm.group(1), mm.group(2))
        if op == 'getelementptr':
            parts = split_top(rest.replace('inbounds ', '', 1)); pty, pv = split_tv(parts[1])
            return ('gep', dest, parts[0], pty, pv, [split_tv(p) for p in parts[2:]])
        if op == 'load':
            parts = split_top(re.sub(r'^((volatile|atomic) )+', '', rest)); pty, pv = split_tv(re.sub(r' (syncscope\("[^"]*"\) )?(unordered|monotonic|acquire|release|acq_rel|seq_cst)$', '', parts[1]))
            return ('load', dest, parts[0], pty, pv)
        if op == 'atomicrmw':
            # single-threaded semantics: old = *p; *p = old <op> v; result old   (format: atomicrmw [volatile] <op> <ty>* <p>, <ty> <v> <ordering>)
            mm = re.match(r'(?:volatile )?(\w+) (.*)$', rest)
            parts = split_top(mm.group(2)); pty, pv = split_tv(parts[0]); ty, v = split_tv(re.sub(r' (syncscope\("[^"]*"\) )?(monotonic|acquire|release|acq_rel|seq_cst)$', '', parts[1]))
            return ('atomicrmw', dest, mm.group(1), pty, pv, ty, v)
        if op == 'store':
            parts = split_top(re.sub(r'^((volatile|atomic) )+', '', rest)); ty, v = split_tv(parts[0]); pty, pv = split_tv(re.sub(r' (syncscope\("[^"]*"\) )?(unordered|monotonic|acquire|release|acq_rel|seq_cst)$', '', parts[1]))
            return ('store', ty, v, pty, pv)
        if op == 'alloca':
            parts = split_top(rest); cnt = None
            if len(parts) > 1 and not parts[1].startswith('align'):
                cnt = split_tv(parts[1])
            return ('alloca', dest, parts[0], cnt)
        if op == 'select':
            parts = split_top(rest); c = parts[0].split(' ', 1)[1]; ty, a = split_tv(parts[1]); _, b = split_tv(parts[2])
            return ('select', dest, c, ty, a, b)
        if op == 'br':
            mm = re.match(r'i1 (\S+), label %([\w.$-]+), label %([\w.$-]+)', rest)
            if mm:
                return ('condbr', mm.group(1), mm.group(2), mm.group(3))
            return ('br', re.match(r'label %([\w.$-]+)', rest).group(1))
        if op == 'switch':
            mm = re.match(r'(\S+) (\S+), label %([\w.$-]+) \[(.*)\]', rest, re.S)
            cases = [(int(cv), l) for cv, l in re.findall(r'\S+ (-?\d+), label %([\w.$-]+)', mm.group(4))]
            return ('switch', mm.group(1), mm.group(2), mm.group(3), cases)
        if op == 'ret':
            if rest == 'void':
                return ('ret', None, None)
            ty, v = split_tv(rest); return ('ret', ty, v)
        if op == 'unreachable':
            return ('unreachable',)
        if op == 'phi':
            ty, r2 = split_tv(rest); inc = re.findall(r'\[ (.*?), %([\w.$-]+) \]', r2)
            return ('phi', dest, ty, inc)
        if op in ('call', 'invoke', 'tail', 'musttail', 'notail'):
            r2 = re.sub(r'^(tail |musttail |notail )', '', rhs); isinv = r2.startswith('invoke'); r2 = r2.split(' ', 1)[1]
            r2 = strip_attrs(re.sub(r'\b(fast|nnan|ninf|nsz|arcp|contract|afn|reassoc)\b ', '', r2))
            # find the callee: last '@name(' or '%val(' at top level before the argument list
            i = self._call_paren(r2)
            head = r2[:i].rstrip(); j = Module._balanced(r2, i); argstr = r2[i + 1:j]; tail = r2[j + 1:]
            mm = re.search(r'(@"[^"]+"|@[\w.$]+|%[\w.]+|%"[^"]+")$', head)
            callee = mm.group(1); retty = head[:mm.start()].strip()
            if '(' in retty and retty.endswith('*'):  # function pointer type given explicitly
                retty = retty[:retty.index('(')].strip()
            args = []
            for a in split_top(argstr):
                a2 = strip_attrs(a)
                if a2.startswith('metadata'):
                    args.append(('metadata', '0')); continue
                args.append(split_tv(a2))
            inv_to = None
            if isinv:
                mm2 = re.search(r'to label %([\w.$-]+)', tail); inv_to = mm2.group(1) if mm2 else 'NEXTLINE'
            return ('call', dest, callee, retty, args, inv_to)
        if op == 'to' and rest.startswith('label'):
            mm = re.match(r'label %([\w.$-]+) unwind', rest)
            return ('invoke_to', mm.group(1))
        if op == 'extractvalue':
            parts = split_top(rest); ty, v = split_tv(parts[0]); return ('extractvalue', dest, ty, v, [int(x) for x in parts[1:]])
        if op == 'insertvalue':
            parts = split_top(rest); ty, v = split_tv(parts[0]); ety, ev = split_tv(parts[1]); return ('insertvalue', dest, ty, v, ety, ev, [int(x) for x in parts[2:]])
        if op == 'freeze':
            ty, v = split_tv(rest); return ('freeze', dest, ty, v)
        if op in ('landingpad', 'resume', 'cleanup', 'catch', 'filter'):
            return ('eh',)
        if op in ('fadd', 'fsub', 'fmul', 'fdiv', 'frem', 'fneg'):
            r2 = re.sub(r'\b(fast|nnan|ninf|nsz|arcp|contract|afn|reassoc)\b ?', '', rest); ty, ab = r2.split(' ', 1)
            return ('fbin', dest, op, ty, split_top(ab))
        if op == 'fcmp':
            r2 = re.sub(r'\b(fast|nnan|ninf|nsz|arcp|contract|afn|reassoc)\b ?', '', rest); pred, r3 = r2.split(' ', 1); ty, ab = split_tv(r3); a, b = split_top(ab)
            return ('fcmp', dest, pred, ty, a, b)
        if op in ('sitofp', 'uitofp', 'fptosi', 'fptoui', 'fpext', 'fptrunc'):
            ty1, r2 = split_tv(rest); mm = re.match(r'(.*) to (.*)$', r2)
            return ('fcast', dest, op, ty1, mm.group(1), mm.group(2))
        return ('unsupported', ln)

    @staticmethod
    def _call_paren(s):
        # index of the '(' that opens the argument list: the first top-level '(' that follows '@name' or '%name'
        for m in re.finditer(r'(@"[^"]+"|@[\w.$]+|%[\w.]+|%"[^"]+")\(', s):
            return m.end() - 1
        raise Unmodelled('cannot parse call: ' + s[:100])

    # ------------------------------------------------------------------ main loop
    def call(self, fname, args, st=None):
        """explore all paths of fname(args) from state st; yields (state, retval | 'ABORT' , info)"""
        st = st or State()
        f = self.m.funcs[fname]
        env = {}
        un = 0
        for i, (ty, nm) in enumerate(f.params):
            if nm is None:
                nm = '%' + str(un); un += 1
            env[nm] = args[i]
        st.frames.append({'func': fname, 'block': f.entry, 'idx': 0, 'prev': None, 'env': env})
        return self.run(st)

    def run(self, st0):
        work = [st0]; results = []
        while work:
            st = work.pop()
            if self.stats['paths'] >= self.max_paths:
                raise PathLimit('more than %d paths' % self.max_paths)
            try:
                try:
                    rv = self._run_path(st, work)
                except Unmodelled as e:
                    fr = st.frames[-1] if st.frames else None
                    if fr is not None and not getattr(e, 'located', False):
                        e.located = True
                        e.args = (str(e) + ' [in %s block %s: %s]' % (fr['func'], fr['block'], self.m.funcs[fr['func']].blocks[fr['block']][max(fr['idx'] - 1, 0)][:120]),)
                    raise
                self.stats['paths'] += 1
                results.append((st, rv))
            except Abort:
                self.stats['paths'] += 1
                results.append((st, 'ABORT'))
            except Violation as e:
                e.pc = list(st.pc) + ([e.cond] if hasattr(e, 'cond') else []); e.where = st.frames[-1]['func'] if st.frames else '?'
                raise
        return results

    def _goto(self, fr, label):
        fr['prev'] = fr['block']; fr['block'] = label; fr['idx'] = 0

    def _run_path(self, st, work):
        m = self.m
        while True:
            fr = st.frames[-1]; f = m.funcs[fr['func']]; ins = self.decode(f, fr['block'])
            if fr['idx'] >= len(ins):
                raise Unmodelled('fell off block %s in %s' % (fr['block'], fr['func']))
            I = ins[fr['idx']]; self._iidx = fr['idx']; fr['idx'] += 1; env = fr['env']; st.steps += 1; self.stats['instructions'] += 1
            if st.steps > self.max_steps:
                raise PathLimit('step cap %d reached' % self.max_steps)
            if self.deadline and (st.steps & 1023) == 0 and time.time() > self.deadline:
                raise PathLimit('time budget exhausted')
            k = I[0]
            if k == 'bin':
                _, dest, op, ty, a, b = I
                w = m.parse_type(ty)
                if w[0] != 'int':
                    raise Unmodelled('vector/other binop ' + ty)
                env[dest] = self.binop(op, self.const(st, a, ty, env), self.const(st, b, ty, env), w[1]); continue
            if k == 'icmp':
                _, dest, pred, ty, a, b = I
                pt = m.parse_type(ty); w = pt[1] if pt[0] == 'int' else 64
                env[dest] = self.icmp(pred, self.const(st, a, ty, env), self.const(st, b, ty, env), w); continue
            if k == 'gep':
                _, dest, bty, pty, pv, idxs = I
                env[dest] = self.gep(st, bty, self.const(st, pv, pty, env), idxs, env); continue
            if k == 'load':
                _, dest, ty, pty, pv = I
                pt = m.parse_type(ty)
                if pt[0] in ('struct', 'array'):
                    env[dest] = self._load_agg(st, self.const(st, pv, pty, env), ty); continue
                lp = self.const(st, pv, pty, env)
                if pt[0] in ('float', 'double') and isinstance(lp, Ptr) and is_sym(simp(lp.off)):
                    # floating-point cells are concrete values: a symbolic position is decided by forking over its feasible values
                    self._chk(st, lp, m.tybytes(ty), 'load')
                    lp = Ptr(lp.reg, self.concretize(st, lp.off, work, maxvals=64))
                v = self.load(st, lp, m.tybytes(ty))
                if pt[0] == 'int' and pt[1] == 1:
                    v = (v != 0) if not is_sym(v) else (v if z3.is_bool(v) else simp(z3.Extract(0, 0, v) == 1))
                elif pt[0] == 'int' and pt[1] < 8 * m.tybytes(ty) and not isinstance(v, (Ptr, FuncPtr, PtrInt, float)):
                    v = mask(v, pt[1]) if not is_sym(v) else simp(z3.Extract(pt[1] - 1, 0, v))
                elif pt[0] == 'int' and isinstance(v, Ptr):
                    v = PtrInt(v) if v.reg is not None else v.off   # inttoptr constants (e.g. virtual-base offsets in vtables) are plain integers
                elif pt[0] in ('ptr', 'func') and isinstance(v, int):
                    v = NULL if v == 0 else Ptr(None, v)
                elif pt[0] in ('ptr', 'func') and isinstance(v, PtrInt):
                    v = v.p
                elif pt[0] in ('float', 'double') and isinstance(v, int):
                    v = struct.unpack('<d' if pt[0] == 'double' else '<f', struct.pack('<Q' if pt[0] == 'double' else '<I', v))[0]
                env[dest] = v; continue
            if k == 'store':
                _, ty, v, pty, pv = I
                pt = m.parse_type(ty)
                val = self.const(st, v, ty, env)
                if pt[0] in ('struct', 'array'):
                    self._store_agg(st, self.const(st, pv, pty, env), ty, val); continue
                nb = m.tybytes(ty)
                if pt[0] == 'int' and pt[1] == 1:
                    val = bv(val, 8) if is_sym(val) else (1 if val else 0)
                elif pt[0] == 'int' and is_sym(val) and pt[1] < 8 * nb:
                    val = z3.ZeroExt(8 * nb - pt[1], val)
                sp = self.const(st, pv, pty, env)
                if isinstance(sp, Ptr) and sp.reg is not None and is_sym(simp(sp.off)):
                    r_ = st.regions[sp.reg]
                    if isinstance(val, float) or (not r_.zero and len(r_.cells) * nb < r_.size):
                        # store at a symbolic position into a region with uninitialised cells (or of a concrete floating-point value):
                        # decided by forking over the feasible positions (the access itself is bounds-checked symbolically first)
                        self._chk(st, sp, nb, 'store')
                        sp = Ptr(sp.reg, self.concretize(st, sp.off, work, maxvals=64))
                self.store(st, sp, val, nb); continue
            if k == 'atomicrmw':
                _, dest, aop, pty, pv, ty, v = I
                nb = m.tybytes(ty); ap = self.const(st, pv, pty, env)
                old = self.load(st, ap, nb); val = self.const(st, v, ty, env); w = m.parse_type(ty)[1]
                if aop == 'xchg':
                    new = val
                elif aop in ('add', 'sub', 'and', 'or', 'xor'):
                    new = self.binop(aop, old, val, w)
                else:
                    raise Unmodelled('atomicrmw ' + aop)
                self.store(st, ap, new, nb); env[dest] = old; continue
            if k == 'cast':
                _, dest, op, ty1, a, ty2 = I
                v = self.const(st, a, ty1, env)
                if op in ('bitcast', 'addrspacecast'):
                    p1, p2 = m.parse_type(ty1), m.parse_type(ty2)
                    if p1[0] in ('float', 'double') and p2[0] == 'int' and isinstance(v, float):
                        v = struct.unpack('<Q' if p1[0] == 'double' else '<I', struct.pack('<d' if p1[0] == 'double' else '<f', v))[0]
                    elif p2[0] in ('float', 'double') and p1[0] == 'int' and isinstance(v, int):
                        v = struct.unpack('<d' if p2[0] == 'double' else '<f', struct.pack('<Q' if p2[0] == 'double' else '<I', v))[0]
                    env[dest] = v
                elif op == 'ptrtoint':
                    env[dest] = PtrInt(v) if isinstance(v, Ptr) and v.reg is not None else (v.off if isinstance(v, Ptr) else v)
                elif op == 'inttoptr':
                    env[dest] = v.p if isinstance(v, PtrInt) else (NULL if (not is_sym(v) and v == 0) else Ptr(None, v))
                else:
                    w1, w2 = m.parse_type(ty1)[1], m.parse_type(ty2)[1]
                    if isinstance(v, PtrInt):
                        if op == 'trunc':
                            raise Unmodelled('truncation of pointer value')
                        env[dest] = v; continue
                    if isinstance(v, bool):
                        v = 1 if v else 0
                    if is_sym(v) and z3.is_bool(v):
                        v = z3.If(v, z3.BitVecVal(1, 1), z3.BitVecVal(0, 1))
                    if op == 'zext':
                        r = simp(z3.ZeroExt(w2 - w1, v)) if is_sym(v) else v
                    elif op == 'trunc':
                        r = simp(z3.Extract(w2 - 1, 0, v)) if is_sym(v) else mask(v, w2)
                    else:
                        r = simp(z3.SignExt(w2 - w1, v)) if is_sym(v) else mask(sgn(v, w1), w2)
                    if w2 == 1:
                        r = (r != 0) if not is_sym(r) else simp(r == 1)
                    env[dest] = r
                continue
            if k == 'br':
                self._goto(fr, I[1]); continue
            if k == 'condbr':
                c = self.const(st, I[1], 'i1', env)
                if is_sym(c) and not z3.is_bool(c):
                    c = simp(c == 1)
                if not is_sym(c):
                    self._goto(fr, I[2] if c else I[3]); continue
                ft = self.feasible(st.pc, c); ff = self.feasible(st.pc, z3.Not(c))
                if ft and ff:
                    self.stats['forks'] += 1; other = st.clone(); other.pc.append(z3.Not(c)); self._goto(other.frames[-1], I[3]); work.append(other)
                if ft:
                    st.pc.append(c); self._goto(fr, I[2])
                elif ff:
                    st.pc.append(z3.Not(c)); self._goto(fr, I[3])
                else:
                    raise Abort()
                continue
            if k == 'phi':
                vals = {}; j = fr['idx'] - 1
                while j < len(ins) and ins[j][0] == 'phi':
                    _, d2, ty2, inc = ins[j]
                    for v, pred in inc:
                        if pred == fr['prev']:
                            vals[d2] = self.const(st, v, ty2, env)
                    if d2 not in vals:
                        raise Unmodelled('phi without matching predecessor %s in %s' % (fr['prev'], fr['func']))
                    j += 1
                env.update(vals); fr['idx'] = j; continue
            if k == 'select':
                _, dest, c, ty, a, b = I
                cv = self.const(st, c, 'i1', env); va, vb = self.const(st, a, ty, env), self.const(st, b, ty, env)
                if is_sym(cv) and not z3.is_bool(cv):
                    cv = simp(cv == 1)
                if not is_sym(cv):
                    env[dest] = va if cv else vb
                elif isinstance(va, (Ptr, PtrInt)) or isinstance(vb, (Ptr, PtrInt)):
                    if isinstance(va, PtrInt) or isinstance(vb, PtrInt):
                        raise Unmodelled('select on ptrtoint values')
                    va = va if isinstance(va, Ptr) else NULL; vb = vb if isinstance(vb, Ptr) else NULL
                    if va.reg != vb.reg:
                        # fork instead of merging pointers into different regions
                        ft = self.feasible(st.pc, cv); ff = self.feasible(st.pc, z3.Not(cv))
                        if ft and ff:
                            self.stats['forks'] += 1; other = st.clone(); other.pc.append(z3.Not(cv)); other.frames[-1]['env'][dest] = vb; work.append(other)
                        if ft:
                            st.pc.append(cv); env[dest] = va
                        elif ff:
                            st.pc.append(z3.Not(cv)); env[dest] = vb
                        else:
                            raise Abort()
                    else:
                        env[dest] = Ptr(va.reg, simp(z3.If(cv, bv(va.off, 64), bv(vb.off, 64))))
                elif isinstance(va, float) and isinstance(vb, float):
                    # concrete floating-point alternatives under a symbolic condition: fork (floating-point cells stay concrete)
                    ft = self.feasible(st.pc, cv); ff = self.feasible(st.pc, z3.Not(cv))
                    if ft and ff:
                        self.stats['forks'] += 1; other = st.clone(); other.pc.append(z3.Not(cv)); other.frames[-1]['env'][dest] = vb; work.append(other)
                    if ft:
                        st.pc.append(cv); env[dest] = va
                    elif ff:
                        st.pc.append(z3.Not(cv)); env[dest] = vb
                    else:
                        raise Abort()
                elif isinstance(va, (list, float, FuncPtr)) or isinstance(vb, (list, float, FuncPtr)):
                    raise Unmodelled('select on aggregate/float with symbolic condition')
                else:
                    pt = m.parse_type(ty); w = pt[1]
                    if w == 1:
                        A = va if is_sym(va) else z3.BoolVal(bool(va)); B = vb if is_sym(vb) else z3.BoolVal(bool(vb)); env[dest] = simp(z3.If(cv, A, B))
                    else:
                        env[dest] = simp(z3.If(cv, bv(va, w), bv(vb, w)))
                continue
            if k == 'switch':
                _, ty, v, dflt, cases = I
                vv = self.const(st, v, ty, env); w = m.parse_type(ty)[1]
                if not is_sym(vv):
                    t = dflt
                    for cv, l in cases:
                        if mask(cv, w) == vv:
                            t = l
                    self._goto(fr, t); continue
                taken = []
                for cv, l in cases:
                    c = vv == mask(cv, w)
                    if self.feasible(st.pc, c):
                        taken.append((c, l))
                dc = z3.And([vv != mask(cv, w) for cv, l in cases]) if cases else z3.BoolVal(True)
                if self.feasible(st.pc, dc):
                    taken.append((dc, dflt))
                if not taken:
                    raise Abort()
                for c, l in taken[1:]:
                    self.stats['forks'] += 1; other = st.clone(); other.pc.append(c); self._goto(other.frames[-1], l); work.append(other)
                st.pc.append(taken[0][0]); self._goto(fr, taken[0][1]); continue
            if k == 'alloca':
                _, dest, ty, cnt = I
                n = 1
                if cnt is not None:
                    n = self.concretize(st, self.const(st, cnt[1], cnt[0], env), work)
                env[dest] = Ptr(st.new_region(m.tybytes(ty) * n, 'alloca%s@%s' % (dest, fr['func'][-30:]), 'stack'), 0); continue
            if k == 'ret':
                rv = None if I[1] is None else self.const(st, I[2], I[1], env)
                # stack regions of this frame die
                st.frames.pop()
                if not st.frames:
                    return rv
                cf = st.frames[-1]
                if cf.get('retdest'):
                    cf['env'][cf['retdest']] = rv
                if cf.get('invoke_to'):
                    self._goto(cf, cf['invoke_to']); cf['invoke_to'] = None
                continue
            if k == 'call':
                self._call(st, fr, I, ins, work); continue
            if k == 'invoke_to':
                self._goto(fr, I[1]); continue
            if k == 'extractvalue':
                _, dest, ty, v, idxs = I
                a = self.const(st, v, ty, env)
                for i in idxs:
                    a = a[i]
                env[dest] = a; continue
            if k == 'insertvalue':
                _, dest, ty, v, ety, ev, idxs = I
                a = self.const(st, v, ty, env); a = self._copy_agg(a); t = a
                for i in idxs[:-1]:
                    t = t[i]
                t[idxs[-1]] = self.const(st, ev, ety, env); env[dest] = a; continue
            if k == 'freeze':
                env[I[1]] = self.const(st, I[3], I[2], env); continue
            if k == 'unreachable':
                raise Abort()
            if k == 'eh':
                raise Abort()
            if k == 'fbin':
                _, dest, op, ty, ab = I
                vals = [self.const(st, x, ty, env) for x in ab]
                if any(not isinstance(x, (float, int)) or isinstance(x, bool) for x in vals):
                    raise Unmodelled('floating-point arithmetic on symbolic values')
                a = float(vals[0]); b = float(vals[1]) if len(vals) > 1 else None
                env[dest] = {'fadd': lambda: a + b, 'fsub': lambda: a - b, 'fmul': lambda: a * b, 'fdiv': lambda: a / b if b != 0 else float('inf'), 'fneg': lambda: -a, 'frem': lambda: a % b}[op](); continue
            if k == 'fcmp':
                _, dest, pred, ty, a, b = I
                va, vb = self.const(st, a, ty, env), self.const(st, b, ty, env)
                if not isinstance(va, (float, int)) or not isinstance(vb, (float, int)):
                    raise Unmodelled('floating-point compare on symbolic values')
                va, vb = float(va), float(vb); un = va != va or vb != vb
                base = {'eq': va == vb, 'ne': va != vb, 'gt': va > vb, 'ge': va >= vb, 'lt': va < vb, 'le': va <= vb}
                if pred in ('true', 'false'):
                    env[dest] = pred == 'true'
                elif pred == 'ord':
                    env[dest] = not un
                elif pred == 'uno':
                    env[dest] = un
                elif pred[0] == 'o':
                    env[dest] = (not un) and base[pred[1:]]
                else:
                    env[dest] = un or base[pred[1:]]
                continue
            if k == 'fcast':
                _, dest, op, ty1, a, ty2 = I
                v = self.const(st, a, ty1, env)
                if is_sym(v) or isinstance(v, (Ptr, PtrInt)):
                    raise Unmodelled('int/float conversion of a symbolic value')
                if op in ('sitofp',):
                    env[dest] = float(sgn(int(v), m.parse_type(ty1)[1]))
                elif op == 'uitofp':
                    env[dest] = float(int(v))
                elif op in ('fptosi', 'fptoui'):
                    env[dest] = mask(int(v), m.parse_type(ty2)[1])
                else:
                    env[dest] = float(v)
                continue
            raise Unmodelled('unsupported instruction: ' + str(I)[:160])

    def _copy_agg(self, a):
        return [self._copy_agg(x) for x in a] if isinstance(a, list) else a

    def _load_agg(self, st, p, ty):
        pt = self.m.parse_type(ty)
        if pt[0] == 'struct':
            out = []
            for i, f in enumerate(pt[1]):
                fo, _ = self.m.field_offset(ty, i); out.append(self._load_agg(st, Ptr(p.reg, self.binop('add', p.off, fo, 64)), f))
            return out
        if pt[0] == 'array':
            es = self.m.tybytes(pt[2]); return [self._load_agg(st, Ptr(p.reg, self.binop('add', p.off, i * es, 64)), pt[2]) for i in range(pt[1])]
        return self.load(st, p, self.m.tybytes(ty))

    def _store_agg(self, st, p, ty, val):
        pt = self.m.parse_type(ty)
        if pt[0] == 'struct':
            for i, f in enumerate(pt[1]):
                fo, _ = self.m.field_offset(ty, i); self._store_agg(st, Ptr(p.reg, self.binop('add', p.off, fo, 64)), f, val[i])
            return
        if pt[0] == 'array':
            es = self.m.tybytes(pt[2])
            for i in range(pt[1]):
                self._store_agg(st, Ptr(p.reg, self.binop('add', p.off, i * es, 64)), pt[2], val[i])
            return
        self.store(st, p, val, self.m.tybytes(ty))

    # ------------------------------------------------------------------ calls
    def _call(self, st, fr, I, ins, work):
        _, dest, callee_tok, retty, argtv, inv_to = I
        env = fr['env']; m = self.m
        if inv_to == 'NEXTLINE':
            nxt = ins[fr['idx']]; inv_to = nxt[1]; fr['idx'] += 1
        if callee_tok.startswith('@'):
            callee = callee_tok[1:].strip('"'); callee = m.aliases.get(callee, callee)
        else:
            fp = env[callee_tok]
            if not isinstance(fp, FuncPtr):
                raise Unmodelled('indirect call through non-function value')
            callee = m.aliases.get(fp.name, fp.name)
        args = [0 if t == 'metadata' else self.const(st, v, t, env) for t, v in argtv]

        def cont(rv=None):
            if dest:
                env[dest] = rv
            if inv_to:
                self._goto(fr, inv_to)
        if callee in self.stubs:
            r = self.stubs[callee](self, st, args, work)
            cont(r); return
        if callee.startswith('llvm.'):
            self._intrinsic(st, callee, args, cont, work, retty); return
        if callee == '_ZNSt7__cxx1112basic_stringIcSt11char_traitsIcESaIcEE9_M_createERmm':
            # libstdc++ basic_string::_M_create(size_type& capacity, size_type old_capacity): growth policy + allocation of capacity+1 chars
            cap = self.concretize(st, self.load(st, args[1], 8), work); old = self.concretize(st, args[2], work)
            if cap > old and cap < 2 * old:
                cap = 2 * old
            self.store(st, args[1], cap, 8)
            cont(Ptr(st.new_region(cap + 1, 'string', 'heap'), 0)); return
        if callee in ('_Znwm', '_Znam', 'malloc', '_ZnwmSt11align_val_t', '_ZnamSt11align_val_t', '_ZnwmRKSt9nothrow_t', '_ZnamRKSt9nothrow_t'):
            n = self.concretize(st, args[0], work)
            if n > (1 << 26):
                raise Abort()  # absurd allocation: std::bad_alloc / length_error
            cont(Ptr(st.new_region(n, '%s#%d@%s' % ('heap', len(st.regions), fr['func'][-40:]), 'heap'), 0)); return
        if callee == 'calloc':
            n = self.concretize(st, self.binop('mul', args[0], args[1], 64), work)
            cont(Ptr(st.new_region(n, 'heap#%d' % len(st.regions), 'heap', zero=True), 0)); return
        if callee in ('_ZdlPv', '_ZdaPv', 'free', '_ZdlPvm', '_ZdaPvm', '_ZdlPvSt11align_val_t', '_ZdlPvmSt11align_val_t'):
            p = args[0]
            if isinstance(p, Ptr) and p.reg is not None:
                r = st.regions[p.reg]; off = simp(p.off)
                if r.kind != 'heap':
                    raise Violation('free of non-heap memory %s' % r.name)
                if is_sym(off) or off != 0:
                    raise Violation('free of a pointer into the middle of %s' % r.name)
                if not r.live:
                    raise Violation('double free of %s' % r.name)
                r.live = False
            cont(); return
        if callee in ('memcpy', 'memmove'):
            n = self.concretize(st, args[2], work); self.memcpy(st, args[0], args[1], n); cont(args[0]); return
        if callee == 'memset':
            self._memset_at(st, args[0], args[1], self.concretize(st, args[2], work), work); cont(args[0]); return
        if callee == 'memcmp' or callee == 'bcmp':
            n = self.concretize(st, args[2], work); res = 0
            for i in range(n):
                a = self.load(st, Ptr(args[0].reg, self.binop('add', args[0].off, i, 64)), 1); b = self.load(st, Ptr(args[1].reg, self.binop('add', args[1].off, i, 64)), 1)
                if is_sym(a) or is_sym(b):
                    raise Unmodelled('memcmp on symbolic bytes')
                if a != b:
                    res = mask(-1 if a < b else 1, 32); break
            cont(res); return
        if callee == 'strlen':
            n = 0
            while True:
                c = self.load(st, Ptr(args[0].reg, self.binop('add', args[0].off, n, 64)), 1)
                if is_sym(c):
                    raise Unmodelled('strlen on symbolic bytes')
                if c == 0:
                    break
                n += 1
            cont(n); return
        if callee in ABORT_FUNCS or callee.startswith('_ZSt') and '__throw' in callee or callee == '_ZN4FEAT8abortionEPKcS1_iS1_':
            st.log.append('abort:' + callee + ' in ' + fr['func'])
            raise Abort()
        if callee == '__cxa_allocate_exception':
            cont(Ptr(st.new_region(self.concretize(st, args[0], work) + 128, 'exception', 'heap'), 0)); return
        if callee in NOP_FUNCS:
            cont(NOP_FUNCS[callee]); return
        if callee not in m.funcs:
            raise Unmodelled('unmodelled callee ' + callee)
        f = m.funcs[callee]; nenv = {}; un = 0
        for i, (ty, nm) in enumerate(f.params):
            if nm is None:
                nm = '%' + str(un); un += 1
            nenv[nm] = args[i]
        fr['retdest'] = dest; fr['invoke_to'] = inv_to
        self.funcs_entered.add(callee)
        if len(st.frames) > 200:
            raise Unmodelled('call depth > 200')
        st.frames.append({'func': callee, 'block': f.entry, 'idx': 0, 'prev': None, 'env': nenv})

    def _memset_at(self, st, p, c, n, work):
        if n != 0 and isinstance(p, Ptr) and p.reg is not None and is_sym(simp(p.off)):
            self._chk(st, p, n, 'memset')
            p = Ptr(p.reg, self.concretize(st, p.off, work, maxvals=64))
        self._memset(st, p, c, n)

    def _memset(self, st, p, c, n):
        if n == 0:
            return
        if isinstance(c, bool):
            c = 1 if c else 0
        r, off = self._chk(st, p, n, 'memset')
        if is_sym(off):
            raise Unmodelled('memset with symbolic pointer offset')
        o = 0
        while o < n:
            wdt = 8 if (n - o >= 8 and (off + o) % 8 == 0) else 1
            if is_sym(c):
                cb = z3.Extract(7, 0, bv(c, 8) if c.size() == 8 else c); v = cb
                for _ in range(wdt - 1):
                    v = z3.Concat(cb, v)
                v = simp(v)
            else:
                v = int.from_bytes(bytes([c & 255]) * wdt, 'little')
            self.store(st, Ptr(p.reg, off + o), v, wdt); o += wdt

    def _intrinsic(self, st, callee, args, cont, work, retty):
        if callee.startswith('llvm.memcpy') or callee.startswith('llvm.memmove'):
            self.memcpy(st, args[0], args[1], self.concretize(st, args[2], work)); cont(); return
        if callee.startswith('llvm.memset'):
            self._memset_at(st, args[0], args[1], self.concretize(st, args[2], work), work); cont(); return
        if callee.startswith(('llvm.lifetime', 'llvm.dbg', 'llvm.assume', 'llvm.experimental.', 'llvm.prefetch', 'llvm.stackrestore', 'llvm.invariant', 'llvm.va_', 'llvm.donothing')):
            cont(); return
        if callee.startswith('llvm.stacksave'):
            cont(NULL); return
        if callee.startswith(('llvm.expect', 'llvm.launder')):
            cont(args[0]); return
        if callee.startswith('llvm.is.constant'):
            cont(False); return
        if callee.startswith('llvm.objectsize'):
            cont(mask(-1, 64)); return
        mm = re.match(r'llvm\.(umax|umin|smax|smin|abs)\.i(\d+)', callee)
        if mm:
            op, w = mm.group(1), int(mm.group(2)); a = args[0]
            if op == 'abs':
                c = self.icmp('slt', a, 0, w); neg = self.binop('sub', 0, a, w)
                cont(neg if c is True else a if c is False else simp(z3.If(c, bv(neg, w), bv(a, w)))); return
            b = args[1]; pred = {'umax': 'ugt', 'umin': 'ult', 'smax': 'sgt', 'smin': 'slt'}[op]; c = self.icmp(pred, a, b, w)
            cont(a if c is True else b if c is False else simp(z3.If(c, bv(a, w), bv(b, w)))); return
        mm = re.match(r'llvm\.(u|s)(add|sub|mul)\.with\.overflow\.i(\d+)', callee)
        if mm:
            sg, op, w = mm.group(1), mm.group(2), int(mm.group(3)); a, b = args
            r = self.binop(op, a, b, w)
            if not is_sym(a) and not is_sym(b):
                if sg == 'u':
                    full = {'add': a + b, 'sub': a - b, 'mul': a * b}[op]; ov = full < 0 or full >= (1 << w)
                else:
                    sa, sb = sgn(a, w), sgn(b, w); full = {'add': sa + sb, 'sub': sa - sb, 'mul': sa * sb}[op]; ov = not (-(1 << (w - 1)) <= full < (1 << (w - 1)))
            else:
                A, B = bv(a, w), bv(b, w)
                if sg == 'u':
                    ov = {'add': lambda: z3.Not(z3.BVAddNoOverflow(A, B, False)), 'sub': lambda: z3.Not(z3.BVSubNoUnderflow(A, B, False)), 'mul': lambda: z3.Not(z3.BVMulNoOverflow(A, B, False))}[op]()
                else:
                    ov = {'add': lambda: z3.Or(z3.Not(z3.BVAddNoOverflow(A, B, True)), z3.Not(z3.BVAddNoUnderflow(A, B))), 'sub': lambda: z3.Or(z3.Not(z3.BVSubNoOverflow(A, B)), z3.Not(z3.BVSubNoUnderflow(A, B, True))),
                          'mul': lambda: z3.Or(z3.Not(z3.BVMulNoOverflow(A, B, True)), z3.Not(z3.BVMulNoUnderflow(A, B)))}[op]()
                ov = simp(ov)
            cont([r, ov]); return
        mm = re.match(r'llvm\.(ctpop|ctlz|cttz)\.i(\d+)', callee)
        if mm and is_sym(args[0]):
            op, w = mm.group(1), int(mm.group(2)); a = bv(args[0], w)
            if op == 'ctpop':
                r = z3.BitVecVal(0, w)
                for b in range(w):
                    r = r + z3.ZeroExt(w - 1, z3.Extract(b, b, a))
            elif op == 'ctlz':
                r = z3.BitVecVal(w, w)
                for b in range(w):
                    r = z3.If(z3.Extract(b, b, a) == 1, z3.BitVecVal(w - 1 - b, w), r)
            else:
                r = z3.BitVecVal(w, w)
                for b in range(w - 1, -1, -1):
                    r = z3.If(z3.Extract(b, b, a) == 1, z3.BitVecVal(b, w), r)
            cont(simp(r)); return
        mm = re.match(r'llvm\.(ctpop|ctlz|cttz|bswap)\.i(\d+)', callee)
        if mm and not is_sym(args[0]):
            op, w = mm.group(1), int(mm.group(2)); a = args[0]
            if op == 'ctpop':
                cont(bin(a).count('1'))
            elif op == 'ctlz':
                cont(w - a.bit_length())
            elif op == 'cttz':
                cont(w if a == 0 else (a & -a).bit_length() - 1)
            else:
                cont(int.from_bytes(a.to_bytes(w // 8, 'little'), 'big'))
            return
        mm = re.match(r'llvm\.(fshl|fshr)\.i(\d+)', callee)
        if mm and not any(is_sym(x) for x in args):
            w = int(mm.group(2)); a, b, s = args; s %= w; full = (a << w) | b
            cont(mask(full >> (w - s), w) if mm.group(1) == 'fshl' else mask(full >> s, w)); return
        if callee.startswith('llvm.fabs') and isinstance(args[0], float):
            cont(abs(args[0])); return
        if callee.startswith('llvm.trap'):
            raise Abort()
        raise Unmodelled('intrinsic ' + callee)

    # ------------------------------------------------------------------ harness helpers
    def new_state(self, run_ctors=True):
        st = State()
        if run_ctors:
            # static initialisers of the linked translation units (e.g. the MemoryPool map) run before the harness function
            for name in sorted(self.m.funcs):
                if name.startswith('_GLOBAL__sub_I_'):
                    res = self.call(name, [], st)
                    if len(res) != 1 or res[0][1] == 'ABORT':
                        raise Unmodelled('static initialiser %s did not complete on a single path' % name)
                    st = res[0][0]
            self.stats['paths'] = 0
        return st

    def arr(self, st, name, vals, nbytes=8, kind='input'):
        rid = st.new_region(nbytes * max(len(vals), 1), name, kind)
        for i, v in enumerate(vals):
            st.regions[rid].cells[nbytes * i] = (v, nbytes)
        return Ptr(rid, 0)

    def buf(self, st, name, size, kind='output'):
        return Ptr(st.new_region(size, name, kind), 0)

    def cell(self, st, p, k, nbytes=8):
        return self.load(st, Ptr(p.reg, (p.off if not is_sym(p.off) else p.off) + nbytes * k), nbytes)

    def leaks(self, st):
        return [r.name for r in st.regions if r.kind == 'heap' and r.live]
