"""Model of libstdc++'s four out-of-line red-black-tree primitives for the IR executor (E3).  The tree is maintained as a plain
(unbalanced) binary search tree: the header code of std::map only relies on the BST order, parent links and the header's
root / leftmost / rightmost pointers, not on the balance.  Node layout: {i32 color @0, parent @8, left @16, right @24}."""
from .irsym import Ptr, NULL, Unmodelled, is_sym

C_, P_, L_, R_ = 0, 8, 16, 24


def _isnull(p):
    return (not isinstance(p, Ptr)) or p.reg is None


def _eq(a, b):
    if _isnull(a) or _isnull(b):
        return _isnull(a) and _isnull(b)
    if is_sym(a.off) or is_sym(b.off):
        raise Unmodelled('symbolic node pointer in std::map model')
    return a.reg == b.reg and a.off == b.off


def install(ex):
    def ld(st, p, f):
        v = ex.load(st, Ptr(p.reg, p.off + f), 8)
        return v if isinstance(v, Ptr) else NULL

    def stp(st, p, f, v):
        ex.store(st, Ptr(p.reg, p.off + f), v if isinstance(v, Ptr) else NULL, 8)

    def minimum(st, x):
        while not _isnull(ld(st, x, L_)):
            x = ld(st, x, L_)
        return x

    def maximum(st, x):
        while not _isnull(ld(st, x, R_)):
            x = ld(st, x, R_)
        return x

    def increment(ex_, st, args, work):
        x = args[0]
        if not _isnull(ld(st, x, R_)):
            return minimum(st, ld(st, x, R_))
        y = ld(st, x, P_)
        while _eq(x, ld(st, y, R_)):
            x = y; y = ld(st, y, P_)
        if not _eq(ld(st, x, R_), y):
            x = y
        return x

    def decrement(ex_, st, args, work):
        x = args[0]
        color = ex.load(st, Ptr(x.reg, x.off + C_), 4)
        if color == 0 and _eq(ld(st, ld(st, x, P_), P_), x):   # header (red) whose parent is the root
            return ld(st, x, R_)
        if not _isnull(ld(st, x, L_)):
            return maximum(st, ld(st, x, L_))
        y = ld(st, x, P_)
        while _eq(x, ld(st, y, L_)):
            x = y; y = ld(st, y, P_)
        return y

    def insert(ex_, st, args, work):
        left, x, p, h = args
        if is_sym(left):
            raise Unmodelled('symbolic insert side in std::map model')
        left = bool(left)
        # colours: only "header is red, root is black" is observable by the header code (decrement recognises the header by it)
        stp(st, x, P_, p); stp(st, x, L_, NULL); stp(st, x, R_, NULL); ex.store(st, Ptr(x.reg, x.off + C_), 1 if _eq(p, h) else 0, 4)
        if left:
            stp(st, p, L_, x)
            if _eq(p, h):
                stp(st, h, P_, x); stp(st, h, R_, x)
            elif _eq(p, ld(st, h, L_)):
                stp(st, h, L_, x)
        else:
            stp(st, p, R_, x)
            if _eq(p, ld(st, h, R_)):
                stp(st, h, R_, x)
        return None

    def erase(ex_, st, args, work):
        z, h = args
        y = z; x = NULL
        if _isnull(ld(st, y, L_)):
            x = ld(st, y, R_)
        elif _isnull(ld(st, y, R_)):
            x = ld(st, y, L_)
        else:
            y = minimum(st, ld(st, y, R_)); x = ld(st, y, R_)
        if not _eq(y, z):
            zl = ld(st, z, L_); stp(st, zl, P_, y); stp(st, y, L_, zl)
            if not _eq(y, ld(st, z, R_)):
                yp = ld(st, y, P_)
                if not _isnull(x):
                    stp(st, x, P_, yp)
                stp(st, yp, L_, x)
                zr = ld(st, z, R_); stp(st, y, R_, zr); stp(st, zr, P_, y)
            if _eq(ld(st, h, P_), z):
                stp(st, h, P_, y)
            else:
                zp = ld(st, z, P_)
                if _eq(ld(st, zp, L_), z):
                    stp(st, zp, L_, y)
                else:
                    stp(st, zp, R_, y)
            stp(st, y, P_, ld(st, z, P_))
            y = z
        else:
            yp = ld(st, y, P_)
            if not _isnull(x):
                stp(st, x, P_, yp)
            if _eq(ld(st, h, P_), z):
                stp(st, h, P_, x)
            else:
                zp = ld(st, z, P_)
                if _eq(ld(st, zp, L_), z):
                    stp(st, zp, L_, x)
                else:
                    stp(st, zp, R_, x)
            if _eq(ld(st, h, L_), z):
                stp(st, h, L_, ld(st, z, P_) if _isnull(ld(st, z, R_)) else minimum(st, x))
            if _eq(ld(st, h, R_), z):
                stp(st, h, R_, ld(st, z, P_) if _isnull(ld(st, z, L_)) else maximum(st, x))
        # the (new) root is black
        r = ld(st, h, P_)
        if not _isnull(r):
            ex.store(st, Ptr(r.reg, r.off + C_), 1, 4)
        return y

    ex.stubs['_ZSt18_Rb_tree_incrementPSt18_Rb_tree_node_base'] = increment
    ex.stubs['_ZSt18_Rb_tree_incrementPKSt18_Rb_tree_node_base'] = increment
    ex.stubs['_ZSt18_Rb_tree_decrementPSt18_Rb_tree_node_base'] = decrement
    ex.stubs['_ZSt18_Rb_tree_decrementPKSt18_Rb_tree_node_base'] = decrement
    ex.stubs['_ZSt29_Rb_tree_insert_and_rebalancebPSt18_Rb_tree_node_baseS0_RS_'] = insert
    ex.stubs['_ZSt28_Rb_tree_rebalance_for_erasePSt18_Rb_tree_node_baseRS_'] = erase
