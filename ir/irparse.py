"""LLVM-14 textual IR (typed pointers) front end shared by E3 (irsym) and E1 (ll2c).
Parses named types, globals with initialisers, function bodies into decoded instruction tuples (decoded lazily, cached)."""
import re

ATTRS = (r'\b(noundef|nonnull|zeroext|signext|noalias|nocapture|readonly|readnone|writeonly|returned|inreg|immarg|nofree|dso_local|'
         r'linkonce_odr|weak_odr|internal|hidden|local_unnamed_addr|unnamed_addr|mustprogress|noinline|uwtable|nest|swiftself|available_externally|'
         r'private|external|weak|linkonce|common|protected|dllimport|dllexport|fastcc|coldcc|tail|musttail|notail|nounwind|willreturn|nosync|argmemonly|'
         r'inaccessiblememonly|speculatable|cold|norecurse|alwaysinline|optsize|minsize|nobuiltin|builtin|allocsize\([^)]*\)|noreturn)\b|'
         r'align \d+|dereferenceable(_or_null)?\(\d+\)|sret\([^)]*\)|byval\([^)]*\)|#\d+|comdat(\([^)]*\))?')


def strip_attrs(s):
    return re.sub(r'\s+', ' ', re.sub(ATTRS, '', s)).strip()


def split_top(s, sep=','):
    out, depth, cur, inq = [], 0, '', False
    for ch in s:
        if ch == '"':
            inq = not inq
        if not inq:
            if ch in '([{<':
                depth += 1
            elif ch in ')]}>':
                depth -= 1
            elif ch == sep and depth == 0:
                out.append(cur.strip()); cur = ''; continue
        cur += ch
    if cur.strip():
        out.append(cur.strip())
    return out


def split_tv(s):
    """split '<type> <value>' -> (type, value)"""
    s = s.strip(); i = 0; n = len(s)

    def skip_bal(i, o, c):
        d = 0
        while i < n:
            if s[i] == o:
                d += 1
            elif s[i] == c:
                d -= 1
                if d == 0:
                    return i + 1
            i += 1
        raise Exception('unbalanced ' + s)
    if s[i] == '%':
        if s[i + 1] == '"':
            i = s.index('"', i + 2) + 1
        else:
            i += re.match(r'%[\w.$-]+', s[i:]).end()
    elif s[i] == '{':
        i = skip_bal(i, '{', '}')
    elif s[i] == '[':
        i = skip_bal(i, '[', ']')
    elif s[i] == '<':
        i = skip_bal(i, '<', '>')
    else:
        i += re.match(r'(i\d+|float|double|void|label|metadata|half|x86_fp80|fp128|ptr)', s[i:]).end()
    while True:
        j = i
        while j < n and s[j] == ' ':
            j += 1
        if j < n and s[j] == '*':
            i = j + 1; continue
        if j < n and s[j] == '(':
            i = skip_bal(j, '(', ')'); continue
        break
    return s[:i].strip(), s[i:].strip()


class Func:
    def __init__(self, name, ret, params, body, variadic=False):
        self.name, self.ret, self.params, self.variadic = name, ret, params, variadic
        self.blocks, self.order = {}, []
        lines = []
        for ln in body.split('\n'):
            if lines and lines[-1].lstrip().startswith('switch') and ']' not in lines[-1]:
                lines[-1] += ' ' + ln.strip()
            else:
                lines.append(ln)
        # the entry block label is the number after the (unnamed) parameters
        nun = len([1 for (t, n) in params if n is None or re.fullmatch(r'%\d+', n)])
        cur = str(nun)
        # named params: entry label is still an unnamed counter
        self.entry = None
        for ln in lines:
            m = re.match(r'^([\w.$-]+):', ln)
            if m:
                cur = m.group(1); self.blocks[cur] = []; self.order.append(cur); continue
            t = ln.strip()
            if not t or t.startswith(';'):
                continue
            if self.entry is None and cur not in self.blocks:
                self.blocks[cur] = []; self.order.append(cur)
            if self.entry is None:
                self.entry = cur
            t = re.sub(r',? ?!\w+(\.\w+)* !\d+', '', t)
            t = re.sub(r', !srcloc !\d+', '', t)
            self.blocks[cur].append(t)
        self.decoded = {}


class Module:
    def __init__(self, text):
        self.text = text
        self.named = {}
        for m in re.finditer(r'^(%[\w".:<>,\s\-\*\(\)\[\]&~=$]+?) = type (.+)$', text, re.M):
            self.named[m.group(1).strip()] = m.group(2).strip()
        self.funcs, self.decls, self.aliases, self.globals = {}, {}, {}, {}
        for m in re.finditer(r'^define (.*?)@("[^"]+"|[\w.$]+)\(', text, re.M):
            ret = strip_attrs(m.group(1)); name = m.group(2).strip('"')
            i = m.end() - 1; j = self._balanced(text, i)
            k = text.index('{\n', j); e = text.index('\n}\n', k)
            ps = text[i + 1:j]
            self.funcs[name] = Func(name, ret, self._params(ps), text[k + 2:e], variadic='...' in ps)
        for m in re.finditer(r'^declare (.*?)@("[^"]+"|[\w.$]+)\(', text, re.M):
            self.decls[m.group(2).strip('"')] = strip_attrs(m.group(1))
        for m in re.finditer(r'^@("[^"]+"|[\w.$]+) = .*?alias [^@]*@("[^"]+"|[\w.$]+)', text, re.M):
            self.aliases[m.group(1).strip('"')] = m.group(2).strip('"')
        for m in re.finditer(r'^@("[^"]+"|[\w.$]+) = (.*)$', text, re.M):
            name = m.group(1).strip('"'); rest = m.group(2)
            if ' alias ' in ' ' + rest or rest.startswith('alias') or 'ifunc' in rest:
                continue
            rest = re.sub(r', (align \d+|comdat(\([^)]*\))?|section "[^"]*"|!\w+ !\d+)', '', rest)
            rest = strip_attrs(re.sub(r'\b(thread_local(\([^)]*\))?|externally_initialized|addrspace\(\d+\))\b', '', rest))
            mm = re.match(r'(global|constant)\s+(.*)$', rest)
            if not mm:
                continue
            try:
                ty, init = split_tv(mm.group(2))
            except Exception:
                ty, init = mm.group(2), ''
            self.globals[name] = (ty, init.strip(), mm.group(1) == 'constant')
        self._sz = {}

    @staticmethod
    def _balanced(s, i):
        d = 0; inq = False
        for j in range(i, len(s)):
            c = s[j]
            if c == '"':
                inq = not inq
            if inq:
                continue
            if c == '(':
                d += 1
            elif c == ')':
                d -= 1
                if d == 0:
                    return j
        raise Exception('unbalanced')

    @staticmethod
    def _params(ps):
        out = []
        for p in split_top(ps):
            if p == '...':
                continue
            p2 = strip_attrs(p)
            m = re.match(r'(.*?)\s*(%[\w.]+)?$', p2)
            out.append((m.group(1).strip(), m.group(2)))
        return out

    # ------------------------------------------------------------------ types
    def parse_type(self, t):
        t = t.strip()
        if t.endswith('*'):
            return ('ptr', t[:-1].strip())
        if t == 'ptr':
            return ('ptr', 'i8')
        if t.endswith(')') and not t.startswith('{') and '(' in t:
            return ('func', t)
        m = re.fullmatch(r'i(\d+)', t)
        if m:
            return ('int', int(m.group(1)))
        if t in ('float', 'double', 'void', 'opaque', 'half', 'x86_fp80', 'fp128', 'label', 'metadata'):
            return (t,)
        if t.startswith('['):
            m = re.match(r'\[(\d+) x (.*)\]$', t)
            return ('array', int(m.group(1)), m.group(2))
        if t.startswith('<{'):
            return ('struct', split_top(t[2:-2]), True)
        if t.startswith('{'):
            return ('struct', split_top(t[1:-1]), False)
        if t.startswith('%'):
            if t not in self.named:
                raise Exception('unknown named type ' + t)
            return self.parse_type(self.named[t])
        if t.startswith('<'):
            m = re.match(r'<(\d+) x (.*)>$', t)
            return ('vector', int(m.group(1)), m.group(2))
        raise Exception('type? ' + t)

    def size_align(self, t):
        if t in self._sz:
            return self._sz[t]
        p = self.parse_type(t); k = p[0]
        if k in ('ptr', 'func'):
            r = (8, 8)
        elif k == 'int':
            n = p[1]; b = 1 if n <= 8 else 2 if n <= 16 else 4 if n <= 32 else 8 if n <= 64 else 16
            r = (b, b)
        elif k == 'float':
            r = (4, 4)
        elif k == 'double':
            r = (8, 8)
        elif k in ('x86_fp80', 'fp128'):
            r = (16, 16)
        elif k == 'half':
            r = (2, 2)
        elif k == 'array':
            s, a = self.size_align(p[2]); r = (s * p[1], a)
        elif k == 'vector':
            s, a = self.size_align(p[2]); r = (s * p[1], s * p[1])
        elif k == 'struct':
            off, al = 0, 1
            for f in p[1]:
                s, a = self.size_align(f)
                if p[2]:
                    a = 1
                off = (off + a - 1) // a * a + s; al = max(al, a)
            r = ((off + al - 1) // al * al, al)
        elif k == 'opaque':
            r = (0, 1)
        else:
            raise Exception('size? ' + t)
        self._sz[t] = r
        return r

    def field_offset(self, t, idx):
        p = self.parse_type(t); off = 0
        for i, f in enumerate(p[1]):
            s, a = self.size_align(f)
            if p[2]:
                a = 1
            off = (off + a - 1) // a * a
            if i == idx:
                return off, f
            off += s
        raise Exception('field idx')

    def tybytes(self, t):
        return self.size_align(t)[0]
