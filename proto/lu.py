import z3, time, sys
def lu_check(n):
    A=[[z3.Real(f'a{i}{j}') for j in range(n)] for i in range(n)]
    U=[row[:] for row in A]; L=[[0]*n for _ in range(n)]
    s=z3.Solver(); s.set('timeout',100000)
    for k in range(n):
        s.add(U[k][k]!=0)
        for i in range(k+1,n):
            L[i][k]=U[i][k]/U[k][k]
            for j in range(k,n):
                U[i][j]=U[i][j]-L[i][k]*U[k][j]
    for i in range(n): L[i][i]=1
    viol=[]
    for i in range(n):
        for j in range(n):
            lu=sum(L[i][k]*U[k][j] for k in range(min(i,j)+1))
            viol.append(lu!=A[i][j])
    s.add(z3.Or(viol))
    t=time.time(); r=s.check(); print('LU',n,r,round(time.time()-t,2))
def sor_check(n):
    a=[[z3.Real(f'a{i}{j}') for j in range(n)] for i in range(n)]; d=[z3.Real(f'd{i}') for i in range(n)]; w=z3.Real('w')
    c=[None]*n; s=z3.Solver(); s.set('timeout',100000); s.add(w!=0)
    for i in range(n):
        s.add(a[i][i]!=0)
        acc=0
        for j in range(i): acc=acc+a[i][j]*c[j]
        c[i]=w*(d[i]-acc)/a[i][i]
    viol=[ (a[i][i]/w)*c[i]+sum(a[i][j]*c[j] for j in range(i)) != d[i] for i in range(n)]
    s.add(z3.Or(viol)); t=time.time(); r=s.check(); print('SOR',n,r,round(time.time()-t,2))
for n in (2,3,4): sor_check(n)
for n in (2,3,4): lu_check(n)
