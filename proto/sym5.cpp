// probe: one-cell Laplace assembly with a symbolic scalar type
#include <string>
#include <vector>
#include <sstream>
#include <iostream>
#include <cstdio>
#include <cstdlib>
#include <cmath>

#include <unordered_map>
#include <set>
#include <functional>
struct Node { char op; int a, b; std::string leaf; };
static std::vector<Node>& nodes(){ static std::vector<Node> t; return t; }
static std::unordered_map<std::string,int>& hc(){ static std::unordered_map<std::string,int> m; return m; }
static int mknode(char op,int a,int b,const std::string& leaf){ std::string k=std::string(1,op)+":"+std::to_string(a)+":"+std::to_string(b)+":"+leaf; auto it=hc().find(k); if(it!=hc().end()) return it->second; int id=(int)nodes().size(); nodes().push_back(Node{op,a,b,leaf}); hc()[k]=id; return id; }
static long nbranch=0;
struct SymReal {
  int id; double sh; bool cst;
  SymReal() = default;
  static SymReal mk(const std::string& s, double sh, bool c){ SymReal r; r.id=mknode('L',0,0,s); r.sh=sh; r.cst=c; return r; }
  static std::string rat(double d){ if(d==0) return "0.0"; int e; double m=std::frexp(std::fabs(d),&e); long long mm=(long long)std::ldexp(m,53); e-=53; while((mm&1)==0){mm>>=1;e++;}
    std::ostringstream o; o.precision(1); o<<std::fixed; if(e>=0) o<<"(* "<<mm<<".0 "<<std::ldexp(1.0,e)<<")"; else { o<<"(/ "<<mm<<".0 "<<std::ldexp(1.0,-e)<<")"; }
    return d<0? "(- "+o.str()+")" : o.str(); }
  SymReal(double d){ *this = mk(rat(d), d, true); }
  SymReal(int i) : SymReal(double(i)) {}
  SymReal(long i) : SymReal(double(i)) {}
  SymReal(unsigned long i) : SymReal(double(i)) {}
  std::string s() const { return "n"+std::to_string(id); }
  explicit operator double() const { return sh; }
};
static SymReal bin(char op, const SymReal& a, const SymReal& b, double sh){ SymReal r; r.id=mknode(op,a.id,b.id,""); r.sh=sh; r.cst=a.cst&&b.cst; return r; }
SymReal operator+(const SymReal&a,const SymReal&b){return bin('+',a,b,a.sh+b.sh);} 
SymReal operator-(const SymReal&a,const SymReal&b){return bin('-',a,b,a.sh-b.sh);} 
SymReal operator*(const SymReal&a,const SymReal&b){return bin('*',a,b,a.sh*b.sh);} 
SymReal operator/(const SymReal&a,const SymReal&b){return bin('/',a,b,a.sh/b.sh);} 
SymReal operator-(const SymReal&a){ SymReal r; r.id=mknode('~',a.id,0,""); r.sh=-a.sh; r.cst=a.cst; return r;} 
SymReal operator+(const SymReal&a){ return a; }
SymReal& operator+=(SymReal&a,const SymReal&b){a=a+b;return a;}
SymReal& operator-=(SymReal&a,const SymReal&b){a=a-b;return a;}
SymReal& operator*=(SymReal&a,const SymReal&b){a=a*b;return a;}
SymReal& operator/=(SymReal&a,const SymReal&b){a=a/b;return a;}
static bool cmp(const SymReal&a,const SymReal&b,const char* w,bool r){ if(!(a.cst&&b.cst)){ nbranch++; } return r; }
bool operator<(const SymReal&a,const SymReal&b){ return cmp(a,b,"<",a.sh<b.sh); }
bool operator>(const SymReal&a,const SymReal&b){ return cmp(a,b,">",a.sh>b.sh); }
bool operator<=(const SymReal&a,const SymReal&b){ return cmp(a,b,"<=",a.sh<=b.sh); }
bool operator>=(const SymReal&a,const SymReal&b){ return cmp(a,b,">=",a.sh>=b.sh); }
bool operator==(const SymReal&a,const SymReal&b){ return cmp(a,b,"==",a.sh==b.sh); }
bool operator!=(const SymReal&a,const SymReal&b){ return cmp(a,b,"!=",a.sh!=b.sh); }
std::ostream& operator<<(std::ostream& o, const SymReal& a){ return o<<a.s(); }
std::istream& operator>>(std::istream& i, SymReal& a){ double d; i>>d; a=SymReal(d); return i; }
// emit all nodes reachable from roots, in id order (ids are topologically ordered)
static void emit(std::ostream& o, const std::vector<int>& roots){ std::vector<char> need(nodes().size(),0); for(int r:roots) need[r]=1; for(int i=(int)nodes().size()-1;i>=0;--i) if(need[i]){ const Node&n=nodes()[i]; if(n.op!='L'){ need[n.a]=1; if(n.op!='~') need[n.b]=1; } }
  size_t cnt=0; for(size_t i=0;i<nodes().size();++i) if(need[i]){ const Node&n=nodes()[i]; ++cnt; if(n.op=='L'){ if(n.leaf[0]=='x'||n.leaf[0]=='y') o<<"(define-fun n"<<i<<" () Real "<<n.leaf<<")\n"; else o<<"(define-fun n"<<i<<" () Real "<<n.leaf<<")\n"; } else if(n.op=='~') o<<"(define-fun n"<<i<<" () Real (- n"<<n.a<<"))\n"; else o<<"(define-fun n"<<i<<" () Real ("<<n.op<<" n"<<n.a<<" n"<<n.b<<"))\n"; }
  std::cerr<<"emitted "<<cnt<<" of "<<nodes().size()<<" nodes\n"; }
#include <kernel/base_header.hpp>
#include <kernel/util/type_traits.hpp>
namespace FEAT { namespace Type { template<> struct Traits<SymReal> {
  static constexpr bool is_int=false, is_float=true, is_bool=false, is_signed=true; typedef FloatingClass TypeClass;
  static String name(){return "SymReal";} static uint64_t feature_hash(){return 0;} }; } }
#include <kernel/util/math.hpp>
namespace FEAT { namespace Math { template<> inline SymReal eps<SymReal>() { return SymReal(2.220446049250313e-16); }
 template<> inline bool isfinite<SymReal>(SymReal) { return true; } template<> inline bool isnan<SymReal>(SymReal){return false;} template<> inline bool isnormal<SymReal>(SymReal x){return std::isnormal(x.sh);} } }
#include <kernel/geometry/conformal_mesh.hpp>
#include <kernel/trafo/standard/mapping.hpp>
#include <kernel/space/lagrange1/element.hpp>
#include <kernel/space/lagrange2/element.hpp>
#include <kernel/cubature/dynamic_factory.hpp>
#include <kernel/assembly/common_operators.hpp>
#include <kernel/assembly/bilinear_operator_assembler.hpp>
#include <kernel/assembly/symbolic_assembler.hpp>
#include <kernel/assembly/grid_transfer.hpp>
#include <kernel/lafem/sparse_matrix_csr.hpp>
using namespace FEAT;


template<typename ShapeT, template<class> class Elem>
void run(const char* cub){
  typedef Geometry::ConformalMesh<ShapeT,2,SymReal> Mesh;
  constexpr int nv = Shape::FaceTraits<ShapeT,0>::count;
  Index ne[3]={Index(nv),Index(nv),1}; Mesh mesh(ne);
  auto& vs = mesh.get_vertex_set();
  double sv3[3][2]={{0,0},{1,0.25},{0.5,1}}; double sv4[4][2]={{0,0},{1,0.25},{0.125,1},{1.25,1.5}};
  for(int i=0;i<nv;i++) for(int j=0;j<2;j++){ std::string n=std::string(j?"y":"x")+std::to_string(i); vs[Index(i)][j]=SymReal::mk(n, nv==3?sv3[i][j]:sv4[i][j], false); std::cout<<"(declare-const "<<n<<" Real)\n"; }
  auto& ve = mesh.template get_index_set<1,0>(); auto& vc = mesh.template get_index_set<2,0>(); auto& ec = mesh.template get_index_set<2,1>();
  if(nv==3){ ve(0,0)=1; ve(0,1)=2; ve(1,0)=2; ve(1,1)=0; ve(2,0)=0; ve(2,1)=1; }
  else { ve(0,0)=0; ve(0,1)=1; ve(1,0)=2; ve(1,1)=3; ve(2,0)=0; ve(2,1)=2; ve(3,0)=1; ve(3,1)=3; }
  for(int i=0;i<nv;i++){ vc(0,i)=Index(i); ec(0,i)=Index(i);} 
  Geometry::StandardRefinery<Mesh> refinery(mesh);
  Mesh fine(refinery);
  typedef Trafo::Standard::Mapping<Mesh> TrafoT; TrafoT trafo_c(mesh), trafo_f(fine);
  typedef Elem<TrafoT> SpaceT; SpaceT space_c(trafo_c), space_f(trafo_f);
  LAFEM::SparseMatrixCSR<SymReal, Index> prol; Assembly::SymbolicAssembler::assemble_matrix_2lvl(prol, space_f, space_c);
  prol.format(SymReal(0.0));
  Cubature::DynamicFactory cf(cub);
  Assembly::GridTransfer::assemble_prolongation_direct(prol, space_f, space_c, cf);
  std::cerr<<"P is "<<prol.rows()<<"x"<<prol.columns()<<" nnz="<<prol.used_elements()<<" nodes="<<nodes().size()<<" branches="<<nbranch<<"\n";
  { std::vector<int> roots; for(Index i=0;i<prol.used_elements();++i) roots.push_back(prol.val()[i].id); emit(std::cout, roots); }
  if(nv==3) std::cout<<"(assert (> (- (* (- x1 x0) (- y2 y0)) (* (- x2 x0) (- y1 y0))) 0.0))\n";
  else std::cout<<"(assert (and (> (- (* (- x1 x0) (- y2 y0)) (* (- x2 x0) (- y1 y0))) 0.0) (> (- (* (- x3 x1) (- y0 y1)) (* (- x0 x1) (- y3 y1))) 0.0) (> (- (* (- x2 x3) (- y1 y3)) (* (- x1 x3) (- y2 y3))) 0.0) (> (- (* (- x0 x2) (- y3 y2)) (* (- x3 x2) (- y0 y2))) 0.0)))\n";
  // identity: every row of P sums to 1 (constants are reproduced)
  const Index* rp=prol.row_ptr();
  for(Index i=0;i<prol.used_elements();++i) std::cout<<"(define-fun P"<<i<<" () Real "<<prol.val()[i].s()<<")\n";
  std::cout<<"(assert (or";
  for(Index r=0;r<prol.rows();++r){ std::cout<<" (not (= 1.0 (+ 0.0"; for(Index k=rp[r];k<rp[r+1];++k) std::cout<<" P"<<k; std::cout<<")))"; }
  std::cout<<"))\n(check-sat)\n";
  for(Index r=0;r<prol.rows();++r){ std::cerr<<"row "<<r<<":"; for(Index k=rp[r];k<rp[r+1];++k) std::cerr<<" ("<<prol.col_ind()[k]<<":"<<prol.val()[k].sh<<")"; std::cerr<<"\n"; }
}
int main(int argc, char** argv){
  int w=atoi(argv[1]);
  if(w==0) run<Shape::Simplex<2>, Space::Lagrange1::Element>("auto-degree:3");
  if(w==1) run<Shape::Simplex<2>, Space::Lagrange2::Element>("auto-degree:5");
  if(w==2) run<Shape::Hypercube<2>, Space::Lagrange1::Element>("gauss-legendre:3");
}
