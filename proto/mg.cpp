#include <kernel/base_header.hpp>
#include <kernel/solver/multigrid.hpp>
#include <kernel/solver/iterative.hpp>
using namespace FEAT;
static int ev_n=0; static int ev_op[256], ev_lv[256];
static void ev(int op,int lv){ if(ev_n<256){ev_op[ev_n]=op; ev_lv[ev_n]=lv; ++ev_n;} }
struct MV { typedef long DataType; long v; int lvl;
  void clear(){} void format(long x=0){v=x;} void copy(const MV&o){v=o.v;} void axpy(const MV&x,long a=1){v+=a*x.v;} long dot(const MV&o)const{return v*o.v;} long norm2()const{return v<0?-v:v;} MV clone() const {return *this;} };
struct MM { typedef long DataType; typedef MV VectorTypeR; typedef MV VectorTypeL; long a; int lvl;
  MV create_vector_r() const { MV x; x.v=0; x.lvl=lvl; return x; } MV create_vector_l() const { return create_vector_r(); }
  void apply(MV& r,const MV& x,const MV& y,long alpha=1) const { ev(1,lvl); r.v=y.v+alpha*a*x.v; } void apply(MV& r,const MV& x) const { ev(1,lvl); r.v=a*x.v; } };
struct MF { typedef MV VectorType; void filter_def(MV&)const{} void filter_cor(MV&)const{} void filter_rhs(MV&)const{} void filter_sol(MV&)const{} };
struct MT { long p,r; int lvl; bool is_ghost() const {return false;} 
  bool prol(MV& f,const MV& c) const { ev(2,lvl); f.v=p*c.v; return true;} bool rest(const MV& f, MV& c) const { ev(3,lvl); c.v=r*f.v; return true;}
  void rest_send(const MV&) const {} void prol_recv(MV&) const {} bool prol_cancel() const {return true;} void cancel() const {} };
struct MS : public Solver::SolverBase<MV> { long s; int kind, lvl; MS(long s_,int k,int l):s(s_),kind(k),lvl(l){}
  virtual String name() const override { return "mock"; }
  virtual Solver::Status apply(MV& cor,const MV& def) override { ev(10+kind,lvl); cor.v=s*def.v; return Solver::Status::success; } };
extern "C" long w_mg(int nlev, int cycle, long def, const long* a, const long* p, const long* r, const long* spre, const long* spost, const long* speak, const int* have, long scoarse, int* out_n, int* out_op, int* out_lv)
{
  typedef Solver::MultiGridHierarchy<MM,MF,MT> H;
  static MM mats[8]; static MF filt; static MT trans[8];
  auto h = std::make_shared<H>(std::size_t(nlev));
  for(int l=nlev-1;l>=0;--l){ // push coarse first
  }
  for(int l=0;l<nlev;++l){ mats[l].a=a[l]; mats[l].lvl=l; trans[l].p=p[l]; trans[l].r=r[l]; trans[l].lvl=l;
    if(l==nlev-1) h->push_level(mats[l], filt, std::make_shared<MS>(scoarse,0,l));
    else h->push_level(mats[l], filt, trans[l], (have[l]&1)?std::make_shared<MS>(spre[l],1,l):nullptr, (have[l]&2)?std::make_shared<MS>(spost[l],2,l):nullptr, (have[l]&4)?std::make_shared<MS>(speak[l],3,l):nullptr);
  }
  auto mg = Solver::new_multigrid(h, (Solver::MultiGridCycle)cycle);
  h->init(); mg->init();
  MV vd; vd.v=def; vd.lvl=0; MV vc=vd; vc.v=0; ev_n=0;
  mg->apply(vc, vd);
  *out_n=ev_n; for(int i=0;i<ev_n;++i){out_op[i]=ev_op[i]; out_lv[i]=ev_lv[i];}
  mg->done(); h->done();
  return vc.v;
}
int main(){ long a[4]={1,1,1,1},p[4]={1,1,1,1},r[4]={1,1,1,1},s[4]={1,1,1,1}; int have[4]={7,7,7,7}; int n,op[256],lv[256]; long v=w_mg(3,2,5,a,p,r,s,s,s,have,1,&n,op,lv); printf("ret=%ld n=%d\n",v,n); for(int i=0;i<n;i++) printf("(%d,%d) ",op[i],lv[i]); printf("\n"); }
