#include <math.h>
#include <string.h>
#include <assert.h>
typedef unsigned long Index;
#ifndef DT
#define DT float
#endif
typedef unsigned IT;
void w_csr_apply_f(char* r, float a, char* x, float b, char* y, char* val, char* col_ind, char* row_ptr, unsigned long rows, unsigned long cols, unsigned long nnz, _Bool t);
#define MAXR 3
#define MAXC 3
#define MAXNZ 4
int nondet_int(void); unsigned nondet_uint(void); _Bool nondet_bool(void);
static DT small(void){ int v=nondet_int(); __CPROVER_assume(v>=-VR && v<=VR); return (DT)v; }
int main(void){
  Index rows=3, cols=3;
  IT row_ptr[MAXR+1]; IT col_ind[MAXNZ]; DT val[MAXNZ], x[MAXC>MAXR?MAXC:MAXR], y[MAXC>MAXR?MAXC:MAXR], r[MAXC>MAXR?MAXC:MAXR];
  int ival[MAXNZ], ix[3], iy[3];
  row_ptr[0]=0; row_ptr[1]=RP1; row_ptr[2]=RP2; row_ptr[3]=RP3;
  Index nnz=row_ptr[rows];
  for(int i=0;i<MAXNZ;i++){ col_ind[i]=nondet_uint(); __CPROVER_assume(col_ind[i]<cols || i>=nnz); ival[i]=nondet_int(); __CPROVER_assume(ival[i]>=-VR&&ival[i]<=VR); val[i]=(DT)ival[i]; }
  for(int i=0;i<3;i++){ ix[i]=nondet_int(); __CPROVER_assume(ix[i]>=-VR&&ix[i]<=VR); x[i]=(DT)ix[i]; iy[i]=nondet_int(); __CPROVER_assume(iy[i]>=-VR&&iy[i]<=VR); y[i]=(DT)iy[i]; r[i]=(DT)nondet_int(); }
  int ia=nondet_int(); __CPROVER_assume(ia>=-VR&&ia<=VR && ia!=0); DT a=(DT)ia;
  _Bool t=TT;
  _Bool alias=AL;
  DT *yy = alias? r : y; if(alias) for(int i=0;i<3;i++) r[i]=y[i];
  w_csr_apply_f((char*)r,a,(char*)x,(DT)1,(char*)yy,(char*)val,(char*)col_ind,(char*)row_ptr,rows,cols,nnz,t);
  // oracle in integers
  Index n = t?cols:rows;
  for(Index i=0;i<3;i++) if(i<n){
    long s=0;
    for(Index rr=0; rr<rows; rr++) for(Index k=row_ptr[rr]; k<row_ptr[rr+1]; k++){
      if(!t && rr==i) s += (long)ival[k]*ix[col_ind[k]];
      if(t && col_ind[k]==i) s += (long)ival[k]*ix[rr];
    }
    long e = iy[i] + ia*s;
#ifdef WITNESS
    assert(0);
#endif
    assert(r[i]==(DT)e);
  }
  return 0;
}
