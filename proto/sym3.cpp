// probe: one-cell Laplace assembly with a symbolic scalar type
#include <string>
#include <vector>
#include <sstream>
#include <iostream>
#include <cstdio>
#include <cstdlib>
#include <cmath>
struct SymReal;
static std::vector<std::string>& terms(){ static std::vector<std::string> t; return t; }
struct SymReal {
  int id; double sh; bool cst;
  SymReal() = default;
  static SymReal mk(const std::string& s, double sh, bool c){ SymReal r; r.id=(int)terms().size(); terms().push_back(s); r.sh=sh; r.cst=c; return r; }
  static std::string rat(double d){ if(d==0) return "0.0"; int e; double m=std::frexp(std::fabs(d),&e); long long mm=(long long)std::ldexp(m,53); e-=53; while((mm&1)==0){mm>>=1;e++;}
    std::ostringstream o; o.precision(1); o<<std::fixed; if(e>=0) o<<"(* "<<mm<<".0 "<<std::ldexp(1.0,e)<<")"; else { o<<"(/ "<<mm<<".0 "<<std::ldexp(1.0,-e)<<")"; }
    return d<0? "(- "+o.str()+")" : o.str(); }
  SymReal(double d){ *this = mk(rat(d), d, true); }
  SymReal(int i) : SymReal(double(i)) {}
  SymReal(long i) : SymReal(double(i)) {}
  SymReal(unsigned long i) : SymReal(double(i)) {}
  const std::string& s() const { return terms()[id]; }
  explicit operator double() const { return sh; }
};
static SymReal bin(const char* op, const SymReal& a, const SymReal& b, double sh){ if(a.cst&&b.cst){ SymReal r=SymReal::mk("(" + std::string(op) + " " + a.s() + " " + b.s() + ")", sh, true); return r;} return SymReal::mk("(" + std::string(op) + " " + a.s() + " " + b.s() + ")", sh, false); }
SymReal operator+(const SymReal&a,const SymReal&b){return bin("+",a,b,a.sh+b.sh);} 
SymReal operator-(const SymReal&a,const SymReal&b){return bin("-",a,b,a.sh-b.sh);} 
SymReal operator*(const SymReal&a,const SymReal&b){return bin("*",a,b,a.sh*b.sh);} 
SymReal operator/(const SymReal&a,const SymReal&b){return bin("/",a,b,a.sh/b.sh);} 
SymReal operator-(const SymReal&a){ return SymReal::mk("(- "+a.s()+")",-a.sh,a.cst);} 
SymReal operator+(const SymReal&a){ return a; }
SymReal& operator+=(SymReal&a,const SymReal&b){a=a+b;return a;}
SymReal& operator-=(SymReal&a,const SymReal&b){a=a-b;return a;}
SymReal& operator*=(SymReal&a,const SymReal&b){a=a*b;return a;}
SymReal& operator/=(SymReal&a,const SymReal&b){a=a/b;return a;}
static bool cmp(const SymReal&a,const SymReal&b,const char* w,bool r){ if(!(a.cst&&b.cst)){ fprintf(stderr,"BRANCH on symbolic value (%s)\n",w); } return r; }
bool operator<(const SymReal&a,const SymReal&b){ return cmp(a,b,"<",a.sh<b.sh); }
bool operator>(const SymReal&a,const SymReal&b){ return cmp(a,b,">",a.sh>b.sh); }
bool operator<=(const SymReal&a,const SymReal&b){ return cmp(a,b,"<=",a.sh<=b.sh); }
bool operator>=(const SymReal&a,const SymReal&b){ return cmp(a,b,">=",a.sh>=b.sh); }
bool operator==(const SymReal&a,const SymReal&b){ return cmp(a,b,"==",a.sh==b.sh); }
bool operator!=(const SymReal&a,const SymReal&b){ return cmp(a,b,"!=",a.sh!=b.sh); }
std::ostream& operator<<(std::ostream& o, const SymReal& a){ return o<<a.s(); }
std::istream& operator>>(std::istream& i, SymReal& a){ double d; i>>d; a=SymReal(d); return i; }

#include <kernel/base_header.hpp>
#include <kernel/util/type_traits.hpp>
namespace FEAT { namespace Type { template<> struct Traits<SymReal> {
  static constexpr bool is_int=false, is_float=true, is_bool=false, is_signed=true; typedef FloatingClass TypeClass;
  static String name(){return "SymReal";} static uint64_t feature_hash(){return 0;} }; } }
#include <kernel/util/math.hpp>
namespace FEAT { namespace Math { template<> inline SymReal eps<SymReal>() { return SymReal(2.220446049250313e-16); }
 template<> inline bool isfinite<SymReal>(SymReal) { return true; } template<> inline bool isnan<SymReal>(SymReal){return false;} } }
#include <kernel/geometry/conformal_mesh.hpp>
#include <kernel/trafo/standard/mapping.hpp>
#include <kernel/space/lagrange1/element.hpp>
#include <kernel/space/lagrange2/element.hpp>
#include <kernel/cubature/dynamic_factory.hpp>
#include <kernel/assembly/common_operators.hpp>
#include <kernel/assembly/bilinear_operator_assembler.hpp>
#include <kernel/assembly/symbolic_assembler.hpp>
#include <kernel/lafem/sparse_matrix_csr.hpp>
using namespace FEAT;

template<typename ShapeT, template<class> class Elem>
void run(const char* cub, bool mass){
  typedef Geometry::ConformalMesh<ShapeT,2,SymReal> Mesh;
  constexpr int nv = Shape::FaceTraits<ShapeT,0>::count;
  Index ne[3]={Index(nv),Index(nv),1}; Mesh mesh(ne);
  auto& vs = mesh.get_vertex_set();
  double sv3[3][2]={{0,0},{1,0.25},{0.5,1}}; double sv4[4][2]={{0,0},{1,0.25},{0.125,1},{1.25,1.5}};
  for(int i=0;i<nv;i++) for(int j=0;j<2;j++){ std::string n=std::string(j?"y":"x")+std::to_string(i); vs[Index(i)][j]=SymReal::mk(n, nv==3?sv3[i][j]:sv4[i][j], false); std::cout<<"(declare-const "<<n<<" Real)\n"; }
  auto& ve = mesh.template get_index_set<1,0>(); auto& vc = mesh.template get_index_set<2,0>(); auto& ec = mesh.template get_index_set<2,1>();
  if(nv==3){ ve(0,0)=1; ve(0,1)=2; ve(1,0)=2; ve(1,1)=0; ve(2,0)=0; ve(2,1)=1; }
  else { ve(0,0)=0; ve(0,1)=1; ve(1,0)=2; ve(1,1)=3; ve(2,0)=0; ve(2,1)=2; ve(3,0)=1; ve(3,1)=3; }
  for(int i=0;i<nv;i++){ vc(0,i)=Index(i); ec(0,i)=Index(i);} 
  typedef Trafo::Standard::Mapping<Mesh> TrafoT; TrafoT trafo(mesh);
  typedef Elem<TrafoT> SpaceT; SpaceT space(trafo);
  LAFEM::SparseMatrixCSR<SymReal, Index> mat; Assembly::SymbolicAssembler::assemble_matrix_std1(mat, space);
  mat.format(SymReal(0.0));
  Cubature::DynamicFactory cf(cub);
  if(mass){ Assembly::Common::IdentityOperator op; Assembly::BilinearOperatorAssembler::assemble_matrix1(mat, op, space, cf);} 
  else { Assembly::Common::LaplaceOperator op; Assembly::BilinearOperatorAssembler::assemble_matrix1(mat, op, space, cf);} 
  Index n=mat.rows();
  for(Index i=0;i<mat.used_elements();++i) std::cout<<"(define-fun K"<<i<<" () Real "<<mat.val()[i].s()<<")\n";
  if(nv==3) std::cout<<"(assert (> (- (* (- x1 x0) (- y2 y0)) (* (- x2 x0) (- y1 y0))) 0.0))\n";
  else std::cout<<"(assert (and (> (- (* (- x1 x0) (- y2 y0)) (* (- x2 x0) (- y1 y0))) 0.0) (> (- (* (- x3 x1) (- y0 y1)) (* (- x0 x1) (- y3 y1))) 0.0) (> (- (* (- x2 x3) (- y1 y3)) (* (- x1 x3) (- y2 y3))) 0.0) (> (- (* (- x0 x2) (- y3 y2)) (* (- x3 x2) (- y0 y2))) 0.0)))\n";
  std::cout<<"(assert (or";
  if(!mass) for(Index i=0;i<n;i++){ std::cout<<" (not (= 0.0 (+"; for(Index j=0;j<n;j++) std::cout<<" K"<<(i*n+j); std::cout<<")))"; }
  for(Index i=0;i<n;i++) for(Index j=i+1;j<n;j++) std::cout<<" (not (= K"<<(i*n+j)<<" K"<<(j*n+i)<<"))";
  std::cout<<"))\n(check-sat)\n";
}
int main(int argc, char** argv){
  int w=atoi(argv[1]);
  if(w==0) run<Shape::Simplex<2>, Space::Lagrange1::Element>("auto-degree:2", false);
  if(w==1) run<Shape::Simplex<2>, Space::Lagrange2::Element>("auto-degree:4", false);
  if(w==2) run<Shape::Hypercube<2>, Space::Lagrange1::Element>("gauss-legendre:2", true);
  if(w==3) run<Shape::Hypercube<2>, Space::Lagrange1::Element>("gauss-legendre:2", false);
  if(w==4) run<Shape::Simplex<2>, Space::Lagrange2::Element>("auto-degree:4", true);
}
