#include <kernel/base_header.hpp>
#include <kernel/lafem/arch/apply.hpp>
using namespace FEAT;
extern "C" __attribute__((noinline)) void w_csr_apply_f(float* r, float a, const float* x, float b, const float* y, const float* val, const unsigned* col_ind, const unsigned* row_ptr, unsigned long rows, unsigned long cols, unsigned long nnz, bool t)
{
  LAFEM::Arch::Apply::csr_generic<float, unsigned>(r, a, x, b, y, val, col_ind, row_ptr, rows, cols, nnz, t);
}
