#!/usr/bin/env python3
# throw-away prototype: LLVM-14 textual IR (typed pointers) -> C, to probe feasibility only
import re, sys

src = open(sys.argv[1]).read()
entry = sys.argv[2].split(',')
STUB_ABORT = ['_ZSt20__throw_length_errorPKc', '_ZSt17__throw_bad_allocv', '_ZN4FEAT7Runtime5abortEb', '__cxa_throw', '_ZSt24__throw_out_of_range_fmtPKcz', '_ZN4FEAT8abortionEPKcS1_iS1_', 'abort', '__cxa_pure_virtual', '_ZSt9terminatev', '__clang_call_terminate']
STUB_NOP = ['_ZN4FEAT7Backend21get_preferred_backendEv', 'fprintf', 'fwrite', 'fflush', '__cxa_atexit', '_ZNSt8ios_base4InitC1Ev', '_ZNSt8ios_base4InitD1Ev']

# ---------------- types
named = {}
for m in re.finditer(r'^(%[\w".:<>,\s\-\*\(\)\[\]&~=]+?) = type (.+)$', src, re.M):
    named[m.group(1).strip()] = m.group(2).strip()

def split_top(s, sep=','):
    out, depth, cur, inq = [], 0, '', False
    for ch in s:
        if ch == '"': inq = not inq
        if not inq:
            if ch in '([{<': depth += 1
            elif ch in ')]}>': depth -= 1
            elif ch == sep and depth == 0:
                out.append(cur.strip()); cur = ''; continue
        cur += ch
    if cur.strip(): out.append(cur.strip())
    return out

class T:
    pass
def parse_type(t):
    t = t.strip()
    # pointer / function-pointer suffixes
    if t.endswith('*'):
        return ('ptr', t[:-1].strip())
    if t.endswith(')') and not t.startswith('{') and '(' in t:  # function type
        return ('func', t)
    if re.fullmatch(r'i\d+', t): return ('int', int(t[1:]))
    if t == 'float': return ('float',)
    if t == 'double': return ('double',)
    if t == 'void': return ('void',)
    if t == 'opaque': return ('opaque',)
    if t.startswith('['):
        m = re.match(r'\[(\d+) x (.*)\]$', t)
        return ('array', int(m.group(1)), m.group(2))
    if t.startswith('<{'):
        return ('struct', split_top(t[2:-2]), True)
    if t.startswith('{'):
        return ('struct', split_top(t[1:-1]), False)
    if t.startswith('%'):
        if t not in named: raise Exception('unknown named type ' + t)
        return parse_type(named[t])
    if t.startswith('<'):
        raise Exception('vector type unsupported ' + t)
    raise Exception('type? ' + t)

def size_align(t):
    p = parse_type(t)
    k = p[0]
    if k == 'ptr' or k == 'func': return 8, 8
    if k == 'int':
        n = p[1]
        b = 1 if n <= 8 else 2 if n <= 16 else 4 if n <= 32 else 8 if n <= 64 else 16
        return b, b
    if k == 'float': return 4, 4
    if k == 'double': return 8, 8
    if k == 'array':
        s, a = size_align(p[2]); return s * p[1], a
    if k == 'struct':
        off, al = 0, 1
        for f in p[1]:
            s, a = size_align(f)
            if p[2]: a = 1
            off = (off + a - 1) // a * a + s; al = max(al, a)
        return (off + al - 1) // al * al, al
    if k == 'opaque': return 0, 1
    raise Exception('size? ' + t)

def field_offset(t, idx):
    p = parse_type(t)
    off = 0
    for i, f in enumerate(p[1]):
        s, a = size_align(f)
        if p[2]: a = 1
        off = (off + a - 1) // a * a
        if i == idx: return off, f
        off += s
    raise Exception('field idx')

struct_names = {}
struct_defs = []
def struct_name(t):
    t=t.strip()
    key = t
    if key in struct_names: return struct_names[key]
    nm = 'S%d' % len(struct_names)
    struct_names[key] = nm
    p = parse_type(t)
    fields = []
    for i, f in enumerate(p[1]):
        fields.append('%s;' % cdecl(f, 'f%d' % i))
    packed = ' __attribute__((packed))' if p[2] else ''
    struct_defs.append((nm, 'struct %s { %s }%s;' % (nm, ' '.join(fields) if fields else 'char dummy_;', packed)))
    return nm

def ctype(t):
    t=t.strip()
    p = parse_type(t)
    k = p[0]
    if k == 'func': return 'void'
    if k == 'ptr':
        inner = p[1]
        ip = parse_type(inner) if not inner.endswith(')') or inner.startswith('{') else ('func',)
        if ip[0] in ('func', 'opaque', 'void'): return 'char*'
        if ip[0] == 'array':
            return ctype(inner) + '*'
        return ctype(inner) + '*'
    if k == 'int':
        n = p[1]
        if n == 1: return '_Bool'
        return 'uint%d_t' % (8 if n <= 8 else 16 if n <= 16 else 32 if n <= 32 else 64)
    if k == 'float': return 'float'
    if k == 'double': return 'double'
    if k == 'void': return 'void'
    if k == 'struct': return 'struct ' + struct_name(t if not t.startswith('%') else t)
    if k == 'array': return 'struct ' + array_wrap(t)
    if k == 'opaque': return 'char'
    raise Exception('ctype ' + t)
array_names = {}
def array_wrap(t):
    if t in array_names: return array_names[t]
    p = parse_type(t); nm = 'A%d' % len(array_names); array_names[t] = nm
    struct_defs.append((nm, 'struct %s { %s a[%d]; };' % (nm, ctype(p[2]), max(p[1],1))))
    return nm
def cdecl(t, name):
    return '%s %s' % (ctype(t), name)
def is_int(t): return parse_type(t)[0] == 'int'
def bits(t): return parse_type(t)[1]
def sctype(t):
    n = bits(t)
    return 'int%d_t' % (8 if n <= 8 else 16 if n <= 16 else 32 if n <= 32 else 64)

# ---------------- functions
funcs = {}
for m in re.finditer(r'^define [^@]*?(\S+(?:\s*\*)*|\S+) @([\w.$"]+)\((.*?)\)[^{\n]*\{\n(.*?)^\}', src, re.M | re.S):
    pass
fre = re.compile(r'^define (.*?)@("[^"]+"|[\w.$]+)\((.*?)\)([^\n]*)\{\n(.*?)\n\}', re.M | re.S)
decl_re = re.compile(r'^declare (.*?)@("[^"]+"|[\w.$]+)\((.*?)\)', re.M)

ATTRS = r'\b(noundef|nonnull|zeroext|signext|noalias|nocapture|readonly|readnone|writeonly|returned|inreg|immarg|nofree|dso_local|linkonce_odr|weak_odr|internal|hidden|local_unnamed_addr|unnamed_addr|mustprogress|noinline|uwtable|nest|swiftself)\b|align \d+|dereferenceable(_or_null)?\(\d+\)|sret\([^)]*\)|byval\([^)]*\)|#\d+|comdat(\([^)]*\))?'
def strip_attrs(s):
    return re.sub(r'\s+', ' ', re.sub(ATTRS, '', s)).strip()

def parse_params(ps):
    out = []
    for p in split_top(ps):
        if p == '...': continue
        sret = 'sret(' in p
        p2 = strip_attrs(p)
        m = re.match(r'(.*?)\s*(%[\w.]+)?$', p2)
        ty = m.group(1).strip(); name = m.group(2)
        out.append((ty, name))
    return out

def balanced(s, i):
    # s[i]=='(' -> return index of matching ')'
    d=0; inq=False
    for j in range(i, len(s)):
        c=s[j]
        if c=='"': inq=not inq
        if inq: continue
        if c=='(': d+=1
        elif c==')':
            d-=1
            if d==0: return j
    raise Exception('unbalanced')
for m in re.finditer(r'^define (.*?)@("[^"]+"|[\w.$]+)\(', src, re.M):
    ret = strip_attrs(m.group(1)); name = m.group(2).strip('"')
    i = m.end()-1; j = balanced(src, i)
    k = src.index('{\n', j); e = src.index('\n}\n', k)
    funcs[name] = dict(ret=ret, params=parse_params(src[i+1:j]), body=src[k+2:e])

aliases = {}
for m in re.finditer(r'^@(\S+) = .*?alias .*@(\S+)$', src, re.M): aliases[m.group(1)] = m.group(2)

def cname(n):
    return re.sub(r'[^A-Za-z0-9_]', '_', n.strip('"'))

# ---------------- globals (only constant strings / zeroinit / simple) -> emit as byte arrays
globs = {}
for m in re.finditer(r'^(@[\w.$"]+) = (?:[a-z_]+ )*(?:global|constant) (.+)$', src, re.M):
    globs[m.group(1)] = m.group(2)

out = []
emit = out.append
emit('#include <stdint.h>\n#include <stdlib.h>\n#include <string.h>\nvoid __CPROVER_assume(_Bool); void __CPROVER_assert(_Bool,const char*);\n')
emit('static void verif_abort(void){ __CPROVER_assert(0,"abort/throw reached"); __CPROVER_assume(0); }\n')

def val(tok, ty, fn):
    tok = tok.strip()
    if tok.startswith('%'): return fn['names'].get(tok, 'v_' + cname(tok[1:]))
    if tok in ('null', 'zeroinitializer'): return '0' if not parse_type(ty)[0] in ('ptr',) else '((%s)0)' % ctype(ty)
    if tok in ('undef', 'poison'): return '0'
    if tok == 'true': return '1'
    if tok == 'false': return '0'
    if tok.startswith('@'):
        return '((%s)%s)' % (ctype(ty) if parse_type(ty)[0]=='ptr' else 'char*', 'g_' + cname(tok[1:]) if tok in globs else '&' + cname(tok[1:]))
    if re.fullmatch(r'-?\d+', tok):
        if is_int(ty):
            n = bits(ty); v = int(tok) & ((1 << n) - 1)
            return '((%s)%dULL)' % (ctype(ty), v)
        return tok
    if tok.startswith('0x'):
        # double hex
        import struct
        h = int(tok[2:], 16)
        d = struct.unpack('>d', h.to_bytes(8, 'big'))[0]
        return '%r' % d if parse_type(ty)[0] == 'double' else '%rf' % d
    if re.fullmatch(r'-?\d+\.\d+e[+-]\d+', tok): return tok + ('f' if parse_type(ty)[0] == 'float' else '')
    m = re.match(r'getelementptr inbounds \((.*)\)$', tok) or re.match(r'getelementptr \((.*)\)$', tok)
    if m:
        parts = split_top(m.group(1))
        base_ty = parts[0]
        pty, pv = split_tv(parts[1])
        return '((char*)%s)' % gep_expr(base_ty, val(pv, pty, fn), [split_tv(p.replace('inrange ','')) for p in parts[2:]], fn)[0]
    m = re.match(r'bitcast \((.*) to (.*)\)$', tok)
    if m:
        a = m.group(1); ty1, v1 = split_tv(a)
        return val(v1, ty1, fn)
    raise Exception('val? ' + tok)

def gep_expr(base_ty, base, idxs, fn):
    # base has C type ctype(base_ty)*
    cur = base_ty; first = True
    expr = '((%s*)%s)' % (ctype(base_ty), base)
    for ity, iv in idxs:
        ity = strip_attrs(ity)
        if first:
            expr = '(%s + (int64_t)(%s)(%s))' % (expr, sctype(ity), val(iv, ity, fn)); first = False
            acc = '(*%s)' % expr
        else:
            p = parse_type(cur)
            if p[0] == 'struct':
                acc = '%s.f%d' % (acc, int(iv)); cur = p[1][int(iv)]
            elif p[0] == 'array':
                acc = '%s.a[(int64_t)(%s)(%s)]' % (acc, sctype(ity), val(iv, ity, fn)); cur = p[2]
            else: raise Exception('gep into ' + cur)
    if first: return expr
    return '(&%s)' % acc, cur
def split_tv(s):
    """split 'TYPE VALUE' where VALUE may be a constant expression"""
    s=s.strip(); i=0; n=len(s)
    def skip_bal(i, o, c):
        d=0
        while i<n:
            if s[i]==o: d+=1
            elif s[i]==c:
                d-=1
                if d==0: return i+1
            i+=1
        raise Exception('unbalanced type in '+s)
    if s[i]=='%':
        if s[i+1]=='"':
            i=s.index('"', i+2)+1
        else:
            m=re.match(r'%[\w.$-]+', s[i:]); i+=m.end()
    elif s[i]=='{': i=skip_bal(i,'{','}')
    elif s[i]=='[': i=skip_bal(i,'[',']')
    elif s[i]=='<': i=skip_bal(i,'<','>')
    else:
        m=re.match(r'(i\d+|float|double|void|half|x86_fp80|fp128|ptr|label|metadata)', s[i:]); i+=m.end()
    while True:
        j=i
        while j<n and s[j]==' ': j+=1
        if j<n and s[j]=='*': i=j+1; continue
        if j<n and s[j]=='(':  # function type
            i=skip_bal(j,'(',')'); continue
        break
    return s[:i].strip(), s[i:].strip()

ICMP = {'eq': ('==', 0), 'ne': ('!=', 0), 'ult': ('<', 0), 'ule': ('<=', 0), 'ugt': ('>', 0), 'uge': ('>=', 0), 'slt': ('<', 1), 'sle': ('<=', 1), 'sgt': ('>', 1), 'sge': ('>=', 1)}
FCMP = {'oeq': '==', 'one': '!=', 'olt': '<', 'ole': '<=', 'ogt': '>', 'oge': '>=', 'une': '!=', 'ueq': '=='}
BIN = {'add': '+', 'sub': '-', 'mul': '*', 'and': '&', 'or': '|', 'xor': '^', 'shl': '<<', 'lshr': '>>', 'udiv': '/', 'urem': '%'}

needed = set(); done = set(); work = list(entry)
protos = []; bodies = []
while work:
    fname = work.pop()
    if fname in done: continue
    done.add(fname)
    if fname not in funcs: continue
    f = funcs[fname]
    fn = {'names': {}}
    decls = []
    def newvar(ssa, ty):
        c = 'v_' + cname(ssa[1:])
        fn['names'][ssa] = c
        try: decls.append('%s %s;' % (ctype(ty), c))
        except Exception: decls.append('uint64_t %s; /* aggregate %s */' % (c, ty))
        return c
    params = []
    for i, (ty, nm) in enumerate(f['params']):
        nm = nm or '%' + str(i)
        c = 'v_' + cname(nm[1:]); fn['names'][nm] = c
        params.append('%s %s' % (ctype(ty), c))
    # split blocks
    lines = []
    for ln_ in f['body'].split('\n'):
        if lines and lines[-1].lstrip().startswith(('switch',)) and ']' not in lines[-1]: lines[-1] += ' ' + ln_.strip()
        elif lines and re.match(r'^\s+to label', ln_): lines.append(ln_)
        else: lines.append(ln_)
    blocks = []; cur = None
    nparams = len(f['params'])
    first_label = str(nparams) if all(p[1] is None or re.fullmatch(r'%\d+', p[1]) for p in f['params']) else 'entry'
    cur = [first_label, []]; blocks.append(cur)
    for ln in lines:
        ln = ln.split(' ; preds')[0].rstrip() if re.match(r'^[\w.]+:', ln) else ln
        m = re.match(r'^([\w.$-]+):', ln)
        if m:
            cur = [m.group(1), []]; blocks.append(cur); continue
        ln = ln.strip()
        if not ln or ln.startswith(';'): continue
        ln = re.sub(r', !\w+ !\d+', '', ln); ln = re.sub(r',? ?!\w+(\.\w+)* !\d+', '', ln)
        cur[1].append(ln)
    # first pass: result types
    body = []
    phis = {}  # block -> list of (dest, ty, [(val, pred)])
    def lab(l): return 'L_' + cname(l)
    code = []
    for bl, ins in blocks:
        code.append('%s: ;' % lab(bl))
        for ln in ins:
            m = re.match(r'(%[\w.]+) = (.*)$', ln)
            dest, rhs = (m.group(1), m.group(2)) if m else (None, ln)
            op = rhs.split(' ', 1)[0]
            rest = rhs[len(op):].strip()
            if op == 'phi':
                mm = re.match(r'(.*?) (\[.*)$', rest); ty = mm.group(1)
                inc = re.findall(r'\[ (.*?), %([\w.$-]+) \]', mm.group(2))
                d = newvar(dest, ty); phis.setdefault(bl, []).append((d, ty, inc)); continue
            if op in BIN or op in ('sdiv', 'srem', 'ashr'):
                rest2 = re.sub(r'\b(nuw|nsw|exact)\b ?', '', rest)
                ty, ab = rest2.split(' ', 1); a, b = split_top(ab)
                d = newvar(dest, ty); n = bits(ty); ct = ctype(ty)
                if op in ('sdiv', 'srem'):
                    code.append('%s = (%s)((%s)%s %s (%s)%s);' % (d, ct, sctype(ty), val(a, ty, fn), '/' if op == 'sdiv' else '%', sctype(ty), val(b, ty, fn)))
                elif op == 'ashr':
                    code.append('%s = (%s)((%s)%s >> %s);' % (d, ct, sctype(ty), val(a, ty, fn), val(b, ty, fn)))
                elif op == 'sub' and a.strip() in fn.get('p2i', {}) and b.strip() in fn.get('p2i', {}):
                    code.append('%s = (%s)((char*)%s - (char*)%s);' % (d, ct, fn['p2i'][a.strip()], fn['p2i'][b.strip()]))
                else:
                    code.append('%s = (%s)(%s %s %s);' % (d, ct, val(a, ty, fn), BIN[op], val(b, ty, fn)))
                continue
            if op in ('fadd', 'fsub', 'fmul', 'fdiv'):
                rest2 = re.sub(r'\b(fast|nnan|ninf|nsz|arcp|contract|afn|reassoc)\b ?', '', rest)
                ty, ab = rest2.split(' ', 1); a, b = split_top(ab); d = newvar(dest, ty)
                code.append('%s = %s %s %s;' % (d, val(a, ty, fn), {'fadd': '+', 'fsub': '-', 'fmul': '*', 'fdiv': '/'}[op], val(b, ty, fn))); continue
            if op == 'fneg':
                ty, a = rest.split(' ', 1); d = newvar(dest, ty); code.append('%s = -%s;' % (d, val(a, ty, fn))); continue
            if op == 'icmp':
                pred, rest2 = rest.split(' ', 1); ty, ab = rest2.rsplit(' ', 2)[0], None
                mm = re.match(r'(.*?) ([^ ,]+), (.+)$', rest2); ty, a, b = mm.group(1), mm.group(2), mm.group(3)
                d = newvar(dest, 'i1'); o, sg = ICMP[pred]
                if parse_type(ty)[0] == 'ptr':
                    code.append('%s = (%s %s %s);' % (d, val(a, ty, fn), o, val(b, ty, fn)))
                elif sg: code.append('%s = ((%s)%s %s (%s)%s);' % (d, sctype(ty), val(a, ty, fn), o, sctype(ty), val(b, ty, fn)))
                else: code.append('%s = (%s %s %s);' % (d, val(a, ty, fn), o, val(b, ty, fn)))
                continue
            if op == 'fcmp':
                rest2 = re.sub(r'\b(fast|nnan|ninf|nsz)\b ?', '', rest)
                pred, rest3 = rest2.split(' ', 1); mm = re.match(r'(.*?) ([^ ,]+), (.+)$', rest3); ty, a, b = mm.groups()
                d = newvar(dest, 'i1'); code.append('%s = (%s %s %s);' % (d, val(a, ty, fn), FCMP[pred], val(b, ty, fn))); continue
            if op in ('zext', 'trunc', 'bitcast', 'ptrtoint', 'inttoptr', 'sext', 'uitofp', 'sitofp', 'fptoui', 'fptosi', 'fpext', 'fptrunc'):
                mm = re.match(r'(.*) (\S+) to (.*)$', rest); ty1, a, ty2 = mm.groups(); d = newvar(dest, ty2)
                if op == 'sext': code.append('%s = (%s)(%s)(%s)%s;' % (d, ctype(ty2), sctype(ty2), sctype(ty1), val(a, ty1, fn)))
                elif op == 'sitofp': code.append('%s = (%s)(%s)%s;' % (d, ctype(ty2), sctype(ty1), val(a, ty1, fn)))
                elif op == 'fptosi': code.append('%s = (%s)(%s)%s;' % (d, ctype(ty2), sctype(ty2), val(a, ty1, fn)))
                elif op == 'ptrtoint':
                    code.append('%s = (%s)(uintptr_t)%s;' % (d, ctype(ty2), val(a, ty1, fn))); fn.setdefault('p2i', {})[dest] = val(a, ty1, fn)
                elif op == 'inttoptr': code.append('%s = (%s)(uintptr_t)%s;' % (d, ctype(ty2), val(a, ty1, fn)))
                else: code.append('%s = (%s)%s;' % (d, ctype(ty2), val(a, ty1, fn)))
                continue
            if op == 'getelementptr':
                rest2 = rest.replace('inbounds ', '', 1); parts = split_top(rest2)
                base_ty = parts[0]; pty, pv = split_tv(parts[1])
                ge = gep_expr(base_ty, val(pv, pty, fn), [split_tv(p.replace('inrange ','')) for p in parts[2:]], fn)
                d = newvar(dest, ge[1] + '*')
                code.append('%s = %s;' % (d, ge[0])); continue
            if op == 'load':
                parts = split_top(rest.replace('volatile ', '')); ty = parts[0]; pty, pv = split_tv(parts[1])
                d = newvar(dest, ty); code.append('%s = *(%s*)%s;' % (d, ctype(ty), val(pv, pty, fn))); continue
            if op == 'store':
                parts = split_top(rest.replace('volatile ', ''));                 # robust: value is last token of parts[0]
                ty, v = split_tv(parts[0]); pty, pv = split_tv(parts[1])
                code.append('*(%s*)%s = (%s)%s;' % (ctype(ty), val(pv, pty, fn), ctype(ty), val(v, ty, fn))); continue
            if op == 'alloca':
                parts = split_top(rest); ty = parts[0]; d = newvar(dest, ty + '*')
                decls.append('%s mem_%s;' % (ctype(ty), d)); code.append('%s = &mem_%s;' % (d, d)); continue
            if op == 'select':
                parts = split_top(rest); c = parts[0].split(' ', 1)[1]; ty, a = parts[1].rsplit(' ', 1); _, b = parts[2].rsplit(' ', 1)
                d = newvar(dest, ty); code.append('%s = %s ? (%s)%s : (%s)%s;' % (d, val(c, 'i1', fn), ctype(ty), val(a, ty, fn), ctype(ty), val(b, ty, fn))); continue
            if op == 'br':
                def jump(to):
                    s = ''
                    for (pd, pty, inc) in phis_of.get(to, []): pass
                    return 'goto %s;' % lab(to)
                mm = re.match(r'i1 (\S+), label %([\w.$-]+), label %([\w.$-]+)', rest)
                if mm: code.append(('BR', bl, val(mm.group(1), 'i1', fn), mm.group(2), mm.group(3)))
                else:
                    mm = re.match(r'label %([\w.$-]+)', rest); code.append(('JMP', bl, mm.group(1)))
                continue
            if op == 'switch':
                mm = re.match(r'(\S+) (\S+), label %([\w.$-]+) \[(.*)\]', rest, re.S)
                ty, v, dflt, cases = mm.groups(); cs = re.findall(r'\S+ (-?\d+), label %([\w.$-]+)', cases)
                code.append(('SW', bl, val(v, ty, fn), ty, dflt, cs)); continue
            if op == 'ret':
                if rest == 'void': code.append('return;')
                else:
                    ty, v = split_tv(rest); code.append('return (%s)%s;' % (ctype(ty), val(v, ty, fn)))
                continue
            if op == 'unreachable': code.append('__CPROVER_assume(0);'); continue
            if op in ('call', 'invoke', 'tail', 'musttail', 'notail'):
                r2 = rhs
                r2 = re.sub(r'^(tail |musttail |notail )', '', r2)
                isinv = r2.startswith('invoke')
                r2 = r2.split(' ', 1)[1]
                mm = re.match(r'(.*?)@("[^"]+"|[\w.$]+)\((.*)\)(.*)$', r2, re.S)
                if not mm:
                    code.append('__CPROVER_assert(0,"indirect call unsupported in prototype");');
                    if dest: newvar(dest, 'i64')
                    continue
                rty = strip_attrs(mm.group(1)); callee = mm.group(2).strip('"'); callee = aliases.get(callee, callee); args = mm.group(3); tail = mm.group(4)
                rty = re.sub(r'\(.*\)\*?$', '', rty).strip()  # function type prefix for varargs
                argl = []
                for a in split_top(args):
                    a2 = strip_attrs(a); aty, av = split_tv(a2) if not a2.startswith('metadata') else ('i64', '0')
                    argl.append((aty, av))
                d = newvar(dest, rty) if dest else None
                asg = (d + ' = ') if d else ''
                if callee.startswith('llvm.memset'):
                    code.append('{ char* p_=(char*)%s; uint64_t n_=%s; uint8_t c_=(uint8_t)%s; if((n_&7)==0) for(uint64_t i_=0;i_<n_/8;++i_) ((uint64_t*)p_)[i_]=0x0101010101010101ULL*c_; else if((n_&3)==0) for(uint64_t i_=0;i_<n_/4;++i_) ((uint32_t*)p_)[i_]=0x01010101U*c_; else for(uint64_t i_=0;i_<n_;++i_) p_[i_]=(char)c_; }' % (val(argl[0][1], argl[0][0], fn), val(argl[2][1], argl[2][0], fn), val(argl[1][1], argl[1][0], fn)))
                elif callee.startswith('llvm.memcpy') or callee.startswith('llvm.memmove'):
                    code.append('{ char* d_=(char*)%s; char* s_=(char*)%s; uint64_t n_=%s; if((n_&7)==0) for(uint64_t i_=0;i_<n_/8;++i_) ((uint64_t*)d_)[i_]=((uint64_t*)s_)[i_]; else if((n_&3)==0) for(uint64_t i_=0;i_<n_/4;++i_) ((uint32_t*)d_)[i_]=((uint32_t*)s_)[i_]; else for(uint64_t i_=0;i_<n_;++i_) d_[i_]=s_[i_]; }' % (val(argl[0][1], argl[0][0], fn), val(argl[1][1], argl[1][0], fn), val(argl[2][1], argl[2][0], fn)))
                elif callee.startswith('llvm.lifetime') or callee.startswith('llvm.dbg') or callee.startswith('llvm.assume') or callee.startswith('llvm.experimental.noalias'):
                    pass
                elif callee.startswith('llvm.fabs'):
                    code.append('%s(%s < 0 ? -%s : %s);' % (asg, val(argl[0][1], argl[0][0], fn), val(argl[0][1], argl[0][0], fn), val(argl[0][1], argl[0][0], fn)))
                elif callee.startswith('llvm.umax') or callee.startswith('llvm.umin'):
                    a, b = val(argl[0][1], argl[0][0], fn), val(argl[1][1], argl[1][0], fn)
                    code.append('%s(%s %s %s ? %s : %s);' % (asg, a, '>' if 'umax' in callee else '<', b, a, b))
                elif callee.startswith('llvm.ctlz'):
                    code.append('%s(%s==0 ? 64 : (uint64_t)__builtin_clzll(%s));' % (asg, val(argl[0][1], argl[0][0], fn), val(argl[0][1], argl[0][0], fn)))
                elif callee in ('_Znwm', '_Znam', 'malloc'):
                    code.append('%s(uint8_t*)malloc(%s); __CPROVER_assume(%s != 0);' % (asg, val(argl[0][1], argl[0][0], fn), d))
                elif callee in ('_ZdlPv', '_ZdaPv', 'free', '_ZdlPvm'):
                    code.append('free((void*)%s);' % val(argl[0][1], argl[0][0], fn))
                elif callee in STUB_ABORT:
                    code.append('verif_abort();')
                elif callee in STUB_NOP:
                    if d: code.append('%s0;' % asg)
                elif callee in funcs:
                    work.append(callee)
                    code.append('%s%s(%s);' % (asg, cname(callee), ', '.join('(%s)%s' % (ctype(aty), val(av, aty, fn)) for aty, av in argl)))
                else:
                    code.append('__CPROVER_assert(0,"unmodelled callee %s");' % callee)
                    if d: code.append('%s0;' % asg)
                if isinv:
                    mm2 = re.search(r'to label %([\w.$-]+)', ln)
                    code.append(('INVPENDING', bl))
                continue
            if op == 'to':  # continuation line of invoke:  to label %x unwind label %y
                mm = re.match(r'label %([\w.$-]+) unwind', rest);
                # replace last INVPENDING
                for i in range(len(code) - 1, -1, -1):
                    if isinstance(code[i], tuple) and code[i][0] == 'INVPENDING': code[i] = ('JMP', code[i][1], mm.group(1)); break
                continue
            if op in ('landingpad', 'cleanup', 'catch', 'resume', 'filter'):
                if dest: pass
                if op == 'resume': code.append('__CPROVER_assume(0);')
                continue
            if op in ('extractvalue', 'insertvalue'):
                code.append('__CPROVER_assert(0,"aggregate op unsupported in prototype");');
                if dest: fn['names'][dest] = '0'
                continue
            raise Exception('unsupported instruction in %s: %s' % (fname, ln))
    # emit with phi copies
    def phicopy(frm, to):
        ps = phis.get(to, [])
        if not ps: return ''
        s = '{ '
        tmps = []
        for i, (d, ty, inc) in enumerate(ps):
            for v, pred in inc:
                if pred == frm:
                    if parse_type(ty)[0] in ('struct','array'): break
                    ct_ = ctype(ty)
                    s += '%s t%d_ = (%s)%s; ' % (ct_, i, ct_, val(v, ty, fn)); tmps.append((d, i)); break
        for d, i in tmps: s += '%s = t%d_; ' % (d, i)
        return s + '} '
    txt = []
    for c in code:
        if isinstance(c, tuple):
            if c[0] == 'JMP': txt.append('%sgoto %s;' % (phicopy(c[1], c[2]), lab(c[2])))
            elif c[0] == 'BR': txt.append('if (%s) { %sgoto %s; } else { %sgoto %s; }' % (c[2], phicopy(c[1], c[3]), lab(c[3]), phicopy(c[1], c[4]), lab(c[4])))
            elif c[0] == 'SW':
                s = 'switch ((%s)%s) { ' % (ctype(c[3]), c[2])
                for v, l in c[5]: s += 'case %s: %sgoto %s; ' % (val(v, c[3], fn), phicopy(c[1], l), lab(l))
                s += 'default: %sgoto %s; }' % (phicopy(c[1], c[4]), lab(c[4])); txt.append(s)
            elif c[0] == 'INVPENDING': txt.append('/* invoke without continuation? */')
        else: txt.append(c)
    sig = '%s %s(%s)' % (ctype(f['ret']), cname(fname), ', '.join(params) or 'void')
    protos.append(sig + ';')
    bodies.append(sig + ' {\n  ' + '\n  '.join(decls) + '\n  ' + '\n  '.join(txt) + '\n}\n')

# globals as byte arrays (strings only matter for messages)
for g, init in globs.items():
    try:
        ty = init.split(' c"')[0] if ' c"' in init else init.rsplit(' ', 1)[0]
        ty = re.sub(r', align \d+$', '', ty)
        s, a = size_align(strip_attrs(ty.split(' zeroinitializer')[0]))
    except Exception as e:
        s = 64
    emit('static uint64_t g_%s[%d];' % (cname(g[1:]), (s + 7) // 8 or 1))
hdr_idx = len(out)
emit('\n'.join(protos)); emit('\n'.join(bodies))
out.insert(hdr_idx, '\n'.join(d for _, d in struct_defs))
print('\n'.join(out))
