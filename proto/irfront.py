#!/usr/bin/env python3
# throw-away prototype: LLVM-14 textual IR (typed pointers) -> C, to probe feasibility only
import re, sys

src = open(LLFILE).read()
STUB_ABORT = ['_ZSt20__throw_length_errorPKc', '_ZSt17__throw_bad_allocv', '_ZN4FEAT7Runtime5abortEb', '__cxa_throw', '_ZSt24__throw_out_of_range_fmtPKcz', '_ZN4FEAT8abortionEPKcS1_iS1_', 'abort', '__cxa_pure_virtual', '_ZSt9terminatev', '__clang_call_terminate']
STUB_NOP = ['_ZN4FEAT7Backend21get_preferred_backendEv', 'fprintf', 'fwrite', 'fflush', '__cxa_atexit', '_ZNSt8ios_base4InitC1Ev', '_ZNSt8ios_base4InitD1Ev']

# ---------------- types
named = {}
for m in re.finditer(r'^(%[\w".:<>,\s\-\*\(\)\[\]&~=]+?) = type (.+)$', src, re.M):
    named[m.group(1).strip()] = m.group(2).strip()

def split_top(s, sep=','):
    out, depth, cur, inq = [], 0, '', False
    for ch in s:
        if ch == '"': inq = not inq
        if not inq:
            if ch in '([{<': depth += 1
            elif ch in ')]}>': depth -= 1
            elif ch == sep and depth == 0:
                out.append(cur.strip()); cur = ''; continue
        cur += ch
    if cur.strip(): out.append(cur.strip())
    return out

class T:
    pass
def parse_type(t):
    t = t.strip()
    # pointer / function-pointer suffixes
    if t.endswith('*'):
        return ('ptr', t[:-1].strip())
    if t.endswith(')') and not t.startswith('{') and '(' in t:  # function type
        return ('func', t)
    if re.fullmatch(r'i\d+', t): return ('int', int(t[1:]))
    if t == 'float': return ('float',)
    if t == 'double': return ('double',)
    if t == 'void': return ('void',)
    if t == 'opaque': return ('opaque',)
    if t.startswith('['):
        m = re.match(r'\[(\d+) x (.*)\]$', t)
        return ('array', int(m.group(1)), m.group(2))
    if t.startswith('<{'):
        return ('struct', split_top(t[2:-2]), True)
    if t.startswith('{'):
        return ('struct', split_top(t[1:-1]), False)
    if t.startswith('%'):
        if t not in named: raise Exception('unknown named type ' + t)
        return parse_type(named[t])
    if t.startswith('<'):
        raise Exception('vector type unsupported ' + t)
    raise Exception('type? ' + t)

def size_align(t):
    p = parse_type(t)
    k = p[0]
    if k == 'ptr' or k == 'func': return 8, 8
    if k == 'int':
        n = p[1]
        b = 1 if n <= 8 else 2 if n <= 16 else 4 if n <= 32 else 8 if n <= 64 else 16
        return b, b
    if k == 'float': return 4, 4
    if k == 'double': return 8, 8
    if k == 'array':
        s, a = size_align(p[2]); return s * p[1], a
    if k == 'struct':
        off, al = 0, 1
        for f in p[1]:
            s, a = size_align(f)
            if p[2]: a = 1
            off = (off + a - 1) // a * a + s; al = max(al, a)
        return (off + al - 1) // al * al, al
    if k == 'opaque': return 0, 1
    raise Exception('size? ' + t)

def field_offset(t, idx):
    p = parse_type(t)
    off = 0
    for i, f in enumerate(p[1]):
        s, a = size_align(f)
        if p[2]: a = 1
        off = (off + a - 1) // a * a
        if i == idx: return off, f
        off += s
    raise Exception('field idx')

def ctype(t):
    p = parse_type(t)
    k = p[0]
    if k in ('ptr', 'func'): return 'char*'
    if k == 'int':
        n = p[1]
        if n == 1: return '_Bool'
        return 'uint%d_t' % (8 if n <= 8 else 16 if n <= 16 else 32 if n <= 32 else 64)
    if k == 'float': return 'float'
    if k == 'double': return 'double'
    if k == 'void': return 'void'
    raise Exception('ctype of aggregate ' + t)

def is_int(t): return parse_type(t)[0] == 'int'
def bits(t): return parse_type(t)[1]
def sctype(t):
    n = bits(t)
    return 'int%d_t' % (8 if n <= 8 else 16 if n <= 16 else 32 if n <= 32 else 64)

# ---------------- functions
funcs = {}
for m in re.finditer(r'^define [^@]*?(\S+(?:\s*\*)*|\S+) @([\w.$"]+)\((.*?)\)[^{\n]*\{\n(.*?)^\}', src, re.M | re.S):
    pass
fre = re.compile(r'^define (.*?)@("[^"]+"|[\w.$]+)\((.*?)\)([^\n]*)\{\n(.*?)\n\}', re.M | re.S)
decl_re = re.compile(r'^declare (.*?)@("[^"]+"|[\w.$]+)\((.*?)\)', re.M)

ATTRS = r'\b(noundef|nonnull|zeroext|signext|noalias|nocapture|readonly|readnone|writeonly|returned|inreg|immarg|nofree|dso_local|linkonce_odr|weak_odr|internal|hidden|local_unnamed_addr|unnamed_addr|mustprogress|noinline|uwtable|nest|swiftself)\b|align \d+|dereferenceable(_or_null)?\(\d+\)|sret\([^)]*\)|byval\([^)]*\)|#\d+|comdat(\([^)]*\))?'
def strip_attrs(s):
    return re.sub(r'\s+', ' ', re.sub(ATTRS, '', s)).strip()

def parse_params(ps):
    out = []
    for p in split_top(ps):
        if p == '...': continue
        sret = 'sret(' in p
        p2 = strip_attrs(p)
        m = re.match(r'(.*?)\s*(%[\w.]+)?$', p2)
        ty = m.group(1).strip(); name = m.group(2)
        out.append((ty, name))
    return out

def balanced(s, i):
    # s[i]=='(' -> return index of matching ')'
    d=0; inq=False
    for j in range(i, len(s)):
        c=s[j]
        if c=='"': inq=not inq
        if inq: continue
        if c=='(': d+=1
        elif c==')':
            d-=1
            if d==0: return j
    raise Exception('unbalanced')
for m in re.finditer(r'^define (.*?)@("[^"]+"|[\w.$]+)\(', src, re.M):
    ret = strip_attrs(m.group(1)); name = m.group(2).strip('"')
    i = m.end()-1; j = balanced(src, i)
    k = src.index('{\n', j); e = src.index('\n}\n', k)
    funcs[name] = dict(ret=ret, params=parse_params(src[i+1:j]), body=src[k+2:e])

aliases = {}
for m in re.finditer(r'^@(\S+) = .*?alias .*@(\S+)$', src, re.M): aliases[m.group(1)] = m.group(2)

