#include <assert.h>
#include <stdint.h>
typedef unsigned long Index;
void w_graph_render(unsigned rt, Index nd, Index ni, Index nidx, Index* dp, Index* ii, Index* ond, Index* oni, Index* onidx, Index* odp, Index* oii);
unsigned nondet_uint(void);
#ifndef ND
#define ND 3
#endif
#ifndef NI
#define NI 3
#endif
#ifndef NX
#define NX 4
#endif
int main(void){
  Index nd=ND, ni=NI;
  Index dp[ND+1], ii[NX], odp[NI+ND+2], oii[NX]; Index ond, oni, onidx;
  static const Index prof[]={PROF}; for(int i=0;i<=ND;i++) dp[i]=prof[i];
  Index nidx=dp[nd];
  for(int k=0;k<NX;k++){ ii[k]=nondet_uint(); __CPROVER_assume(k>=nidx || ii[k]<ni); }
  w_graph_render(RT, nd, ni, nidx, dp, ii, &ond, &oni, &onidx, odp, oii);
#ifdef WITNESS
  assert(0);
#endif
#if RT==0
  assert(ond==nd); assert(oni==ni); assert(onidx==nidx);
  for(Index i=0;i<=ND;i++) if(i<=nd) assert(odp[i]==dp[i]);
  for(Index k=0;k<NX;k++) if(k<nidx) assert(oii[k]==ii[k]);
#endif
#if RT==2
  assert(ond==nd); assert(oni==ni);
  for(Index i=0;i<ND;i++) if(i<nd) for(Index j=0;j<NI;j++) if(j<ni){ unsigned a=0,b=0; for(Index k=0;k<NX;k++){ if(k>=dp[i]&&k<dp[i+1]&&ii[k]==j) a++; if(k>=odp[i]&&k<odp[i+1]&&oii[k]==j) b++; } assert((a>0)==(b==1)); assert(b<=1); }
#endif
  return 0;
}
