#include <kernel/base_header.hpp>
#include <kernel/adjacency/graph.hpp>
#include <kernel/adjacency/permutation.hpp>
using namespace FEAT;
using namespace FEAT::Adjacency;
extern "C" __attribute__((noinline)) void w_graph_render(int rt, unsigned long nd, unsigned long ni, unsigned long nidx, const unsigned long* dp, const unsigned long* ii,
   unsigned long* ond, unsigned long* oni, unsigned long* onidx, unsigned long* odp, unsigned long* oii)
{
  Graph g(nd, ni, nidx, dp, ii);
  Graph h((RenderType)rt, g);
  *ond = h.get_num_nodes_domain(); *oni = h.get_num_nodes_image(); *onidx = h.get_num_indices();
  for(Index i=0;i<=*ond;++i) odp[i]=h.get_domain_ptr()[i];
  for(Index i=0;i<*onidx;++i) oii[i]=h.get_image_idx()[i];
}
