#include <math.h>
#include <string.h>
#include <assert.h>
typedef unsigned long Index;
#ifndef DT
#define DT float
#endif
typedef unsigned IT;
void csr_generic(DT * r, const DT a, const DT * const x, const DT b, const DT * const y, const DT * const val,
  const IT * const col_ind, const IT * const row_ptr, const Index rows, const Index columns, const Index ue, const _Bool transposed)
{
  if (fabsf((float)b) < 1.1920929e-07f) { for (Index i=0;i<(transposed?columns:rows);++i) r[i]=0; }
  else if (r != y) { for (Index i=0;i<(transposed?columns:rows);++i) r[i]=y[i]; }
  if (transposed) {
    DT ba = b/a;
    for (Index col=0; col<columns; ++col) r[col] = ba*r[col];
    for (Index row=0; row<rows; ++row)
      for (Index i=row_ptr[row]; i<row_ptr[row+1]; ++i)
        r[col_ind[i]] += val[i]*x[row];
    for (Index col=0; col<columns; ++col) r[col] = a*r[col];
  } else {
    for (Index row=0; row<rows; ++row) {
      DT sum=0; const IT end=row_ptr[row+1];
      for (IT i=row_ptr[row]; i<end; ++i) sum += val[i]*x[col_ind[i]];
      r[row] = (sum*a) + (b*r[row]);
    }
  }
}
#define MAXR 3
#define MAXC 3
#define MAXNZ 4
int nondet_int(void); unsigned nondet_uint(void); _Bool nondet_bool(void);
static DT small(void){ int v=nondet_int(); __CPROVER_assume(v>=-VR && v<=VR); return (DT)v; }
int main(void){
  Index rows=3, cols=3;
  IT row_ptr[MAXR+1]; IT col_ind[MAXNZ]; DT val[MAXNZ], x[MAXC>MAXR?MAXC:MAXR], y[MAXC>MAXR?MAXC:MAXR], r[MAXC>MAXR?MAXC:MAXR];
  int ival[MAXNZ], ix[3], iy[3];
  row_ptr[0]=0; row_ptr[1]=RP1; row_ptr[2]=RP2; row_ptr[3]=RP3;
  Index nnz=row_ptr[rows];
  for(int i=0;i<MAXNZ;i++){ col_ind[i]=nondet_uint(); __CPROVER_assume(col_ind[i]<cols || i>=nnz); ival[i]=nondet_int(); __CPROVER_assume(ival[i]>=-VR&&ival[i]<=VR); val[i]=(DT)ival[i]; }
  for(int i=0;i<3;i++){ ix[i]=nondet_int(); __CPROVER_assume(ix[i]>=-VR&&ix[i]<=VR); x[i]=(DT)ix[i]; iy[i]=nondet_int(); __CPROVER_assume(iy[i]>=-VR&&iy[i]<=VR); y[i]=(DT)iy[i]; r[i]=(DT)nondet_int(); }
  int ia=nondet_int(); __CPROVER_assume(ia>=-VR&&ia<=VR && ia!=0); DT a=(DT)ia;
  _Bool t=TT;
  _Bool alias=AL;
  DT *yy = alias? r : y; if(alias) for(int i=0;i<3;i++) r[i]=y[i];
  csr_generic(r,a,x,(DT)1,yy,val,col_ind,row_ptr,rows,cols,nnz,t);
  // oracle in integers
  Index n = t?cols:rows;
  for(Index i=0;i<3;i++) if(i<n){
    long s=0;
    for(Index rr=0; rr<rows; rr++) for(Index k=row_ptr[rr]; k<row_ptr[rr+1]; k++){
      if(!t && rr==i) s += (long)ival[k]*ix[col_ind[k]];
      if(t && col_ind[k]==i) s += (long)ival[k]*ix[rr];
    }
    long e = iy[i] + ia*s;
#ifdef WITNESS
    assert(0);
#endif
    assert(r[i]==(DT)e);
  }
  return 0;
}
