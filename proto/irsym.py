#!/usr/bin/env python3
# throw-away prototype of E3: symbolic executor over LLVM-14 IR with z3 bit-vectors and region memory
import re, sys, copy, time
import z3
LL = sys.argv[1]
fe = {'LLFILE': LL}
exec(open('/tmp/probe/irfront.py').read(), fe)
funcs, named, aliases = fe['funcs'], fe['named'], fe.get('aliases', {})
split_top, parse_type, size_align, field_offset, strip_attrs = fe['split_top'], fe['parse_type'], fe['size_align'], fe['field_offset'], fe['strip_attrs']
STUB_ABORT, STUB_NOP = fe['STUB_ABORT'], fe['STUB_NOP']
for m in re.finditer(r'^@(\S+) = .*?alias .*@(\S+)$', fe['src'], re.M): aliases[m.group(1)] = m.group(2)

def split_tv(s):
    s = s.strip(); i = 0; n = len(s)
    def skip_bal(i, o, c):
        d = 0
        while i < n:
            if s[i] == o: d += 1
            elif s[i] == c:
                d -= 1
                if d == 0: return i + 1
            i += 1
        raise Exception('unbalanced ' + s)
    if s[i] == '%':
        if s[i + 1] == '"': i = s.index('"', i + 2) + 1
        else: i += re.match(r'%[\w.$-]+', s[i:]).end()
    elif s[i] == '{': i = skip_bal(i, '{', '}')
    elif s[i] == '[': i = skip_bal(i, '[', ']')
    elif s[i] == '<': i = skip_bal(i, '<', '>')
    else: i += re.match(r'(i\d+|float|double|void|label|metadata)', s[i:]).end()
    while True:
        j = i
        while j < n and s[j] == ' ': j += 1
        if j < n and s[j] == '*': i = j + 1; continue
        if j < n and s[j] == '(': i = skip_bal(j, '(', ')'); continue
        break
    return s[:i].strip(), s[i:].strip()

class Ptr:
    __slots__ = ('reg', 'off')
    def __init__(s, reg, off): s.reg, s.off = reg, off
    def __repr__(s): return 'Ptr(%s,%s)' % (s.reg, s.off)
NULL = Ptr(None, 0)
class PtrInt:  # result of ptrtoint
    def __init__(s, p): s.p = p

def is_sym(v): return isinstance(v, z3.ExprRef)
def bv(v, w): return v if is_sym(v) else z3.BitVecVal(v, w)
def mask(v, w): return v & ((1 << w) - 1)
def simp(v):
    if is_sym(v):
        v = z3.simplify(v)
        if z3.is_bv_value(v): return v.as_long()
        if z3.is_true(v): return True
        if z3.is_false(v): return False
    return v

class Region:
    def __init__(s, size, name): s.size, s.name, s.cells, s.live = size, name, {}, True
class State:
    def __init__(s): s.frames, s.regions, s.pc, s.steps = [], [], [], 0
    def clone(s):
        t = State(); t.frames = [dict(f, env=dict(f['env'])) for f in s.frames]
        t.regions = []
        for r in s.regions:
            q = Region(r.size, r.name); q.cells = dict(r.cells); q.live = r.live; t.regions.append(q)
        t.pc = list(s.pc); t.steps = s.steps; return t
    def new_region(s, size, name):
        s.regions.append(Region(size, name)); return len(s.regions) - 1

solver = z3.Solver()
stats = {'paths': 0, 'forks': 0, 'queries': 0, 'qtime': 0.0}
def feasible(pc):
    stats['queries'] += 1; t = time.time()
    solver.push(); solver.add(*pc); r = solver.check(); solver.pop(); stats['qtime'] += time.time() - t
    return r == z3.sat

# parse blocks once per function
BL = {}
def blocks_of(fname):
    if fname in BL: return BL[fname]
    f = funcs[fname]; lines = []
    for ln in f['body'].split('\n'):
        if lines and lines[-1].lstrip().startswith('switch') and ']' not in lines[-1]: lines[-1] += ' ' + ln.strip()
        else: lines.append(ln)
    nparams = len(f['params'])
    first = str(nparams)
    blocks = {}; order = []; cur = first; blocks[cur] = []; order.append(cur)
    for ln in lines:
        m = re.match(r'^([\w.$-]+):', ln)
        if m: cur = m.group(1); blocks[cur] = []; order.append(cur); continue
        ln = ln.strip()
        if not ln or ln.startswith(';'): continue
        ln = re.sub(r',? ?!\w+(\.\w+)* !\d+', '', ln)
        blocks[cur].append(ln)
    BL[fname] = (blocks, first); return BL[fname]

class Abort(Exception): pass
class Violation(Exception): pass

def load(st, p, nbytes):
    if p.reg is None: raise Violation('null deref')
    r = st.regions[p.reg]
    if not r.live: raise Violation('use after free ' + r.name)
    off = simp(p.off)
    if not is_sym(off):
        if off < 0 or off + nbytes > r.size: raise Violation('load out of bounds %s off %d size %d' % (r.name, off, r.size))
        if off in r.cells:
            v, w = r.cells[off]
            if w != nbytes: raise Exception('width mismatch load')
            return v
        raise Violation('load of uninitialised %s+%d' % (r.name, off))
    # symbolic offset: bounds obligation + ite chain
    inb = z3.And(z3.ULE(0, off), z3.ULE(off + nbytes, r.size), z3.ULE(off, r.size))
    if feasible(st.pc + [z3.Not(inb)]): raise Violation('symbolic load may be out of bounds in ' + r.name)
    res = None
    for o in sorted(r.cells.keys(), reverse=True):
        v, w = r.cells[o]
        if w != nbytes: continue
        if isinstance(v, Ptr):
            if res is None: res = Ptr(v.reg, bv(v.off, 64))
            elif isinstance(res, Ptr) and res.reg == v.reg: res = Ptr(v.reg, z3.If(off == o, bv(v.off, 64), res.off))
            else: raise Exception('symbolic-offset load mixing pointers into different regions')
            continue
        if isinstance(res, Ptr): raise Exception('symbolic-offset load mixing pointers and integers')
        res = bv(v, 8 * nbytes) if res is None else z3.If(off == o, bv(v, 8 * nbytes), res)
    return res

def store(st, p, v, nbytes):
    if p.reg is None: raise Violation('null deref')
    r = st.regions[p.reg]
    if not r.live: raise Violation('use after free ' + r.name)
    off = simp(p.off)
    if not is_sym(off):
        if off < 0 or off + nbytes > r.size: raise Violation('store out of bounds %s off %d size %d' % (r.name, off, r.size))
        r.cells[off] = (v, nbytes); return
    inb = z3.And(z3.ULE(off + nbytes, r.size), z3.ULE(off, r.size))
    if feasible(st.pc + [z3.Not(inb)]): raise Violation('symbolic store may be out of bounds in ' + r.name)
    for o in list(r.cells.keys()):
        old, w = r.cells[o]
        if w != nbytes: continue
        if isinstance(old, Ptr) or isinstance(v, Ptr):
            # guarded pointer update: same region only
            if isinstance(old, Ptr) and isinstance(v, Ptr) and old.reg == v.reg:
                r.cells[o] = (Ptr(v.reg, z3.If(off == o, bv(v.off, 64), bv(old.off, 64))), w)
            else: raise Exception('mixed pointer/int symbolic store')
        else:
            r.cells[o] = (z3.If(off == o, bv(v, 8 * nbytes), bv(old, 8 * nbytes)), w)

def tybytes(t): return size_align(t)[0]

def value(tok, ty, env):
    tok = tok.strip()
    if tok.startswith('%'): return env[tok]
    if tok in ('null',): return NULL
    if tok in ('undef', 'poison', 'zeroinitializer'): return 0
    if tok == 'true': return True
    if tok == 'false': return False
    if re.fullmatch(r'-?\d+', tok): return mask(int(tok), parse_type(ty)[1])
    if tok.startswith('@') or tok.startswith('getelementptr') or tok.startswith('bitcast'): return Ptr(None, 1)  # opaque global (vtables, strings)
    raise Exception('value? ' + tok)

def binop(op, a, b, w):
    if isinstance(a, PtrInt) and isinstance(b, PtrInt) and op == 'sub':
        if a.p.reg != b.p.reg: raise Exception('ptr diff across regions')
        return binop('sub', a.p.off, b.p.off, w)
    if isinstance(a, PtrInt) or isinstance(b, PtrInt): raise Exception('arith on ptrtoint')
    if not is_sym(a) and not is_sym(b):
        sa = a - (1 << w) if a >> (w - 1) else a; sb = b - (1 << w) if b >> (w - 1) else b
        r = {'add': a + b, 'sub': a - b, 'mul': a * b, 'and': a & b, 'or': a | b, 'xor': a ^ b, 'shl': a << b if b < w else 0, 'lshr': a >> b if b < w else 0,
             'ashr': sa >> b if b < w else (-1 if sa < 0 else 0), 'udiv': a // b if b else 0, 'urem': a % b if b else 0,
             'sdiv': int(sa / sb) if sb else 0, 'srem': (sa - sb * int(sa / sb)) if sb else 0}[op]
        return mask(r, w)
    A, B = bv(a, w), bv(b, w)
    r = {'add': lambda: A + B, 'sub': lambda: A - B, 'mul': lambda: A * B, 'and': lambda: A & B, 'or': lambda: A | B, 'xor': lambda: A ^ B, 'shl': lambda: A << B,
         'lshr': lambda: z3.LShR(A, B), 'ashr': lambda: A >> B, 'udiv': lambda: z3.UDiv(A, B), 'urem': lambda: z3.URem(A, B), 'sdiv': lambda: A / B, 'srem': lambda: z3.SRem(A, B)}[op]()
    return simp(r)

def icmp(pred, a, b, w):
    if isinstance(a, Ptr) or isinstance(b, Ptr):
        a = a if isinstance(a, Ptr) else NULL; b = b if isinstance(b, Ptr) else NULL
        if a.reg != b.reg:
            if pred == 'eq': return False
            if pred == 'ne': return True
            raise Exception('ordered ptr compare across regions')
        return icmp(pred, a.off, b.off, 64)
    if not is_sym(a) and not is_sym(b):
        sa = a - (1 << w) if a >> (w - 1) else a; sb = b - (1 << w) if b >> (w - 1) else b
        return {'eq': a == b, 'ne': a != b, 'ult': a < b, 'ule': a <= b, 'ugt': a > b, 'uge': a >= b, 'slt': sa < sb, 'sle': sa <= sb, 'sgt': sa > sb, 'sge': sa >= sb}[pred]
    A, B = bv(a, w), bv(b, w)
    return simp({'eq': lambda: A == B, 'ne': lambda: A != B, 'ult': lambda: z3.ULT(A, B), 'ule': lambda: z3.ULE(A, B), 'ugt': lambda: z3.UGT(A, B), 'uge': lambda: z3.UGE(A, B),
                 'slt': lambda: A < B, 'sle': lambda: A <= B, 'sgt': lambda: A > B, 'sge': lambda: A >= B}[pred]())

def gep(base_ty, p, idxs, env):
    off = p.off; cur = base_ty; first = True
    for ity, iv in idxs:
        w = parse_type(ity)[1]; v = value(iv, ity, env)
        if first:
            s = tybytes(cur); first = False
            sv = v if not is_sym(v) else (z3.SignExt(64 - w, v) if w < 64 else v)
            if not is_sym(sv) and w < 64 and sv >> (w - 1): sv = sv - (1 << w)
            off = simp(bv(off, 64) + bv(sv, 64) * s) if (is_sym(off) or is_sym(sv)) else off + sv * s
        else:
            pt = parse_type(cur)
            if pt[0] == 'struct': o, f = field_offset(cur, int(iv)); off = simp(off + o) if is_sym(off) else off + o; cur = f
            elif pt[0] == 'array':
                s = tybytes(pt[2]); sv = v
                off = simp(bv(off, 64) + bv(sv, 64) * s) if (is_sym(off) or is_sym(sv)) else off + sv * s; cur = pt[2]
            else: raise Exception('gep into ' + cur)
    if not is_sym(off): off = off & ((1 << 64) - 1) if off >= 0 else off
    return Ptr(p.reg, off)

def concretize(st, v):
    if not is_sym(v): return v
    stats['queries'] += 1; solver.push(); solver.add(*st.pc); r = solver.check()
    if r != z3.sat: solver.pop(); raise Abort()
    c = solver.model().eval(v, model_completion=True).as_long(); solver.add(v != c); u = solver.check(); solver.pop()
    if u == z3.unsat: return c
    raise Exception('value not determined by path condition: cannot concretise')
MAXSTEPS = 200000
def run(st, on_return):
    """explore all paths from state st; on_return(state, retval) at top-level return"""
    work = [st]
    while work:
        st = work.pop()
        try:
            while True:
                fr = st.frames[-1]; blocks, _ = blocks_of(fr['func']); ins = blocks[fr['block']]
                if fr['idx'] >= len(ins): raise Exception('fell off block')
                ln = ins[fr['idx']]; fr['idx'] += 1; env = fr['env']; st.steps += 1
                if st.steps > MAXSTEPS: raise Exception('step cap')
                m = re.match(r'(%[\w.]+) = (.*)$', ln); dest, rhs = (m.group(1), m.group(2)) if m else (None, ln)
                op = rhs.split(' ', 1)[0]; rest = rhs[len(op):].strip()
                if op == 'phi':
                    # evaluate all phis of this block simultaneously
                    vals = {}; k = fr['idx'] - 1
                    while k < len(ins) and ' = phi ' in ins[k]:
                        mm = re.match(r'(%[\w.]+) = phi (.*?) (\[.*)$', ins[k]); inc = re.findall(r'\[ (.*?), %([\w.$-]+) \]', mm.group(3))
                        for v, pred in inc:
                            if pred == fr['prev']: vals[mm.group(1)] = value(v, mm.group(2), env)
                        k += 1
                    env.update(vals); fr['idx'] = k; continue
                if op in ('add', 'sub', 'mul', 'and', 'or', 'xor', 'shl', 'lshr', 'ashr', 'udiv', 'urem', 'sdiv', 'srem'):
                    r2 = re.sub(r'\b(nuw|nsw|exact)\b ?', '', rest); ty, ab = r2.split(' ', 1); a, b = split_top(ab)
                    env[dest] = binop(op, value(a, ty, env), value(b, ty, env), parse_type(ty)[1]); continue
                if op == 'icmp':
                    pred, r2 = rest.split(' ', 1); ty, ab = split_tv(r2) if False else (None, None)
                    mm = re.match(r'(.*?) ([^ ,]+), (.+)$', r2); ty, a, b = mm.groups()
                    w = parse_type(ty)[1] if parse_type(ty)[0] == 'int' else 64
                    env[dest] = icmp(pred, value(a, ty, env), value(b, ty, env), w); continue
                if op in ('zext', 'trunc', 'sext', 'bitcast', 'ptrtoint', 'inttoptr'):
                    mm = re.match(r'(.*) (\S+) to (.*)$', rest); ty1, a, ty2 = mm.groups(); v = value(a, ty1, env)
                    if op == 'bitcast': env[dest] = v
                    elif op == 'ptrtoint': env[dest] = PtrInt(v)
                    elif op == 'inttoptr': env[dest] = v.p if isinstance(v, PtrInt) else NULL
                    else:
                        w1, w2 = parse_type(ty1)[1], parse_type(ty2)[1]
                        if isinstance(v, bool): v = 1 if v else 0
                        if is_sym(v) and z3.is_bool(v): v = z3.If(v, z3.BitVecVal(1, 1), z3.BitVecVal(0, 1))
                        if op == 'zext': env[dest] = simp(z3.ZeroExt(w2 - w1, v)) if is_sym(v) else v
                        elif op == 'trunc': env[dest] = simp(z3.Extract(w2 - 1, 0, v)) if is_sym(v) else mask(v, w2)
                        else: env[dest] = simp(z3.SignExt(w2 - w1, v)) if is_sym(v) else mask(v - (1 << w1) if v >> (w1 - 1) else v, w2)
                    continue
                if op == 'getelementptr':
                    parts = split_top(rest.replace('inbounds ', '', 1)); pty, pv = split_tv(parts[1])
                    env[dest] = gep(parts[0], value(pv, pty, env), [split_tv(p) for p in parts[2:]], env); continue
                if op == 'load':
                    parts = split_top(rest); ty = parts[0]; pty, pv = split_tv(parts[1])
                    env[dest] = load(st, value(pv, pty, env), tybytes(ty)); continue
                if op == 'store':
                    parts = split_top(rest); ty, v = split_tv(parts[0]); pty, pv = split_tv(parts[1])
                    vv = value(v, ty, env)
                    if isinstance(vv, bool): vv = 1 if vv else 0
                    store(st, value(pv, pty, env), vv, tybytes(ty)); continue
                if op == 'alloca':
                    ty = split_top(rest)[0]; env[dest] = Ptr(st.new_region(tybytes(ty), 'alloca' + dest), 0); continue
                if op == 'select':
                    parts = split_top(rest); c = value(parts[0].split(' ', 1)[1], 'i1', env); ty, a = split_tv(parts[1]); _, b = split_tv(parts[2])
                    va, vb = value(a, ty, env), value(b, ty, env)
                    if not is_sym(c): env[dest] = va if c else vb
                    elif isinstance(va, Ptr) or isinstance(vb, Ptr):
                        va = va if isinstance(va, Ptr) else NULL; vb = vb if isinstance(vb, Ptr) else NULL
                        if va.reg != vb.reg: raise Exception('select of pointers into different regions')
                        env[dest] = Ptr(va.reg, z3.If(c, bv(va.off, 64), bv(vb.off, 64)))
                    else:
                        w = parse_type(ty)[1]; env[dest] = simp(z3.If(c, bv(va, w), bv(vb, w)))
                    continue
                if op == 'br':
                    mm = re.match(r'i1 (\S+), label %([\w.$-]+), label %([\w.$-]+)', rest)
                    if not mm:
                        t = re.match(r'label %([\w.$-]+)', rest).group(1); fr['prev'] = fr['block']; fr['block'] = t; fr['idx'] = 0; continue
                    c = value(mm.group(1), 'i1', env)
                    if not is_sym(c):
                        t = mm.group(2) if c else mm.group(3); fr['prev'] = fr['block']; fr['block'] = t; fr['idx'] = 0; continue
                    ft = feasible(st.pc + [c]); ff = feasible(st.pc + [z3.Not(c)])
                    if ft and ff:
                        stats['forks'] += 1; other = st.clone(); of = other.frames[-1]; other.pc.append(z3.Not(c)); of['prev'] = of['block']; of['block'] = mm.group(3); of['idx'] = 0; work.append(other)
                    if ft: st.pc.append(c); t = mm.group(2)
                    elif ff: st.pc.append(z3.Not(c)); t = mm.group(3)
                    else: raise Abort()
                    fr['prev'] = fr['block']; fr['block'] = t; fr['idx'] = 0; continue
                if op == 'switch':
                    mm = re.match(r'(\S+) (\S+), label %([\w.$-]+) \[(.*)\]', rest, re.S); ty, v, dflt, cases = mm.groups(); vv = value(v, ty, env)
                    if is_sym(vv): raise Exception('symbolic switch')
                    t = dflt
                    for cv, l in re.findall(r'\S+ (-?\d+), label %([\w.$-]+)', cases):
                        if mask(int(cv), parse_type(ty)[1]) == vv: t = l
                    fr['prev'] = fr['block']; fr['block'] = t; fr['idx'] = 0; continue
                if op == 'ret':
                    rv = None
                    if rest != 'void': ty, v = split_tv(rest); rv = value(v, ty, env)
                    st.frames.pop()
                    if not st.frames: stats['paths'] += 1; on_return(st, rv); break
                    cf = st.frames[-1]
                    if cf.get('retdest'): cf['env'][cf['retdest']] = rv
                    if cf.get('invoke_to'): cf['prev'] = cf['block']; cf['block'] = cf['invoke_to']; cf['idx'] = 0; cf['invoke_to'] = None
                    continue
                if op == 'unreachable': raise Abort()
                if op in ('call', 'invoke', 'tail', 'musttail', 'notail'):
                    r2 = re.sub(r'^(tail |musttail |notail )', '', rhs); isinv = r2.startswith('invoke'); r2 = r2.split(' ', 1)[1]
                    mm = re.match(r'(.*?)@("[^"]+"|[\w.$]+)\((.*)\)(.*)$', r2, re.S)
                    if not mm: raise Exception('indirect call')
                    callee = mm.group(2).strip('"'); callee = aliases.get(callee, callee)
                    args = []
                    for a in split_top(mm.group(3)):
                        a2 = strip_attrs(a)
                        if a2.startswith('metadata'): args.append(0); continue
                        aty, av = split_tv(a2); args.append(value(av, aty, env))
                    inv_to = None
                    if isinv:
                        nxt = ins[fr['idx']]; inv_to = re.match(r'to label %([\w.$-]+)', nxt).group(1); fr['idx'] += 1
                    def cont():
                        if inv_to: fr['prev'] = fr['block']; fr['block'] = inv_to; fr['idx'] = 0
                    if callee.startswith('llvm.memset'):
                        p, c, n = args[0], args[1], concretize(st, args[2])
                        for o in range(0, n, 8): store(st, Ptr(p.reg, p.off + o), (c * 0x0101010101010101) & ((1 << 64) - 1), 8) if n - o >= 8 else [store(st, Ptr(p.reg, p.off + o + k), c, 1) for k in range(n - o)]
                        cont(); continue
                    if callee.startswith('llvm.memcpy') or callee.startswith('llvm.memmove'):
                        d, s_, n = args[0], args[1], concretize(st, args[2])
                        vals = [load(st, Ptr(s_.reg, s_.off + o), 8) for o in range(0, n, 8)]
                        for k, o in enumerate(range(0, n, 8)): store(st, Ptr(d.reg, d.off + o), vals[k], 8)
                        cont(); continue
                    if callee.startswith('llvm.lifetime') or callee.startswith('llvm.assume') or callee.startswith('llvm.dbg'): cont(); continue
                    if callee.startswith('llvm.umax'):
                        a, b = args; env[dest] = (max(a, b) if not (is_sym(a) or is_sym(b)) else simp(z3.If(z3.UGT(bv(a, 64), bv(b, 64)), bv(a, 64), bv(b, 64)))); cont(); continue
                    if callee in ('_Znwm', '_Znam', 'malloc'):
                        n = concretize(st, args[0])
                        env[dest] = Ptr(st.new_region(n, 'heap@' + fr['func'][-24:] + dest), 0); cont(); continue
                    if callee in ('_ZdlPv', '_ZdaPv', 'free', '_ZdlPvm'):
                        p = args[0]
                        if p.reg is not None:
                            r = st.regions[p.reg]
                            if not r.live: raise Violation('double free ' + r.name)
                            r.live = False
                        cont(); continue
                    if callee in STUB_ABORT: raise Abort()
                    if callee in STUB_NOP:
                        if dest: env[dest] = 0
                        cont(); continue
                    if callee not in funcs: raise Exception('unmodelled callee ' + callee)
                    f = funcs[callee]; nenv = {}
                    for i, (ty, nm) in enumerate(f['params']): nenv[nm or '%' + str(i)] = args[i]
                    _, first = blocks_of(callee)
                    fr['retdest'] = dest; fr['invoke_to'] = inv_to
                    st.frames.append({'func': callee, 'block': first, 'idx': 0, 'prev': None, 'env': nenv}); continue
                if op in ('landingpad', 'resume', 'cleanup', 'catch'): raise Abort()
                raise Exception('unsupported: ' + ln)
        except Abort:
            stats['paths'] += 1; on_return(st, 'ABORT')
    return

# ---------------- harness: Graph render transpose
RT = int(sys.argv[2]); prof = [int(x) for x in sys.argv[3].split(',')]; NI = int(sys.argv[4])
ND = len(prof) - 1; NX = prof[-1]
st = State()
def arr(name, vals):
    r = st.new_region(8 * max(len(vals), 1), name)
    for i, v in enumerate(vals): st.regions[r].cells[8 * i] = (v, 8)
    return Ptr(r, 0)
ii = [z3.BitVec('ii%d' % k, 64) for k in range(NX)]
for v in ii: solver.add(z3.ULT(v, NI))
dp = arr('dp', prof); pii = arr('ii', ii)
outs = [arr(n, [0]) for n in ('ond', 'oni', 'onidx')]
odp = arr('odp', [0] * (max(ND, NI) + 2)); oii = arr('oii', [0] * max(NX, 1))
f = funcs['w_graph_render']; env = {}
argv = [RT, ND, NI, NX, dp, pii, outs[0], outs[1], outs[2], odp, oii]
for i, (ty, nm) in enumerate(f['params']): env[nm or '%' + str(i)] = argv[i]
st.frames.append({'func': 'w_graph_render', 'block': blocks_of('w_graph_render')[1], 'idx': 0, 'prev': None, 'env': env})
results = {'ok': 0, 'viol': 0, 'abort': 0}
def cell(st, p, k): return st.regions[p.reg].cells[8 * k][0]
def check(st, rv):
    if rv == 'ABORT': results['abort'] += 1; print('  path aborted (XASSERT / throw) under', st.pc[:2]); return
    ond, oni, onidx = [cell(st, o, 0) for o in outs]
    props = []
    if RT in (4, 5):
        props += [bv(ond, 64) == NI, bv(oni, 64) == ND, bv(onidx, 64) == NX, bv(cell(st, odp, 0), 64) == 0, bv(cell(st, odp, NI), 64) == NX]
        O = [bv(cell(st, odp, j), 64) for j in range(NI + 1)]; OI = [bv(cell(st, oii, k), 64) for k in range(NX)]
        for j in range(NI): props.append(z3.ULE(O[j], O[j + 1]))
        for i in range(ND):
            for j in range(NI):
                a = z3.Sum([z3.If(ii[k] == j, 1, 0) for k in range(prof[i], prof[i + 1])] + [z3.IntVal(0)])
                b = z3.Sum([z3.If(z3.And(z3.ULE(O[j], k), z3.ULT(k, O[j + 1]), OI[k] == i), 1, 0) for k in range(NX)] + [z3.IntVal(0)])
                props.append(a == b)
    elif RT == 0:
        props += [bv(ond, 64) == ND, bv(oni, 64) == NI, bv(onidx, 64) == NX]
        props += [bv(cell(st, odp, i), 64) == prof[i] for i in range(ND + 1)] + [bv(cell(st, oii, k), 64) == ii[k] for k in range(NX)]
    # leak check: all heap regions freed
    for r in st.regions:
        if r.name.startswith('heap') and r.live: props.append(z3.BoolVal(False))
    stats['queries'] += 1; t = time.time(); solver.push(); solver.add(*st.pc); solver.add(z3.Not(z3.And(props))); r = solver.check()
    if r == z3.sat: results['viol'] += 1; print('  VIOLATION model:', solver.model())
    elif r == z3.unsat: results['ok'] += 1
    else: print('  unknown')
    solver.pop(); stats['qtime'] += time.time() - t
t0 = time.time()
try:
    run(st, check)
except Violation as e:
    print('MEMORY VIOLATION:', e)
print('RT=%d prof=%s NI=%d: paths=%d forks=%d queries=%d solver=%.2fs total=%.2fs results=%s' % (RT, prof, NI, stats['paths'], stats['forks'], stats['queries'], stats['qtime'], time.time() - t0, results))
