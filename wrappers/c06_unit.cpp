// C06 wrappers (E3, structural slice): the real UnitFilter with SYMBOLIC constrained indices; vector / matrix values are raw 64-bit patterns
// (the filter only overwrites entries: prescribed value, 0 or 1 - no arithmetic).
#include <kernel/base_header.hpp>
#include <kernel/lafem/dense_vector.hpp>
#include <kernel/lafem/sparse_vector.hpp>
#include <kernel/lafem/sparse_matrix_csr.hpp>
#include <kernel/lafem/unit_filter.hpp>
#include <cstring>
using namespace FEAT;
typedef unsigned long ul;
#define W extern "C" __attribute__((noinline))
typedef LAFEM::DenseVector<double, Index> DV; typedef LAFEM::DenseVector<Index, Index> IV; typedef LAFEM::SparseMatrixCSR<double, Index> CSR;
typedef LAFEM::UnitFilter<double, Index> UF;

static UF make_filter(ul n, ul used, const ul* fvals, const ul* fidx)
{
  const Index nn = Index(n), nu = Index(used);
  if(nu == Index(0)) { UF f(nn); return f; }
  DV e(nu); IV ix(nu);
  for(Index i = 0; i < nu; ++i) { std::memcpy(e.elements() + i, fvals + i, 8); ix.elements()[i] = Index(fidx[i]); }
  UF f(nn, e, ix);
  return f;
}

// op 0: filter_rhs   1: filter_sol   2: filter_def   3: filter_cor   4: filter_rhs twice   5: filter_def after filter_rhs
W long w_unit_vec(int op, ul n, ul used, const ul* fvals, const ul* fidx, const ul* vec, ul* out)
{
  UF f = make_filter(n, used, fvals, fidx);
  const Index nn = Index(n);
  DV v(nn);
  for(Index i = 0; i < nn; ++i) std::memcpy(v.elements() + i, vec + i, 8);
  switch(op)
  {
  case 0: f.filter_rhs(v); break;
  case 1: f.filter_sol(v); break;
  case 2: f.filter_def(v); break;
  case 3: f.filter_cor(v); break;
  case 4: f.filter_rhs(v); f.filter_rhs(v); break;
  default: f.filter_rhs(v); f.filter_def(v); break;
  }
  for(Index i = 0; i < nn; ++i) std::memcpy(out + i, v.elements() + i, 8);
  return 1;
}

// op 0: filter_mat   1: filter_offdiag_row_mat   2: filter_mat twice; square n x n CSR matrix (row pointer concrete per profile, column indices symbolic)
W long w_unit_mat(int op, ul n, ul used, const ul* fvals, const ul* fidx, ul nnz, const ul* rowptr, const ul* colind, const ul* vals, ul* out)
{
  UF f = make_filter(n, used, fvals, fidx);
  const Index nn = Index(n), nz = Index(nnz);
  CSR a(nn, nn, nz);
  for(Index k = 0; k < nz; ++k) { std::memcpy(a.val() + k, vals + k, 8); a.col_ind()[k] = Index(colind[k]); }
  for(Index i = 0; i <= nn; ++i) a.row_ptr()[i] = Index(rowptr[i]);
  switch(op)
  {
  case 0: f.filter_mat(a); break;
  case 1: f.filter_offdiag_row_mat(a); break;
  default: f.filter_mat(a); f.filter_mat(a); break;
  }
  for(Index k = 0; k < nz; ++k) std::memcpy(out + k, a.val() + k, 8);
  for(Index k = 0; k < nz; ++k) out[nz + k] = a.col_ind()[k];
  return 1;
}
