// C12 wrappers (E3): the real RootMeshNode::extract_patch (patch mesh part, patch mesh, neighbour ranks, halos) for EVERY rank of a
// cell-to-rank assignment given by the caller, followed by one joint refinement of every patch; Parti2Lvl.
// Everything observable is written as one token stream (layout documented at the write sites, parsed by checks/c12.py).
#include <kernel/base_header.hpp>
#include <kernel/geometry/conformal_mesh.hpp>
#include <kernel/geometry/mesh_part.hpp>
#include <kernel/geometry/mesh_node.hpp>
#include <kernel/geometry/parti_2lvl.hpp>
#include <kernel/adjacency/graph.hpp>
using namespace FEAT;
typedef unsigned long ul;
#define W extern "C" __attribute__((noinline))
extern "C" ul verif_choose(ul v);
#include "tables.inc"

template<typename S, int d2, int d1> struct IO
{
  typedef Geometry::IndexSetHolder<S> H;
  static void in(H& h, const ul*& p) { auto& is = h.template get_index_set<d2, d1>(); for(Index i = 0; i < is.get_num_entities(); ++i) for(int j = 0; j < is.get_num_indices(); ++j) is(i, j) = Index(*p++); if constexpr(d1 + 1 < d2) IO<S, d2, d1 + 1>::in(h, p); else if constexpr(d2 < S::dimension) IO<S, d2 + 1, 0>::in(h, p); }
  static void out(const H& h, ul*& p) { auto& is = h.template get_index_set<d2, d1>(); for(Index i = 0; i < is.get_num_entities(); ++i) for(int j = 0; j < is.get_num_indices(); ++j) *p++ = is(i, j); if constexpr(d1 + 1 < d2) IO<S, d2, d1 + 1>::out(h, p); else if constexpr(d2 < S::dimension) IO<S, d2 + 1, 0>::out(h, p); }
};
template<typename P, int d> struct TIO
{
  static void out(const P& part, ul*& p) { auto& ts = part.template get_target_set<d>(); for(Index i = 0; i < ts.get_num_entities(); ++i) *p++ = ts[i]; if constexpr(d < P::shape_dim) TIO<P, d + 1>::out(part, p); }
};

template<typename P, int d> struct TIOin
{
  static void in(P& part, const ul*& p) { auto& ts = part.template get_target_set<d>(); for(Index i = 0; i < ts.get_num_entities(); ++i) ts[i] = Index(*p++); if constexpr(d < P::shape_dim) TIOin<P, d + 1>::in(part, p); }
};

template<typename S> static long extract(const ul* cnt, const ul* data, ul nranks, const ul* rank_of_elem, ul* out, ul* out2)
{
  typedef Geometry::ConformalMesh<S, S::dimension, double> Mesh; typedef Geometry::MeshPart<Mesh> Part; typedef Geometry::RootMeshNode<Mesh> Node;
  constexpr int D = S::dimension;
  Index ne[D + 1]; for(int d = 0; d <= D; ++d) ne[d] = Index(cnt[d]);
  const Index nc = ne[D];
  // the assignment is decided value by value (executor forks over every assignment the validity predicate allows)
  std::vector<Index> roe(nc); for(Index c = 0; c < nc; ++c) roe[c] = Index(verif_choose(rank_of_elem[c]));
  // elements-at-rank graph
  std::vector<Index> ptr(nranks + 1, 0), idx(nc);
  for(Index c = 0; c < nc; ++c) ++ptr[roe[c] + 1];
  for(Index r = 0; r < nranks; ++r) ptr[r + 1] += ptr[r];
  { std::vector<Index> pos(ptr.begin(), ptr.end() - 1); for(Index c = 0; c < nc; ++c) idx[pos[roe[c]]++] = c; }
  Adjacency::Graph elems_at_rank(Index(nranks), nc, nc, ptr.data(), idx.data());
  ul* o = out; ul* o2 = out2;
  for(Index r = 0; r < nranks; ++r)
  {
    auto mesh = std::unique_ptr<Mesh>(new Mesh(ne));
    { auto& vs = mesh->get_vertex_set(); for(Index v = 0; v < ne[0]; ++v) for(int d = 0; d < D; ++d) vs[v][d] = (d == 0) ? double(1ul << v) : 0.0; }
    { const ul* p = data; IO<S, 1, 0>::in(mesh->get_index_set_holder(), p); }
    auto node = Node::make_unique(std::move(mesh));
    std::vector<int> comm;
    auto patch = node->extract_patch(comm, elems_at_rank, int(r));
    // stream 1: [#comm, comm ranks...] [patch counts 0..D] [patch->base targets, all dims] [patch mesh index sets] [8*x of patch vertices] { per comm rank: [halo counts 0..D] [halo targets (patch numbering), all dims] }
    *o++ = comm.size(); for(int c : comm) *o++ = ul(c);
    const Part* pp = node->get_patch(int(r));
    const Mesh* pm = patch->get_mesh();
    for(int d = 0; d <= D; ++d) *o++ = pm->get_num_entities(d);
    for(int d = 0; d <= D; ++d) *o++ = pp->get_num_entities(d);
    TIO<Part, 0>::out(*pp, o);
    IO<S, 1, 0>::out(pm->get_index_set_holder(), o);
    { auto& vs = pm->get_vertex_set(); for(Index v = 0; v < pm->get_num_entities(0); ++v) *o++ = ul(vs[v][0] * 8.0); }
    for(int c : comm)
    {
      const Part* h = patch->get_halo(c);
      if(h == nullptr) { *o++ = ~ul(0); continue; }
      for(int d = 0; d <= D; ++d) *o++ = h->get_num_entities(d);
      TIO<Part, 0>::out(*h, o);
    }
    // joint refinement of the patch (mesh + halos)
    auto fine = patch->refine_unique();
    // stream 2: [fine counts 0..D] [fine vertices-at-entity sets for d = 1..D] [64*x of fine vertices] { per comm rank: [fine halo counts] [fine halo targets] }
    const Mesh* fm = fine->get_mesh();
    for(int d = 0; d <= D; ++d) *o2++ = fm->get_num_entities(d);
    IO<S, 1, 0>::out(fm->get_index_set_holder(), o2);
    { auto& vs = fm->get_vertex_set(); for(Index v = 0; v < fm->get_num_entities(0); ++v) *o2++ = ul(vs[v][0] * 64.0); }
    for(int c : comm)
    {
      const Part* h = fine->get_halo(c);
      if(h == nullptr) { *o2++ = ~ul(0); continue; }
      for(int d = 0; d <= D; ++d) *o2++ = h->get_num_entities(d);
      TIO<Part, 0>::out(*h, o2);
    }
  }
  return long(o - out) * 100000 + long(o2 - out2);
}
W long w_extract(int shape, const ul* cnt, const ul* data, ul nranks, const ul* rank_of_elem, ul* out, ul* out2)
{
  switch(shape) { case 0: return extract<Shape::Hypercube<2>>(cnt, data, nranks, rank_of_elem, out, out2); case 1: return extract<Shape::Simplex<2>>(cnt, data, nranks, rank_of_elem, out, out2);
    case 2: return extract<Shape::Hypercube<3>>(cnt, data, nranks, rank_of_elem, out, out2); default: return extract<Shape::Simplex<3>>(cnt, data, nranks, rank_of_elem, out, out2); }
}

// two-level partitioner: number of cells concrete, requested rank count symbolic
template<typename S> static long parti2(ul ncells, ul nranks, ul* olvl, ul* ond, ul* oni, ul* optr, ul* oidx)
{
  typedef Geometry::ConformalMesh<S, S::dimension, double> Mesh;
  Index ne[S::dimension + 1]; for(int d = 0; d <= S::dimension; ++d) ne[d] = 1; ne[S::dimension] = Index(ncells);
  Mesh mesh(ne);
  Geometry::Parti2Lvl<Mesh> parti(mesh, Index(nranks));
  if(!parti.success()) return 0;
  *olvl = parti.parti_level();
  Adjacency::Graph g = parti.build_elems_at_rank();
  *ond = g.get_num_nodes_domain(); *oni = g.get_num_nodes_image();
  for(Index i = 0; i <= g.get_num_nodes_domain(); ++i) optr[i] = g.get_domain_ptr()[i];
  for(Index i = 0; i < g.get_num_indices(); ++i) oidx[i] = g.get_image_idx()[i];
  return 1;
}
W long w_parti2lvl(int shape, ul ncells, ul nranks, ul* olvl, ul* ond, ul* oni, ul* optr, ul* oidx)
{
  nranks = verif_choose(nranks);
  switch(shape) { case 0: return parti2<Shape::Hypercube<2>>(ncells, nranks, olvl, ond, oni, optr, oidx); case 1: return parti2<Shape::Simplex<2>>(ncells, nranks, olvl, ond, oni, optr, oidx);
    case 2: return parti2<Shape::Hypercube<3>>(ncells, nranks, olvl, ond, oni, optr, oidx); default: return parti2<Shape::Simplex<3>>(ncells, nranks, olvl, ond, oni, optr, oidx); }
}

// two-layer halo splitting: child c1 of parent P and child c2 of parent Q; H1 / H2 = halo of P towards Q / of Q towards P (same shared
// entities in the same order, numbered in P resp. Q); returns 0: c1 or c2 does not touch the halo, 1: no common entity, 2: halo created
template<typename S> static long halo_split(const ul* cntP, const ul* cntQ, const ul* c1cnt, const ul* c1trg, const ul* c2cnt, const ul* c2trg, const ul* hcnt, const ul* h1trg, const ul* h2trg, ul* ocnt, ul* otrg)
{
  typedef Geometry::ConformalMesh<S, S::dimension, double> Mesh; typedef Geometry::MeshPart<Mesh> Part;
  constexpr int D = S::dimension;
  Index neP[D + 1], neQ[D + 1], n1[D + 1], n2[D + 1], nh[D + 1];
  for(int d = 0; d <= D; ++d) { neP[d] = Index(cntP[d]); neQ[d] = Index(cntQ[d]); n1[d] = Index(c1cnt[d]); n2[d] = Index(c2cnt[d]); nh[d] = Index(hcnt[d]); }
  Mesh P(neP), Q(neQ);
  Part c1(n1, false), c2(n2, false), H1(nh, false), H2(nh, false);
  { const ul* p = c1trg; TIOin<Part, 0>::in(c1, p); } { const ul* p = c2trg; TIOin<Part, 0>::in(c2, p); }
  { const ul* p = h1trg; TIOin<Part, 0>::in(H1, p); } { const ul* p = h2trg; TIOin<Part, 0>::in(H2, p); }
  Geometry::PatchHaloSplitter<Mesh> s1(P, c1), s2(Q, c2);
  std::size_t a = s1.add_halo(1, H1), b = s2.add_halo(0, H2);
  if(a == 0 || b == 0) return 0;
  std::vector<Index> buf = s2.serialize_split_halo(0, 7);
  if(!s1.intersect_split_halo(1, buf, 0)) return 1;
  auto res = s1.make_unique();
  for(int d = 0; d <= D; ++d) ocnt[d] = res->get_num_entities(d);
  { ul* o = otrg; TIO<Part, 0>::out(*res, o); }
  return 2;
}
W long w_halo_split(int shape, const ul* cntP, const ul* cntQ, const ul* c1cnt, const ul* c1trg, const ul* c2cnt, const ul* c2trg, const ul* hcnt, const ul* h1trg, const ul* h2trg, ul* ocnt, ul* otrg)
{
  if(shape == 0) return halo_split<Shape::Hypercube<2>>(cntP, cntQ, c1cnt, c1trg, c2cnt, c2trg, hcnt, h1trg, h2trg, ocnt, otrg);
  return halo_split<Shape::Hypercube<3>>(cntP, cntQ, c1cnt, c1trg, c2cnt, c2trg, hcnt, h1trg, h2trg, ocnt, otrg);
}
