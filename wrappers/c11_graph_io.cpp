// C11 wrappers (E3): Graph::serialize / Graph(buffer) on flat arrays.
#include <kernel/base_header.hpp>
#include <kernel/adjacency/graph.hpp>
#include <vector>
#include <cstring>
using namespace FEAT; using namespace FEAT::Adjacency;
typedef unsigned long ul;
#define W extern "C" __attribute__((noinline))
static void dump_graph(const Graph& h, ul* ond, ul* oni, ul* onidx, ul* odp, ul* oii)
{
  *ond = h.get_num_nodes_domain(); *oni = h.get_num_nodes_image(); *onidx = h.get_num_indices();
  if(h.get_domain_ptr() != nullptr) for(Index i = 0; i <= *ond; ++i) odp[i] = h.get_domain_ptr()[i];
  for(Index i = 0; i < *onidx; ++i) oii[i] = h.get_image_idx()[i];
}
// serialize, report the buffer (as 64-bit words), deserialize again
W long w_graph_roundtrip(ul nd, ul ni, ul nidx, const ul* dp, const ul* ii, ul* obuf, ul* obytes, ul* ond, ul* oni, ul* onidx, ul* odp, ul* oii)
{
  Graph g(nd, ni, nidx, dp, ii);
  std::vector<char> buf = g.serialize();
  *obytes = buf.size();
  std::memcpy(obuf, buf.data(), buf.size());
  Graph h(buf);
  dump_graph(h, ond, oni, onidx, odp, oii);
  return 0;
}
// deserialize an arbitrary buffer of nwords 64-bit words
W long w_graph_deserialize(ul nwords, const ul* words, ul* ond, ul* oni, ul* onidx, ul* odp, ul* oii)
{
  std::vector<char> buf(nwords * 8u);
  if(nwords > 0) std::memcpy(buf.data(), words, nwords * 8u);
  Graph h(buf);
  dump_graph(h, ond, oni, onidx, odp, oii);
  return 0;
}
