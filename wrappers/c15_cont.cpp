// C15 wrapper (E3): inter-cell continuity of multi-DOF-per-entity elements (Lagrange3, and Lagrange2 as a control) on TWO hexahedra /
// quadrilaterals sharing a facet, for an arbitrary (symbolic) numbering of the second cell and of the shared facet / its edges.
// The real DofMapping and the real evaluators are executed in IEEE double (all values concrete); the mesh index sets are the symbolic part.
// For a sample of physical points on the shared facet the wrapper writes, per cell, the global dof number and the basis value of every
// local basis function; the check asserts that every global basis function is single-valued there.
#include <kernel/base_header.hpp>
#include <kernel/geometry/conformal_mesh.hpp>
#include <kernel/trafo/standard/mapping.hpp>
#include <kernel/space/lagrange2/element.hpp>
#include <kernel/space/lagrange3/element.hpp>
#include <kernel/assembly/asm_traits.hpp>
#include <cstring>
using namespace FEAT;
typedef unsigned long ul;
#define W extern "C" __attribute__((noinline))
extern "C" ul verif_choose(ul v);

template<typename S, int d2, int d1> struct IO
{
  typedef Geometry::IndexSetHolder<S> H;
  static void in(H& h, const ul*& p) { auto& is = h.template get_index_set<d2, d1>(); for(Index i = 0; i < is.get_num_entities(); ++i) for(int j = 0; j < is.get_num_indices(); ++j) is(i, j) = Index(verif_choose(*p++)); if constexpr(d1 + 1 < d2) IO<S, d2, d1 + 1>::in(h, p); else if constexpr(d2 < S::dimension) IO<S, d2 + 1, 0>::in(h, p); }
};
static inline ul bits(double x) { ul b; std::memcpy(&b, &x, 8); return b; }

// coords: nv * dim doubles as raw bits; pts: npts * dim physical points (raw bits) lying on the shared facet
// out per cell c (2 cells), per point q: [ndofs] then ndofs x (global dof, value bits)
template<typename S, template<typename> class Elem> static long cont(const ul* cnt, const ul* data, const ul* coords, ul npts, const ul* pts, ul* out)
{
  constexpr int dim = S::dimension;
  typedef Geometry::ConformalMesh<S, dim, double> Mesh; typedef Trafo::Standard::Mapping<Mesh> TrafoT; typedef Elem<TrafoT> SpaceT;
  typedef Assembly::AsmTraits1<double, SpaceT, TrafoTags::img_point | TrafoTags::jac_mat | TrafoTags::jac_inv | TrafoTags::jac_det, SpaceTags::value> AT;
  Index ne[dim + 1]; for(int d = 0; d <= dim; ++d) ne[d] = Index(cnt[d]);
  Mesh mesh(ne);
  { auto& vs = mesh.get_vertex_set(); for(Index v = 0; v < ne[0]; ++v) for(int d = 0; d < dim; ++d) { double x; std::memcpy(&x, &coords[v * dim + Index(d)], 8); vs[v][d] = x; } }
  { const ul* p = data; IO<S, 1, 0>::in(mesh.get_index_set_holder(), p); }
  TrafoT trafo(mesh); SpaceT space(trafo);
  typename AT::TrafoEvaluator trafo_eval(trafo); typename AT::SpaceEvaluator space_eval(space); typename AT::DofMapping dof_map(space);
  typename AT::TrafoEvalData td; typename AT::SpaceEvalData sd;
  ul* o = out;
  for(Index c = 0; c < ne[dim]; ++c)
  {
    trafo_eval.prepare(c); space_eval.prepare(trafo_eval); dof_map.prepare(c);
    const int n = space_eval.get_num_local_dofs();
    // the cells are affine images (parallelepipeds): reference point of x = J^{-1} (x - x(0))
    typename AT::TrafoEvaluator::DomainPointType zero; for(int d = 0; d < dim; ++d) zero[d] = 0.0;
    trafo_eval(td, zero);
    auto x0 = td.img_point; auto jinv = td.jac_inv;
    for(ul q = 0; q < npts; ++q)
    {
      typename AT::TrafoEvaluator::DomainPointType xi;
      for(int i = 0; i < dim; ++i) { double s = 0.0; for(int j = 0; j < dim; ++j) { double x; std::memcpy(&x, &pts[q * dim + ul(j)], 8); s += jinv(i, j) * (x - x0[j]); } xi[i] = s; }
      trafo_eval(td, xi); space_eval(sd, td);
      *o++ = ul(n);
      for(int i = 0; i < n; ++i) { *o++ = dof_map.get_index(i); *o++ = bits(sd.phi[i].value); }
    }
    dof_map.finish(); space_eval.finish(); trafo_eval.finish();
  }
  return long(o - out);
}
template<typename T> using L2 = Space::Lagrange2::Element<T>;
template<typename T> using L3 = Space::Lagrange3::Element<T>;
template<typename S> static long cont_s(int elem, const ul* cnt, const ul* data, const ul* coords, ul npts, const ul* pts, ul* out)
{
  return elem == 2 ? cont<S, L2>(cnt, data, coords, npts, pts, out) : cont<S, L3>(cnt, data, coords, npts, pts, out);
}
W long w_continuity(int shape, int elem, const ul* cnt, const ul* data, const ul* coords, ul npts, const ul* pts, ul* out)
{
  switch(shape) { case 0: return cont_s<Shape::Hypercube<2>>(elem, cnt, data, coords, npts, pts, out); case 1: return cont_s<Shape::Simplex<2>>(elem, cnt, data, coords, npts, pts, out);
    case 2: return cont_s<Shape::Hypercube<3>>(elem, cnt, data, coords, npts, pts, out); default: return cont_s<Shape::Simplex<3>>(elem, cnt, data, coords, npts, pts, out); }
}
#include "tables.inc"
