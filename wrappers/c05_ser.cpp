// C05 wrappers (E3): binary serialisation round trips of the real LAFEM containers (values are raw 64-bit patterns, never interpreted)
// and the real CheckpointControl collect / load / restore path with several registered objects.
#include <kernel/base_header.hpp>
#include <kernel/lafem/dense_vector.hpp>
#include <kernel/lafem/dense_vector_blocked.hpp>
#include <kernel/lafem/sparse_vector.hpp>
#include <kernel/lafem/sparse_matrix_csr.hpp>
#include <kernel/lafem/sparse_matrix_cscr.hpp>
#include <kernel/lafem/sparse_matrix_bcsr.hpp>
#include <kernel/lafem/sparse_matrix_banded.hpp>
#include <kernel/lafem/dense_matrix.hpp>
#include <kernel/util/binary_stream.hpp>
#include <kernel/util/dist.hpp>
#include <cstring>
#include <map>
#include <memory>
#include <tuple>
// the checkpoint control keeps its (de)serialisation routines private: the harness needs to drive them without the file system
#define private public
#include <control/checkpoint_control.hpp>
#undef private
using namespace FEAT;
typedef unsigned long ul;
#define W extern "C" __attribute__((noinline))

// raw dump of a container: [#element arrays][sizes...][#index arrays][sizes...][#scalar index][values...][#scalar dt][bits...] then all element bits, all indices
template<typename C> static ul* dump(const C& c, ul* o)
{
  *o++ = c.get_elements().size(); for(auto s : c.get_elements_size()) *o++ = s;
  *o++ = c.get_indices().size(); for(auto s : c.get_indices_size()) *o++ = s;
  *o++ = c.get_scalar_index().size(); for(auto s : c.get_scalar_index()) *o++ = s;
  *o++ = c.get_scalar_dt().size(); for(auto s : c.get_scalar_dt()) { ul b; std::memcpy(&b, &s, 8); *o++ = b; }
  for(std::size_t a = 0; a < c.get_elements().size(); ++a) { const ul* p = reinterpret_cast<const ul*>(c.get_elements()[a]); for(Index i = 0; i < c.get_elements_size()[a]; ++i) *o++ = p[i]; }
  for(std::size_t a = 0; a < c.get_indices().size(); ++a) { const ul* p = reinterpret_cast<const ul*>(c.get_indices()[a]); for(Index i = 0; i < c.get_indices_size()[a]; ++i) *o++ = p[i]; }
  return o;
}
// fill every element / index array of a freshly constructed container from the flat inputs (in dump order)
template<typename C> static void fill(C& c, const ul* vals, const ul* idxs)
{
  for(std::size_t a = 0; a < c.get_elements().size(); ++a) { ul* p = reinterpret_cast<ul*>(c.get_elements()[a]); for(Index i = 0; i < c.get_elements_size()[a]; ++i) p[i] = *vals++; }
  for(std::size_t a = 0; a < c.get_indices().size(); ++a) { ul* p = reinterpret_cast<ul*>(c.get_indices()[a]); for(Index i = 0; i < c.get_indices_size()[a]; ++i) p[i] = *idxs++; }
}
typedef LAFEM::DenseVector<double, Index> DV; typedef LAFEM::DenseVectorBlocked<double, Index, 2> DVB; typedef LAFEM::SparseVector<double, Index> SV;
typedef LAFEM::SparseMatrixCSR<double, Index> CSR; typedef LAFEM::SparseMatrixCSCR<double, Index> CSCR; typedef LAFEM::SparseMatrixBCSR<double, Index, 2, 2> BCSR;
typedef LAFEM::SparseMatrixBanded<double, Index> BAND; typedef LAFEM::DenseMatrix<double, Index> DM;

// kind: 0 DenseVector(n=a) 1 DenseVectorBlocked<2>(a) 2 SparseVector(size a, used b) 3 CSR(rows a, cols b, used c) 4 CSCR(rows a, cols b, used c, used rows d)
//       5 BCSR<2,2>(a,b,c) 6 Banded(rows a, cols b, offsets c) 7 DenseMatrix(a,b)
template<typename C, typename IT2> static long roundtrip_obj(C& x, ul* o1, ul* o2, ul* osize);
template<typename C, typename IT2, typename... A> static long roundtrip(const ul* vals, const ul* idxs, ul* o1, ul* o2, ul* osize, A... args)
{
  C x(args...);
  fill(x, vals, idxs);
  return roundtrip_obj<C, IT2>(x, o1, o2, osize);
}
template<typename C, typename IT2> static long roundtrip_obj(C& x, ul* o1, ul* o2, ul* osize)
{
  dump(x, o1);
  std::vector<char> buf = x.template serialize<double, IT2>();
  *osize = buf.size();
  C y;
  y.template deserialize<double, IT2>(buf);
  dump(y, o2);
  return 1;
}
template<typename IT2> static long rt_kind(int kind, ul a, ul b, ul c, ul d, const ul* vals, const ul* idxs, ul* o1, ul* o2, ul* osize)
{
  switch(kind)
  {
  case 0: return roundtrip<DV, IT2>(vals, idxs, o1, o2, osize, Index(a));
  case 1: return roundtrip<DVB, IT2>(vals, idxs, o1, o2, osize, Index(a));
  case 2:
  {
    const Index ib = Index(b); DV e(ib); LAFEM::DenseVector<Index, Index> ix(ib);
    for(Index i = 0; i < ib; ++i) { reinterpret_cast<ul*>(e.elements())[i] = vals[i]; ix.elements()[i] = Index(idxs[i]); }
    SV x(Index(a), e, ix, true);
    return roundtrip_obj<SV, IT2>(x, o1, o2, osize);
  }
  case 3: return roundtrip<CSR, IT2>(vals, idxs, o1, o2, osize, Index(a), Index(b), Index(c));
  case 4: return roundtrip<CSCR, IT2>(vals, idxs, o1, o2, osize, Index(a), Index(b), Index(c), Index(d));
  case 5: return roundtrip<BCSR, IT2>(vals, idxs, o1, o2, osize, Index(a), Index(b), Index(c));
  case 6:
  {
    // a rows, b columns, c offsets (symbolic, valid: offset + 2 <= rows + columns)
    const Index ia = Index(a), ic = Index(c); DV e(ia * ic); LAFEM::DenseVector<Index, Index> of(ic);
    for(Index i = 0; i < ia * ic; ++i) reinterpret_cast<ul*>(e.elements())[i] = vals[i];
    for(Index i = 0; i < ic; ++i) of.elements()[i] = Index(idxs[i]);
    BAND x(ia, Index(b), e, of);
    return roundtrip_obj<BAND, IT2>(x, o1, o2, osize);
  }
  case 7: return roundtrip<DM, IT2>(vals, idxs, o1, o2, osize, Index(a), Index(b));
  default: return 0;
  }
}
W long w_roundtrip(int kind, int narrow_index, ul a, ul b, ul c, ul d, const ul* vals, const ul* idxs, ul* o1, ul* o2, ul* osize)
{
  return narrow_index ? rt_kind<unsigned int>(kind, a, b, c, d, vals, idxs, o1, o2, osize) : rt_kind<Index>(kind, a, b, c, d, vals, idxs, o1, o2, osize);
}

// checkpoint with up to three objects: a DenseVector (n0 values), a CSR matrix (rows x cols, used) and a second DenseVector (n2 values);
// identifiers are 'a' * len0, 'm' * len1, 'z' * len2 (len = 0: object not registered).  route 0: collect -> restore directly on the buffer;
// route 1: collect -> [length][bytes] as written by save(BinaryStream&) -> real load(BinaryStream&) -> restore
W long w_checkpoint(int route, ul len0, ul len1, ul len2, ul n0, ul rows, ul cols, ul used, ul n2, const ul* vals, const ul* idxs, ul* o1, ul* o2, ul* osize)
{
  Dist::Comm comm = Dist::Comm::world();
  const Index in0 = Index(n0), irows = Index(rows), icols = Index(cols), iused = Index(used), in2 = Index(n2);
  DV v0(in0); CSR m1(irows, icols, iused); DV v2(in2);
  const ul* pv = vals; const ul* pi = idxs;
  fill(v0, pv, pi); pv += n0; fill(m1, pv, pi); pv += used; pi += used + rows + 1; fill(v2, pv, pi);
  char ta[48], tm[48], tz[48]; for(int i = 0; i < 48; ++i) { ta[i] = 'a'; tm[i] = 'm'; tz[i] = 'z'; }
  String id0(ta, std::size_t(len0)), id1(tm, std::size_t(len1)), id2(tz, std::size_t(len2));
  ul* o = o1; if(len0) o = dump(v0, o); if(len1) o = dump(m1, o); if(len2) o = dump(v2, o);
  std::vector<char> buffer;
  {
    Control::CheckpointControl cp(comm);
    if(len0) cp.add_object(id0, v0); if(len1) cp.add_object(id1, m1); if(len2) cp.add_object(id2, v2);
    *osize = cp._collect_checkpoint_data(buffer);
  }
  DV w0; CSR n1; DV w2;
  Control::CheckpointControl cq(comm);
  BinaryStream bs;
  if(route == 0) { cq._input_array = buffer; cq._restore_checkpoint_data(); }
  else
  {
    // the two writes of save(BinaryStream&): total length, then the bytes
    std::uint64_t slen = buffer.size(); auto& cont = bs.container(); cont.resize(sizeof(slen) + buffer.size());
    std::memcpy(cont.data(), &slen, sizeof(slen)); if(!buffer.empty()) std::memcpy(cont.data() + sizeof(slen), buffer.data(), buffer.size());
    cq.load(bs);
  }
  // restore in an order different from the storage order
  if(len2) cq.restore_object(id2, w2, false); if(len0) cq.restore_object(id0, w0, false); if(len1) cq.restore_object(id1, n1, false);
  o = o2; if(len0) o = dump(w0, o); if(len1) o = dump(n1, o); if(len2) o = dump(w2, o);
  return long(o - o2);
}
