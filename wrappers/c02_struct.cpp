// C02 wrappers (E3, structural slice): transposition / deep clone / permutation of a real SparseMatrixCSR whose column indices (and permutations)
// are symbolic; values are raw 64-bit patterns that are only moved.
#include <kernel/base_header.hpp>
#include <kernel/lafem/sparse_matrix_csr.hpp>
#include <kernel/lafem/sparse_matrix_cscr.hpp>
#include <kernel/lafem/sparse_matrix_banded.hpp>
#include <kernel/adjacency/permutation.hpp>
#include <kernel/adjacency/graph.hpp>
#include <cstring>
using namespace FEAT;
typedef unsigned long ul;
#define W extern "C" __attribute__((noinline))
extern "C" ul verif_choose(ul v);   // executor: fork over the feasible values; identity in the native build
typedef LAFEM::SparseMatrixCSR<double, Index> CSR;

static void fill(CSR& a, ul rows, ul used, const ul* vals, const ul* rowptr, const ul* colind)
{
  for(ul k = 0; k < used; ++k) { std::memcpy(a.val() + k, vals + k, 8); a.col_ind()[k] = Index(colind[k]); }
  for(ul i = 0; i <= rows; ++i) a.row_ptr()[i] = Index(rowptr[i]);
}
// out: [rows][cols][used][row_ptr (rows+1)][col_ind (used)][val bits (used)]
static void dump(const CSR& t, ul* out)
{
  const Index tu = Index(verif_choose(t.used_elements()));
  *out++ = t.rows(); *out++ = t.columns(); *out++ = tu;
  if(t.row_ptr() == nullptr) return;
  for(Index i = 0; i <= t.rows(); ++i) *out++ = t.row_ptr()[i];
  for(Index k = 0; k < tu; ++k) *out++ = t.col_ind()[k];
  for(Index k = 0; k < tu; ++k) { ul b; std::memcpy(&b, t.val() + k, 8); *out++ = b; }
}

// op 0: t.transpose(a)   op 1: t = a.transpose()   op 2: t = a.clone(Deep)   op 3: t = a.clone(Shallow) after which a is destroyed
// op 4: CSR -> CSCR -> CSR   op 5: CSR -> Banded -> CSR (pattern may grow by explicit zeros)   op 6: layout rebuilt from Graph(as_is, a), values copied
W long w_struct(int op, ul rows, ul cols, ul used, const ul* vals, const ul* rowptr, const ul* colind, ul* out)
{
  CSR t;
  {
    const Index nr = Index(rows), nc = Index(cols), nu = Index(used);
    CSR a(nr, nc, nu);
    fill(a, rows, used, vals, rowptr, colind);
    switch(op)
    {
    case 0: t.transpose(a); break;
    case 1: t = a.transpose(); break;
    case 2: t = a.clone(LAFEM::CloneMode::Deep); break;
    case 3: t = a.clone(LAFEM::CloneMode::Shallow); break;
    case 4: { LAFEM::SparseMatrixCSCR<double, Index> c; c.convert(a); t.convert(c); break; }
    case 5: { LAFEM::SparseMatrixBanded<double, Index> b; b.convert(a); t.convert(b); break; }
    default: { Adjacency::Graph g(Adjacency::RenderType::as_is, a); CSR u(g); for(Index k = 0; k < u.used_elements(); ++k) u.val()[k] = a.val()[k]; t = std::move(u); break; }
    }
  }
  dump(t, out);
  return 1;
}

// t = a permuted by the row permutation pr and the column permutation pc (both given as permutation arrays)
W long w_permute(ul rows, ul cols, ul used, const ul* vals, const ul* rowptr, const ul* colind, const ul* pr, const ul* pc, ul* out)
{
  const Index nr = Index(rows), nc = Index(cols), nu = Index(used);
  CSR a(nr, nc, nu);
  fill(a, rows, used, vals, rowptr, colind);
  Adjacency::Permutation prow(nr, Adjacency::Permutation::ConstrType::perm, reinterpret_cast<const Index*>(pr));
  Adjacency::Permutation pcol(nc, Adjacency::Permutation::ConstrType::perm, reinterpret_cast<const Index*>(pc));
  a.permute(prow, pcol);
  dump(a, out);
  return 1;
}
