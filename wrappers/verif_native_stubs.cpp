// native definitions of the executor directives used by wrapper TUs (identity functions in a native build)
extern "C" unsigned long verif_choose(unsigned long v) { return v; }
