// C19 wrappers (E3): flat-array entry points around the real Adjacency classes.  No property logic here: a wrapper only
// moves data between caller-provided arrays and FEAT objects built through FEAT's own constructors.
#include <kernel/base_header.hpp>
#include <kernel/adjacency/graph.hpp>
#include <kernel/adjacency/permutation.hpp>
#include <kernel/adjacency/coloring.hpp>
#include <kernel/adjacency/cuthill_mckee.hpp>
using namespace FEAT; using namespace FEAT::Adjacency;
typedef unsigned long ul;
#define W extern "C" __attribute__((noinline))

static void dump_graph(const Graph& h, ul* ond, ul* oni, ul* onidx, ul* odp, ul* oii)
{
  *ond = h.get_num_nodes_domain(); *oni = h.get_num_nodes_image(); *onidx = h.get_num_indices();
  if(h.get_domain_ptr() != nullptr) for(Index i = 0; i <= *ond; ++i) odp[i] = h.get_domain_ptr()[i];
  for(Index i = 0; i < *onidx; ++i) oii[i] = h.get_image_idx()[i];
}

// single-adjactor render
W long w_graph_render(int rt, ul nd, ul ni, ul nidx, const ul* dp, const ul* ii, ul* ond, ul* oni, ul* onidx, ul* odp, ul* oii)
{
  Graph g(nd, ni, nidx, dp, ii);
  Graph h((RenderType)rt, g);
  dump_graph(h, ond, oni, onidx, odp, oii);
  return 0;
}
// composite render of two adjactors g1: D -> M, g2: M -> I
W long w_graph_render2(int rt, ul nd, ul nm, ul nidx1, const ul* dp1, const ul* ii1, ul ni, ul nidx2, const ul* dp2, const ul* ii2, ul* ond, ul* oni, ul* onidx, ul* odp, ul* oii)
{
  Graph g1(nd, nm, nidx1, dp1, ii1), g2(nm, ni, nidx2, dp2, ii2);
  Graph h((RenderType)rt, g1, g2);
  dump_graph(h, ond, oni, onidx, odp, oii);
  return 0;
}
W long w_graph_sort(ul nd, ul ni, ul nidx, const ul* dp, const ul* ii, ul* ond, ul* oni, ul* onidx, ul* odp, ul* oii)
{
  Graph g(nd, ni, nidx, dp, ii);
  g.sort_indices();
  dump_graph(g, ond, oni, onidx, odp, oii);
  return 0;
}
W long w_graph_degree(ul nd, ul ni, ul nidx, const ul* dp, const ul* ii, ul* odeg)
{
  Graph g(nd, ni, nidx, dp, ii);
  odeg[0] = g.degree();
  for(Index i = 0; i < nd; ++i) odeg[1 + i] = g.degree(i);
  return 0;
}
// permuted copy; permutations given as permute-position arrays
W long w_graph_permute(ul nd, ul ni, ul nidx, const ul* dp, const ul* ii, const ul* pd, const ul* pi, ul* ond, ul* oni, ul* onidx, ul* odp, ul* oii)
{
  Graph g(nd, ni, nidx, dp, ii);
  Permutation P(nd, Permutation::ConstrType::perm, pd), Q(ni, Permutation::ConstrType::perm, pi);
  Graph h(g, P, Q);
  dump_graph(h, ond, oni, onidx, odp, oii);
  return 0;
}
// permutation from any representation -> perm and swap arrays, inverse, application to an array (copying and in situ, forward and inverse)
W long w_perm(ul n, int ctype, const ul* v, const ul* data, ul* operm, ul* oswap, ul* oinvperm, ul* oapplied, ul* oapplied_inv, ul* oinsitu, ul* oinsitu_inv)
{
  Permutation P(n, (Permutation::ConstrType)ctype, v);
  for(Index i = 0; i < n; ++i) { operm[i] = P.get_perm_pos()[i]; oswap[i] = P.get_swap_pos()[i]; }
  Permutation Pi = P.inverse();
  for(Index i = 0; i < n; ++i) oinvperm[i] = Pi.get_perm_pos()[i];
  P.apply(oapplied, data, false); P.apply(oapplied_inv, data, true);
  for(Index i = 0; i < n; ++i) { oinsitu[i] = data[i]; oinsitu_inv[i] = data[i]; }
  P.apply(oinsitu, false); P.apply(oinsitu_inv, true);
  return 0;
}
W long w_perm_concat(ul n, const ul* p1, const ul* p2, ul* operm)
{
  Permutation P(n, Permutation::ConstrType::perm, p1), Q(n, Permutation::ConstrType::perm, p2);
  P.concat(Q);
  for(Index i = 0; i < n; ++i) operm[i] = P.get_perm_pos()[i];
  return 0;
}
W long w_coloring(ul nd, ul nidx, const ul* dp, const ul* ii, int with_order, const ul* order, ul* ocol, ul* oncol, ul* pnd, ul* pni, ul* pnidx, ul* pdp, ul* pii)
{
  Graph g(nd, nd, nidx, dp, ii);
  Coloring c = with_order ? Coloring(g, order) : Coloring(g);
  *oncol = c.get_num_colors();
  for(Index i = 0; i < c.get_num_nodes(); ++i) ocol[i] = c.get_coloring()[i];
  Graph p = c.create_partition_graph();
  dump_graph(p, pnd, pni, pnidx, pdp, pii);
  return long(c.get_num_nodes());
}
W long w_cuthill_mckee(ul nd, ul nidx, const ul* dp, const ul* ii, int reverse, int rtype, int stype, ul* operm, ul* olayers, ul* onlayers)
{
  Graph g(nd, nd, nidx, dp, ii);
  std::vector<Index> layers;
  Permutation P = CuthillMcKee::compute(layers, g, reverse != 0, (CuthillMcKee::RootType)rtype, (CuthillMcKee::SortType)stype);
  for(Index i = 0; i < P.size(); ++i) operm[i] = P.get_perm_pos()[i];
  *onlayers = layers.size();
  for(std::size_t i = 0; i < layers.size() && i < nd + 2; ++i) olayers[i] = layers[i];
  return long(P.size());
}
