// C17 wrappers (E3): the real DomainAssembler work-distribution builders on a quadrilateral mesh whose vertices-at-cell relation is
// given by the caller (geometry is irrelevant for these functions).  A derived class only exposes the protected result arrays.
#include <kernel/base_header.hpp>
#include <kernel/geometry/conformal_mesh.hpp>
#include <kernel/trafo/standard/mapping.hpp>
#include <kernel/assembly/domain_assembler.hpp>
using namespace FEAT;
typedef unsigned long ul;
#define W extern "C" __attribute__((noinline))
extern "C" ul verif_choose(ul v);   // executor directive: concretise v by forking (identity in a native build)
typedef Geometry::ConformalMesh<Shape::Hypercube<2>, 2, double> Mesh;
typedef Trafo::Standard::Mapping<Mesh> TrafoT;
struct Probe : public Assembly::DomainAssembler<TrafoT>
{
  explicit Probe(const TrafoT& t) : Assembly::DomainAssembler<TrafoT>(t) {}
  const std::vector<Index>& elems() const { return this->_element_indices; }
  const std::vector<Index>& layers() const { return this->_layer_elements; }
  const std::vector<Index>& tlayers() const { return this->_thread_layers; }
  const std::vector<Index>& colors() const { return this->_color_elements; }
  std::size_t workers() const { return this->_num_worker_threads; }
  int strategy() const { return int(this->_strategy); }
};
// strategy: 0 automatic, 1 single, 2 layered, 3 layered_sorted, 4 colored (enum order of ThreadingStrategy)
W long w_compile(ul nverts, ul ncells, const ul* vert_at_cell, ul nsel, const ul* selected, int strategy, ul max_threads,
  ul* oworkers, ul* onelem, ul* oelems, ul* onlay, ul* olayers, ul* ontl, ul* otlayers, ul* oncol, ul* ocolors)
{
  // case split on the two symbolic configuration scalars: the executor forks over every value the path condition allows
  max_threads = verif_choose(max_threads); strategy = int(verif_choose(ul(strategy)));
  Index ne[3] = {Index(nverts), Index(1), Index(ncells)};
  Mesh mesh(ne);
  auto& vc = mesh.get_index_set<2, 0>();
  for(Index c = 0; c < ncells; ++c) for(int j = 0; j < 4; ++j) vc(c, j) = Index(vert_at_cell[4 * c + Index(j)]);
  TrafoT trafo(mesh);
  Probe pa(trafo);
  pa.set_threading_strategy(Assembly::ThreadingStrategy(strategy));
  pa.set_max_worker_threads(std::size_t(max_threads));
  if(nsel == ncells) pa.compile_all_elements();
  else { for(ul i = 0; i < nsel; ++i) pa.add_element(Index(selected[i])); pa.compile(); }
  *oworkers = pa.workers();
  *onelem = pa.elems().size(); for(std::size_t i = 0; i < pa.elems().size(); ++i) oelems[i] = pa.elems()[i];
  *onlay = pa.layers().size(); for(std::size_t i = 0; i < pa.layers().size(); ++i) olayers[i] = pa.layers()[i];
  *ontl = pa.tlayers().size(); for(std::size_t i = 0; i < pa.tlayers().size(); ++i) otlayers[i] = pa.tlayers()[i];
  *oncol = pa.colors().size(); for(std::size_t i = 0; i < pa.colors().size(); ++i) ocolors[i] = pa.colors()[i];
  return long(pa.strategy());
}
