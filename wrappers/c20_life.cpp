// C20 wrappers (E3): container lifetime operations on the REAL MemoryPool (its std::map is executed from libstdc++'s header code;
// the three out-of-line red-black-tree primitives are modelled by the executor as plain BST operations).
#include <kernel/base_header.hpp>
#include <kernel/util/memory_pool.hpp>
#include <kernel/lafem/dense_vector.hpp>
#include <kernel/lafem/sparse_matrix_csr.hpp>
using namespace FEAT; using namespace FEAT::LAFEM;
typedef unsigned long ul;
#define W extern "C" __attribute__((noinline))
typedef DenseVector<double, Index> DV;
typedef SparseMatrixCSR<double, Index> CSR;

// pool size in bytes and number of chunks
static ul pool_bytes() { return MemoryPool::allocated_memory(); }

// a bounded history of lifetime operations over up to 3 vector slots; ops[k] selects the operation, a[k], b[k] its operands
// 0: slot a := DenseVector(n_a)         1: slot a := clone(slot b, mode m)     2: slot a.clear()      3: slot a := move(slot b)
// 4: slot a := range view of slot b     5: write slot a[0] = value              6: slot a.convert(slot b) (shallow share)
W long w_vector_history(ul nops, const ul* ops, const ul* a, const ul* b, const ul* m, ul* obytes_end, ul* ovals, ul* osizes)
{
  {
    DV s[3]; bool view[3] = {false, false, false}; ul owner[3] = {0, 0, 0};
    // documented contract of range views: deep-clone only, never convert from them, and they must not be used after their owner gave up
    // the array; the driver therefore drops the views of a slot before that slot is re-assigned / cleared (a view's clear() releases nothing)
    auto drop_views = [&](ul o) { for(ul v = 0; v < 3; ++v) if(view[v] && owner[v] == o) { s[v].clear(); view[v] = false; } };
    for(ul k = 0; k < nops; ++k)
    {
      const ul ia = a[k] % 3, ib = b[k] % 3; DV& x = s[ia]; DV& y = s[ib];
      switch(ops[k])
      {
      case 0: drop_views(ia); x = DV(Index(2 + a[k] % 3), double(k + 1)); view[ia] = false; break;
      case 1: if(&x != &y) { drop_views(ia); if(view[ib] && owner[ib] == ia) break; x.clone(y, view[ib] ? CloneMode::Deep : CloneMode(m[k] % 5)); view[ia] = false; } break;
      case 2: drop_views(ia); x.clear(); view[ia] = false; break;
      case 3: if(&x != &y) { drop_views(ia); if(view[ib] && owner[ib] == ia) { y.clear(); view[ib] = false; break; } x = std::move(y); view[ia] = view[ib]; owner[ia] = owner[ib]; view[ib] = false; for(ul v = 0; v < 3; ++v) if(view[v] && owner[v] == ib && v != ia) owner[v] = ia; } break;
      case 4: if(&x != &y && y.size() >= 2 && !view[ib]) { drop_views(ia); x = DV(y, y.size() - 1, 1); view[ia] = true; owner[ia] = ib; } break;
      case 5: if(x.size() > 0) x(0, double(100 + k)); break;
      case 6: if(&x != &y && !view[ib]) { drop_views(ia); x.convert(y); view[ia] = false; } break;
      default: break;
      }
    }
    for(int i = 0; i < 3; ++i) { osizes[i] = s[i].size(); ovals[i] = 0ul; /* element values of Layout/Allocate clones are uninitialised by design: not read */ }
  }
  *obytes_end = pool_bytes();
  return 0;
}
// direct pool protocol: allocate / increase / release sequences
W long w_pool_history(ul nops, const ul* ops, const ul* slot, ul* obytes, ul* ocount_end)
{
  void* p[3] = {nullptr, nullptr, nullptr}; ul refs[3] = {0, 0, 0};
  for(ul k = 0; k < nops; ++k)
  {
    ul i = slot[k] % 3;
    switch(ops[k])
    {
    case 0: if(p[i] == nullptr) { p[i] = MemoryPool::allocate_memory<double>(Index(3 + i)); refs[i] = 1; } break;
    case 1: if(p[i] != nullptr) { MemoryPool::increase_memory(p[i]); ++refs[i]; } break;
    case 2: if(p[i] != nullptr) { MemoryPool::release_memory(p[i]); if(--refs[i] == 0) p[i] = nullptr; } break;
    default: break;
    }
    obytes[k] = pool_bytes();
  }
  // release everything that is still referenced
  for(int i = 0; i < 3; ++i) while(refs[i] > 0) { MemoryPool::release_memory(p[i]); --refs[i]; }
  *ocount_end = pool_bytes();
  return 0;
}

// matrix / layout lifetimes: 0: A := 2x2 CSR with 3 entries   1: B := CSR(A.layout())   2: move-construct a layout object from A's layout and drop both
// 3: B.clone(A, mode)   4: B.clear()   5: C := move(A)   6: A.clone(C, mode)   7: keep a moved layout alive while its source matrix is destroyed first
// 8: move-assign B's layout onto an object holding A's layout
W long w_matrix_history(ul nops, const ul* ops, const ul* m, ul* obytes_end)
{
  {
    CSR A, B, Cc; bool va_ = false, vb_ = false, vc_ = false;   // "holds a matrix" flags (a cleared container has no dimensions to ask for)
    std::vector<SparseLayout<Index, SparseLayoutId::lt_csr>> keep;
    for(ul k = 0; k < nops; ++k)
    {
      switch(ops[k])
      {
      case 0:
        {
          DenseVector<Index, Index> ci(3), rp(3); DV va(3);
          ci(0, 0); ci(1, 1); ci(2, 1); rp(0, 0); rp(1, 2); rp(2, 3); va(0, 1.0); va(1, 2.0); va(2, 3.0);
          A = CSR(2, 2, ci, va, rp); va_ = true;
        }
        break;
      case 1: if(va_) { B = CSR(A.layout()); vb_ = true; } break;
      case 2: if(va_) { auto lay = A.layout(); SparseLayout<Index, SparseLayoutId::lt_csr> lay2(std::move(lay)); } break;
      case 3: if(va_) { B.clone(A, CloneMode(m[k] % 4)); vb_ = true; } break;
      case 4: B.clear(); vb_ = false; break;
      case 5: Cc = std::move(A); vc_ = va_; va_ = false; break;
      case 6: if(vc_) { A.clone(Cc, CloneMode(m[k] % 4)); va_ = true; } break;
      case 7: if(va_) { auto lay = A.layout(); keep.push_back(std::move(lay)); } break;
      case 8: if(va_ && vb_) { auto la = A.layout(); auto lb = B.layout(); la = std::move(lb); } break;   // move-assign onto a layout that already holds arrays
      default: break;
      }
    }
    // touch the index arrays of every live matrix (use-after-free shows up here)
    ul acc = 0;
    if(va_) acc += A.row_ptr()[2] + A.col_ind()[0];
    if(vb_) acc += B.row_ptr()[2] + B.col_ind()[0];
    if(vc_) acc += Cc.row_ptr()[2] + Cc.col_ind()[0];
    obytes_end[1] = acc;
  }
  obytes_end[0] = pool_bytes();
  return 0;
}
