// C10 wrappers (E3): the real index representative / congruency kernels, the real StandardRefinery for conformal meshes and mesh parts,
// the real topology deduction, and mesh / mesh-part permutation, driven through flat index arrays.
// Flat layout of an index-set holder of shape S: for d2 = 1..dim, for d1 = 0..d2-1: num_entities[d2] rows of nfaces(S,d2,d1) indices.
#include <kernel/base_header.hpp>
#include <kernel/geometry/conformal_mesh.hpp>
#include <kernel/geometry/mesh_part.hpp>
#include <kernel/geometry/intern/index_representative.hpp>
#include <kernel/geometry/intern/congruency_sampler.hpp>
#include <kernel/geometry/intern/congruency_mapping.hpp>
#include <kernel/geometry/intern/face_index_mapping.hpp>
using namespace FEAT;
typedef unsigned long ul;
#define W extern "C" __attribute__((noinline))
extern "C" ul verif_choose(ul v);

// ---------------------------------------------------------------- leaf kernels
// kind: 0 Hypercube<1>, 1 Hypercube<2>, 2 Simplex<1>, 3 Simplex<2>; computes the representative of in and of in o sigma
W long w_idxrep(int kind, const ul* in, const ul* sigma, ul* out1, ul* out2)
{
  Index a[4], b[4], r1[4] = {0, 0, 0, 0}, r2[4] = {0, 0, 0, 0};
  const int n = (kind == 1) ? 4 : (kind == 3 ? 3 : 2);
  for(int i = 0; i < n; ++i) { a[i] = in[i]; b[i] = in[sigma[i]]; }
  switch(kind)
  {
  case 0: Geometry::Intern::IndexRepresentative<Shape::Hypercube<1>>::compute(r1, a); Geometry::Intern::IndexRepresentative<Shape::Hypercube<1>>::compute(r2, b); break;
  case 1: Geometry::Intern::IndexRepresentative<Shape::Hypercube<2>>::compute(r1, a); Geometry::Intern::IndexRepresentative<Shape::Hypercube<2>>::compute(r2, b); break;
  case 2: Geometry::Intern::IndexRepresentative<Shape::Simplex<1>>::compute(r1, a); Geometry::Intern::IndexRepresentative<Shape::Simplex<1>>::compute(r2, b); break;
  default: Geometry::Intern::IndexRepresentative<Shape::Simplex<2>>::compute(r1, a); Geometry::Intern::IndexRepresentative<Shape::Simplex<2>>::compute(r2, b); break;
  }
  for(int i = 0; i < n; ++i) { out1[i] = r1[i]; out2[i] = r2[i]; }
  return n;
}

// orientation code of trg relative to src and the vertex / edge maps the code stands for; omap0/omap1 get -1 where not applicable
template<typename S, bool edges> static long congr(const ul* src, const ul* trg, long* omap0, long* omap1)
{
  constexpr int nv = Shape::FaceTraits<S, 0>::count;
  Index s[nv], t[nv]; for(int i = 0; i < nv; ++i) { s[i] = src[i]; t[i] = trg[i]; }
  int code = int(long(verif_choose(ul(long(Geometry::Intern::CongruencySampler<S>::compare(s, t))))));   // executor: fork over the code values
  if(code < 0) return code;
  for(int i = 0; i < nv; ++i) omap0[i] = Geometry::Intern::CongruencyMapping<S, 0>::map(code, i);
  if constexpr(edges) { constexpr int ne = Shape::FaceTraits<S, 1>::count; for(int i = 0; i < ne; ++i) omap1[i] = Geometry::Intern::CongruencyMapping<S, 1>::map(code, i); }
  return code + 100 * Geometry::Intern::CongruencySampler<S>::orientation(code);
}
W long w_congruency(int kind, const ul* src, const ul* trg, long* omap0, long* omap1)
{
  for(int i = 0; i < 4; ++i) { omap0[i] = -1; omap1[i] = -1; }
  switch(kind)
  {
  case 0: return congr<Shape::Hypercube<1>, false>(src, trg, omap0, omap1);
  case 1: return congr<Shape::Hypercube<2>, true>(src, trg, omap0, omap1);
  case 2: return congr<Shape::Simplex<1>, false>(src, trg, omap0, omap1);
  default: return congr<Shape::Simplex<2>, true>(src, trg, omap0, omap1);
  }
}

#include "tables.inc"

// ---------------------------------------------------------------- flat <-> index set holder
static int g_eager = 0;   // 1: decide every symbolic input index at once (executor forks over the values the validity predicate allows)
static inline ul pick(ul v) { return g_eager ? verif_choose(v) : v; }
template<typename S, int d2, int d1> struct IO
{
  typedef Geometry::IndexSetHolder<S> H;
  static void in(H& h, const ul*& p) { auto& is = h.template get_index_set<d2, d1>(); for(Index i = 0; i < is.get_num_entities(); ++i) for(int j = 0; j < is.get_num_indices(); ++j) is(i, j) = Index(pick(*p++)); next_in(h, p); }
  static void out(const H& h, ul*& p) { auto& is = h.template get_index_set<d2, d1>(); for(Index i = 0; i < is.get_num_entities(); ++i) for(int j = 0; j < is.get_num_indices(); ++j) *p++ = is(i, j); next_out(h, p); }
  static void next_in(H& h, const ul*& p) { if constexpr(d1 + 1 < d2) IO<S, d2, d1 + 1>::in(h, p); else if constexpr(d2 < S::dimension) IO<S, d2 + 1, 0>::in(h, p); }
  static void next_out(const H& h, ul*& p) { if constexpr(d1 + 1 < d2) IO<S, d2, d1 + 1>::out(h, p); else if constexpr(d2 < S::dimension) IO<S, d2 + 1, 0>::out(h, p); }
};
template<typename P, int d> struct TIO
{
  static void in(P& part, const ul*& p) { auto& ts = part.template get_target_set<d>(); for(Index i = 0; i < ts.get_num_entities(); ++i) ts[i] = Index(*p++); if constexpr(d < P::shape_dim) TIO<P, d + 1>::in(part, p); }
  static void out(const P& part, ul*& p) { auto& ts = part.template get_target_set<d>(); for(Index i = 0; i < ts.get_num_entities(); ++i) *p++ = ts[i]; if constexpr(d < P::shape_dim) TIO<P, d + 1>::out(part, p); }
};

template<typename S> static void set_coords(Geometry::ConformalMesh<S, S::dimension, double>& mesh)
{
  auto& vs = mesh.get_vertex_set();
  // generic position: x_v = 2^v, so that the mean of every vertex subset identifies the subset (exact in double for v < 45)
  for(Index v = 0; v < mesh.get_num_entities(0); ++v) for(int d = 0; d < S::dimension; ++d) vs[v][d] = (d == 0) ? double(1ul << v) : 0.0;
}

// refine a conformal mesh once (real StandardRefinery through the real Factory constructor)
// 8 * first coordinate of every vertex (exact integer for the coordinates chosen above)
template<typename M> static void out_coords(const M& mesh, ul* oc) { auto& vs = mesh.get_vertex_set(); for(Index v = 0; v < mesh.get_num_entities(0); ++v) oc[v] = ul(vs[v][0] * 8.0); }
template<typename S> static long refine(const ul* cnt, const ul* data, ul* ocnt, ul* odata, ul* ocoords)
{
  typedef Geometry::ConformalMesh<S, S::dimension, double> Mesh;
  Index ne[S::dimension + 1]; for(int d = 0; d <= S::dimension; ++d) ne[d] = Index(cnt[d]);
  Mesh mesh(ne); set_coords<S>(mesh);
  const ul* p = data; IO<S, 1, 0>::in(mesh.get_index_set_holder(), p);
  Geometry::StandardRefinery<Mesh> refinery(mesh);
  Mesh fine(refinery);
  for(int d = 0; d <= S::dimension; ++d) ocnt[d] = fine.get_num_entities(d);
  ul* q = odata; IO<S, 1, 0>::out(fine.get_index_set_holder(), q);
  out_coords(fine, ocoords);
  return long(q - odata);
}
W long w_refine(int shape, int eager, const ul* cnt, const ul* data, ul* ocnt, ul* odata, ul* ocoords)
{
  g_eager = eager;
  switch(shape) { case 0: return refine<Shape::Hypercube<2>>(cnt, data, ocnt, odata, ocoords); case 1: return refine<Shape::Simplex<2>>(cnt, data, ocnt, odata, ocoords);
    case 2: return refine<Shape::Hypercube<3>>(cnt, data, ocnt, odata, ocoords); default: return refine<Shape::Simplex<3>>(cnt, data, ocnt, odata, ocoords); }
}

// refine a mesh together with one attached mesh part (with or without its own topology)
template<typename S> static long refine_part(const ul* cnt, const ul* data, const ul* pcnt, int ptopo, const ul* pdata, const ul* ptrg, ul* ocnt, ul* odata, ul* ocoords, ul* opcnt, ul* opdata, ul* optrg)
{
  typedef Geometry::ConformalMesh<S, S::dimension, double> Mesh; typedef Geometry::MeshPart<Mesh> Part;
  Index ne[S::dimension + 1], pe[S::dimension + 1]; for(int d = 0; d <= S::dimension; ++d) { ne[d] = Index(cnt[d]); pe[d] = Index(pcnt[d]); }
  Mesh mesh(ne); set_coords<S>(mesh);
  const ul* p = data; IO<S, 1, 0>::in(mesh.get_index_set_holder(), p);
  Part part(pe, ptopo != 0);
  if(ptopo != 0) { const ul* pp = pdata; IO<S, 1, 0>::in(*part.get_topology(), pp); }
  { const ul* pt = ptrg; TIO<Part, 0>::in(part, pt); }
  Geometry::StandardRefinery<Mesh> refinery(mesh);
  Mesh fine(refinery);
  Geometry::StandardRefinery<Part> prefinery(part, mesh);
  Part pfine(prefinery);
  for(int d = 0; d <= S::dimension; ++d) { ocnt[d] = fine.get_num_entities(d); opcnt[d] = pfine.get_num_entities(d); }
  ul* q = odata; IO<S, 1, 0>::out(fine.get_index_set_holder(), q);
  out_coords(fine, ocoords);
  if(pfine.has_topology()) { ul* q2 = opdata; IO<S, 1, 0>::out(*pfine.get_topology(), q2); }
  { ul* q3 = optrg; TIO<Part, 0>::out(pfine, q3); }
  return pfine.has_topology() ? 1 : 0;
}
W long w_refine_part(int shape, int eager, const ul* cnt, const ul* data, const ul* pcnt, int ptopo, const ul* pdata, const ul* ptrg, ul* ocnt, ul* odata, ul* ocoords, ul* opcnt, ul* opdata, ul* optrg)
{
  g_eager = eager;
  switch(shape) { case 0: return refine_part<Shape::Hypercube<2>>(cnt, data, pcnt, ptopo, pdata, ptrg, ocnt, odata, ocoords, opcnt, opdata, optrg); case 1: return refine_part<Shape::Simplex<2>>(cnt, data, pcnt, ptopo, pdata, ptrg, ocnt, odata, ocoords, opcnt, opdata, optrg);
    case 2: return refine_part<Shape::Hypercube<3>>(cnt, data, pcnt, ptopo, pdata, ptrg, ocnt, odata, ocoords, opcnt, opdata, optrg); default: return refine_part<Shape::Simplex<3>>(cnt, data, pcnt, ptopo, pdata, ptrg, ocnt, odata, ocoords, opcnt, opdata, optrg); }
}

// custom mesh permutation (forward permutations given per dimension; use[d] == 0: that dimension is not permuted) applied to a mesh and to one attached part
template<typename S> static long permute(const ul* cnt, const ul* data, const ul* pcnt, int ptopo, const ul* pdata, const ul* ptrg, const ul* use, const ul* perms, ul* odata, ul* ocoords, ul* optrg)
{
  typedef Geometry::ConformalMesh<S, S::dimension, double> Mesh; typedef Geometry::MeshPart<Mesh> Part;
  Index ne[S::dimension + 1], pe[S::dimension + 1]; for(int d = 0; d <= S::dimension; ++d) { ne[d] = Index(cnt[d]); pe[d] = Index(pcnt[d]); }
  Mesh mesh(ne); set_coords<S>(mesh);
  const ul* p = data; IO<S, 1, 0>::in(mesh.get_index_set_holder(), p);
  Part part(pe, ptopo != 0);
  if(ptopo != 0) { const ul* pp = pdata; IO<S, 1, 0>::in(*part.get_topology(), pp); }
  { const ul* pt = ptrg; TIO<Part, 0>::in(part, pt); }
  Geometry::MeshPermutation<S> mp;
  auto& pa = mp.create_other();
  const ul* q = perms;
  for(int d = 0; d <= S::dimension; ++d)
  {
    if(use[d] != 0) { std::vector<Index> tmp(ne[d]); for(Index i = 0; i < ne[d]; ++i) tmp[i] = Index(pick(q[i])); pa.at(std::size_t(d)) = Adjacency::Permutation(ne[d], Adjacency::Permutation::ConstrType::perm, tmp.data()); }
    q += ne[d];
  }
  mp.create_inverse_permutations();
  mesh.set_permutation(std::move(mp));
  part.permute(mesh.get_mesh_permutation());
  ul* o = odata; IO<S, 1, 0>::out(mesh.get_index_set_holder(), o);
  out_coords(mesh, ocoords);
  { ul* q3 = optrg; TIO<Part, 0>::out(part, q3); }
  return long(o - odata);
}
W long w_permute(int shape, int eager, const ul* cnt, const ul* data, const ul* pcnt, int ptopo, const ul* pdata, const ul* ptrg, const ul* use, const ul* perms, ul* odata, ul* ocoords, ul* optrg)
{
  g_eager = eager;
  switch(shape) { case 0: return permute<Shape::Hypercube<2>>(cnt, data, pcnt, ptopo, pdata, ptrg, use, perms, odata, ocoords, optrg); case 1: return permute<Shape::Simplex<2>>(cnt, data, pcnt, ptopo, pdata, ptrg, use, perms, odata, ocoords, optrg);
    case 2: return permute<Shape::Hypercube<3>>(cnt, data, pcnt, ptopo, pdata, ptrg, use, perms, odata, ocoords, optrg); default: return permute<Shape::Simplex<3>>(cnt, data, pcnt, ptopo, pdata, ptrg, use, perms, odata, ocoords, optrg); }
}

// boundary: (a) BoundaryFactory on the coarse mesh, (b) that part refined alongside the mesh, (c) BoundaryFactory on the refined mesh
#include <kernel/geometry/boundary_factory.hpp>
template<typename S> static long boundary(const ul* cnt, const ul* data, ul* obc, ul* obt, ul* ofc, ul* orc, ul* ort, ul* ofbc, ul* ofbt)
{
  typedef Geometry::ConformalMesh<S, S::dimension, double> Mesh; typedef Geometry::MeshPart<Mesh> Part;
  Index ne[S::dimension + 1]; for(int d = 0; d <= S::dimension; ++d) ne[d] = Index(cnt[d]);
  Mesh mesh(ne); set_coords<S>(mesh);
  const ul* p = data; IO<S, 1, 0>::in(mesh.get_index_set_holder(), p);
  Geometry::BoundaryFactory<Mesh> bf(mesh); Part bnd(bf);
  for(int d = 0; d <= S::dimension; ++d) obc[d] = bnd.get_num_entities(d);
  { ul* q = obt; TIO<Part, 0>::out(bnd, q); }
  Geometry::StandardRefinery<Mesh> refinery(mesh); Mesh fine(refinery);
  for(int d = 0; d <= S::dimension; ++d) ofc[d] = fine.get_num_entities(d);
  Geometry::StandardRefinery<Part> prefinery(bnd, mesh); Part rbnd(prefinery);
  for(int d = 0; d <= S::dimension; ++d) orc[d] = rbnd.get_num_entities(d);
  { ul* q = ort; TIO<Part, 0>::out(rbnd, q); }
  Geometry::BoundaryFactory<Mesh> bff(fine); Part fbnd(bff);
  for(int d = 0; d <= S::dimension; ++d) ofbc[d] = fbnd.get_num_entities(d);
  { ul* q = ofbt; TIO<Part, 0>::out(fbnd, q); }
  return 0;
}
W long w_boundary(int shape, int eager, const ul* cnt, const ul* data, ul* obc, ul* obt, ul* ofc, ul* orc, ul* ort, ul* ofbc, ul* ofbt)
{
  g_eager = eager;
  switch(shape) { case 0: return boundary<Shape::Hypercube<2>>(cnt, data, obc, obt, ofc, orc, ort, ofbc, ofbt); case 1: return boundary<Shape::Simplex<2>>(cnt, data, obc, obt, ofc, orc, ort, ofbc, ofbt);
    case 2: return boundary<Shape::Hypercube<3>>(cnt, data, obc, obt, ofc, orc, ort, ofbc, ofbt); default: return boundary<Shape::Simplex<3>>(cnt, data, obc, obt, ofc, orc, ort, ofbc, ofbt); }
}
