// C07 (E2, further solver families): the generic solver obligations of c07_e2.cpp (reported final defect == true residual, rhs untouched,
// apply ignores / correct honours the start vector, repeated solves agree) for FGMRES(k), GMRES(k), BiCGStab(l), IDR(s), RGCR, PMR, PSD, PCGNR (PipePCG / GroppPCG / RBiCGStab need the asynchronous
// dot products of Global::Vector and are outside) on symbolic 2x2 (thorough 3x3) systems.
#define C07_EXTRA_SOLVERS 1
#include "c07_e2.cpp"
#include <kernel/solver/gmres.hpp>
#include <kernel/solver/bicgstabl.hpp>
#include <kernel/solver/idrs.hpp>
#include <kernel/solver/rgcr.hpp>
#include <kernel/solver/pmr.hpp>
#include <kernel/solver/psd.hpp>
#include <kernel/solver/pcgnr.hpp>

template<typename DT>
void run_all()
{
  typedef LAFEM::SparseMatrixCSR<DT, Index> MT; typedef LAFEM::NoneFilter<DT, Index> FT;
  const Index n = Index(g_level > 1 ? 3 : 2);
  for(int mi = 1; mi <= int(n) - 1 + (g_level > 1 ? 0 : 0); ++mi)
  {
    solver_cases<DT>("fgmres(2)", n, false, mi, [](const MT& A, const FT& f) { return Solver::new_fgmres(A, f, Index(2)); }, 1e-8, 1);   // restarted methods do not interrupt the last inner iteration of a cycle: the count may exceed the limit by one (not claimed)
    solver_cases<DT>("gmres(2)", n, false, mi, [](const MT& A, const FT& f) { return Solver::new_gmres(A, f, Index(2)); }, 1e-8, 1);
    if(mi == 1) solver_cases<DT>("bicgstabl(2)", Index(3), false, mi,   /* one BiCGStab(2) iteration spans a 2-dimensional Krylov space: n = 3 avoids exact termination */ [](const MT& A, const FT& f) { return Solver::new_bicgstabl(A, f, 2); });
    solver_cases<DT>("idrs(2)", n, false, mi, [](const MT& A, const FT& f) { return Solver::new_idrs(A, f, Index(2)); });
    solver_cases<DT>("rgcr", n, false, mi, [](const MT& A, const FT& f) { return Solver::new_rgcr(A, f); });
    solver_cases<DT>("pmr", n, true, mi, [](const MT& A, const FT& f) { return Solver::new_pmr(A, f); });
    solver_cases<DT>("psd", n, true, mi, [](const MT& A, const FT& f) { return Solver::new_psd(A, f); });
    solver_cases<DT>("pcgnr", n, false, mi, [](const MT& A, const FT& f) { return Solver::new_pcgnr(A, f); });
  }
}

int main(int argc, char** argv)
{
  int na = argc;
  for(int i = 1; i < argc; ++i) if(std::string(argv[i]) == "--bounds" && i + 1 < argc) { g_level = atoi(argv[i + 1]); na = i; }
  return vh::main_dispatch(na, argv, [&] { run_all<vsym::SymReal>(); }, [&] {
#ifdef VH_REPLAY
    run_all<double>();
#endif
  });
}
