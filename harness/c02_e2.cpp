// C02 (E2): transposition, cloning (all modes, also across index types), conversion between formats, permutation and
// rebuilding from a graph on the real LAFEM classes with a symbolic scalar.  Patterns / permutations / modes are swept,
// values are free reals; layout validity is checked on the concrete index arrays of each run.
#include "feat_helpers.hpp"
#include <kernel/lafem/sparse_matrix_bcsr.hpp>
#include <kernel/lafem/sparse_matrix_cscr.hpp>
#include <kernel/lafem/sparse_matrix_banded.hpp>
#include <kernel/lafem/dense_matrix.hpp>
#include <kernel/adjacency/permutation.hpp>
#include <kernel/adjacency/graph.hpp>
#include <algorithm>
#include <cstdint>
using namespace FEAT; using namespace vh;
static int g_maxdim = 3, g_maxnnz = 4;
template<typename DT, typename IT = Index> using CSR = LAFEM::SparseMatrixCSR<DT, IT>;

template<typename DT, typename MT> std::string valid_csr(const MT& m)
{
  if(m.used_elements() == 0) return "";
  auto* rp = m.row_ptr(); auto* ci = m.col_ind();
  if(Index(rp[0]) != 0) return "row_ptr[0] != 0";
  for(Index i = 0; i < m.rows(); ++i)
  {
    if(rp[i + 1] < rp[i]) return "row_ptr not monotone";
    for(Index k = Index(rp[i]); k < Index(rp[i + 1]); ++k) { if(Index(ci[k]) >= m.columns()) return "column index out of range"; if(k > Index(rp[i]) && ci[k] <= ci[k - 1]) return "columns not strictly sorted"; }
  }
  if(Index(rp[m.rows()]) != m.used_elements()) return "row_ptr[rows] != used_elements";
  return "";
}
template<typename DT> void same_dense(const std::string& what, const Dense<DT>& got, const Dense<DT>& exp)
{
  H<DT>::fact(what + " dimensions", got.size() == exp.size() && (got.empty() || got[0].size() == exp[0].size()), "got " + str(Index(got.size())) + " rows");
  if(got.size() != exp.size()) return;
  for(size_t i = 0; i < got.size(); ++i) for(size_t j = 0; j < got[i].size() && j < exp[i].size(); ++j) H<DT>::eq(what + "[" + str(Index(i)) + "," + str(Index(j)) + "]", got[i][j], exp[i][j]);
}

template<typename DT>
void transpose_cases(Index rows, Index cols, const Pattern& p)
{
  std::string cn = "csr transpose " + str(rows) + "x" + str(cols) + " [" + pat_str(p) + "]"; if(!H<DT>::want(cn)) return;
  H<DT>::begin(cn, "{\"op\":\"transpose\"}");
  Dense<DT> D; auto A = make_csr<DT>(rows, cols, p, "a", &D);
  int rc = guarded([&] {
    CSR<DT> T; T.transpose(A);
    H<DT>::fact("transposed rows == columns of source", T.rows() == cols, "rows=" + str(T.rows()) + " expected " + str(cols));
    H<DT>::fact("transposed columns == rows of source", T.columns() == rows, "columns=" + str(T.columns()) + " expected " + str(rows));
    H<DT>::fact("used elements kept", T.used_elements() == A.used_elements());
    std::string v = valid_csr<DT>(T); H<DT>::fact("transposed layout valid", v.empty(), v);
    if(T.rows() == cols && T.columns() == rows) { auto G = csr_to_dense<DT>(T); for(Index i = 0; i < rows; ++i) for(Index j = 0; j < cols; ++j) H<DT>::eq("T[" + str(j) + "," + str(i) + "]", G[j][i], D[i][j]); }
    CSR<DT> TT = T.transpose(); same_dense<DT>("double transpose", csr_to_dense<DT>(TT), D);
    std::string v2 = valid_csr<DT>(TT); H<DT>::fact("double transposed layout valid", v2.empty(), v2);
    same_dense<DT>("source unchanged", csr_to_dense<DT>(A), D);
  });
  H<DT>::fact("completes", rc == 0, rc == 2 ? "memory fault" : "abort");
  H<DT>::end();
}

template<typename DT, typename IT1, typename IT2>
void clone_cases(Index rows, Index cols, const Pattern& p, const std::string& itn)
{
  if(nnz(p) == 0) return;
  static const char* mn[] = {"Shallow", "Layout", "Weak", "Deep", "Allocate"};
  for(int mode = 0; mode < 5; ++mode)
  {
    std::string cn = "csr clone " + itn + " mode=" + mn[mode] + " " + str(rows) + "x" + str(cols) + " [" + pat_str(p) + "]"; if(!H<DT>::want(cn)) continue;
    H<DT>::begin(cn, "{\"op\":\"clone\",\"mode\":\"" + std::string(mn[mode]) + "\"}");
    Dense<DT> D; auto A = make_csr<DT, IT1>(rows, cols, p, "a", &D);
    int rc = guarded([&] {
      CSR<DT, IT2> B; B.clone(A, LAFEM::CloneMode(mode));
      H<DT>::fact("dimensions", B.rows() == rows && B.columns() == cols && B.used_elements() == A.used_elements());
      bool same_it = std::is_same<IT1, IT2>::value;
      bool val_shared = (void*)B.val() == (void*)A.val();
      bool idx_shared = (void*)B.col_ind() == (void*)A.col_ind() && (void*)B.row_ptr() == (void*)A.row_ptr();
      if(mode == 0) { H<DT>::fact("shallow clone aliases the value array", val_shared); if(same_it) H<DT>::fact("shallow clone aliases the index arrays", idx_shared); }
      else H<DT>::fact("non-shallow clone has its own value array", !val_shared);
      if((mode == 1 || mode == 2) && same_it) H<DT>::fact("layout/weak clone shares the index arrays", idx_shared);
      if(mode >= 3) H<DT>::fact("deep/allocate clone has its own index arrays", (void*)B.col_ind() != (void*)A.col_ind() && (void*)B.row_ptr() != (void*)A.row_ptr());
      if(mode != 4) { std::string v = valid_csr<DT>(B); H<DT>::fact("clone layout valid", v.empty(), v); }
      if(mode == 0 || mode == 2 || mode == 3) same_dense<DT>("clone represents the same matrix", csr_to_dense<DT>(B), D);
      if(mode != 4 && mode != 1)
      {
        // write through the clone: the source must not change unless the clone is shallow
        for(Index k = 0; k < B.used_elements(); ++k) B.val()[k] = H<DT>::var("w" + str(k), -3.0 - double(k));
        if(mode == 0) { for(Index k = 0; k < A.used_elements(); ++k) H<DT>::eq("shallow: write visible in source [" + str(k) + "]", A.val()[k], H<DT>::var("w" + str(k), 0)); }
        else same_dense<DT>("source unchanged by writes to the clone", csr_to_dense<DT>(A), D);
      }
      else if(mode == 1)
      {
        for(Index k = 0; k < B.used_elements(); ++k) B.val()[k] = H<DT>::var("w" + str(k), -3.0 - double(k));
        same_dense<DT>("source unchanged by writes to the layout clone", csr_to_dense<DT>(A), D);
      }
    });
    H<DT>::fact("completes", rc == 0, rc == 2 ? "memory fault" : "abort");
    H<DT>::end();
  }
}

template<typename DT>
void convert_cases(Index rows, Index cols, const Pattern& p)
{
  if(nnz(p) == 0) return;
  std::string cfg = str(rows) + "x" + str(cols) + " [" + pat_str(p) + "]";
  auto run = [&](const std::string& nm, std::function<void(const CSR<DT>&, const Dense<DT>&)> body) {
    std::string cn = "convert " + nm + " " + cfg; if(!H<DT>::want(cn)) return;
    H<DT>::begin(cn, "{\"op\":\"convert\"}"); Dense<DT> D; auto A = make_csr<DT>(rows, cols, p, "a", &D);
    int rc = guarded([&] { body(A, D); same_dense<DT>("source unchanged", csr_to_dense<DT>(A), D); });
    H<DT>::fact("completes", rc == 0, rc == 2 ? "memory fault" : "abort"); H<DT>::end(); };
  run("csr->cscr->csr", [&](const CSR<DT>& A, const Dense<DT>& D) {
    int pr = survives([&] { LAFEM::SparseMatrixCSCR<DT, Index> C0; C0.convert(A); CSR<DT> B0; B0.convert(C0); });
    H<DT>::fact("conversion chain completes", pr == 0, pr == 2 ? "crash (signal)" : "XASSERT/XABORT reached"); if(pr != 0) return;
    LAFEM::SparseMatrixCSCR<DT, Index> C; C.convert(A);
    H<DT>::fact("cscr dimensions", C.rows() == rows && C.columns() == cols && C.used_elements() == A.used_elements());
    Index ur = 0; for(auto& r : p) if(!r.empty()) ++ur; H<DT>::fact("cscr used rows == non-empty rows", C.used_rows() == ur, str(C.used_rows()));
    CSR<DT> B; B.convert(C); std::string v = valid_csr<DT>(B); H<DT>::fact("layout valid", v.empty(), v); same_dense<DT>("round trip", csr_to_dense<DT>(B), D); });
  run("csr->banded->csr", [&](const CSR<DT>& A, const Dense<DT>& D) {
    LAFEM::SparseMatrixBanded<DT, Index> Bd; Bd.convert(A); H<DT>::fact("banded dimensions", Bd.rows() == rows && Bd.columns() == cols);
    Dense<DT> G = dense_zero<DT>(rows, cols); for(Index i = 0; i < rows; ++i) for(Index j = 0; j < cols; ++j) G[i][j] = Bd(i, j);
    same_dense<DT>("banded represents the same matrix", G, D);
    for(Index k = 1; k < Bd.num_of_offsets(); ++k) H<DT>::fact("offsets strictly increasing", Bd.offsets()[k] > Bd.offsets()[k - 1]);
    CSR<DT> B; B.convert(Bd); std::string v = valid_csr<DT>(B); H<DT>::fact("layout valid", v.empty(), v); same_dense<DT>("round trip", csr_to_dense<DT>(B), D); });
  run("csr(u64)->csr(u32)->csr(u64)", [&](const CSR<DT>& A, const Dense<DT>& D) {
    CSR<DT, std::uint32_t> B; B.convert(A); std::string v = valid_csr<DT>(B); H<DT>::fact("u32 layout valid", v.empty(), v); same_dense<DT>("u32 copy", csr_to_dense<DT>(B), D);
    CSR<DT> Cc; Cc.convert(B); same_dense<DT>("round trip", csr_to_dense<DT>(Cc), D); });
  run("csr->graph->csr layout", [&](const CSR<DT>& A, const Dense<DT>&) {
    Adjacency::Graph g(Adjacency::RenderType::as_is, A); CSR<DT> B(g);
    H<DT>::fact("dimensions", B.rows() == rows && B.columns() == cols && B.used_elements() == A.used_elements());
    std::string v = valid_csr<DT>(B); H<DT>::fact("layout valid", v.empty(), v);
    bool same = true; for(Index i = 0; i <= rows; ++i) same = same && B.row_ptr()[i] == A.row_ptr()[i]; for(Index k = 0; k < A.used_elements(); ++k) same = same && B.col_ind()[k] == A.col_ind()[k];
    H<DT>::fact("same pattern", same); });
  run("csr layout -> new matrix", [&](const CSR<DT>& A, const Dense<DT>&) {
    CSR<DT> B(A.layout()); H<DT>::fact("dimensions", B.rows() == rows && B.columns() == cols && B.used_elements() == A.used_elements());
    H<DT>::fact("index arrays shared", B.col_ind() == A.col_ind() && B.row_ptr() == A.row_ptr()); H<DT>::fact("own value array", B.val() != A.val()); });
  if(rows <= 2 && cols <= 2) run("csr -> bcsr(1x1 blocks via graph) -> csr", [&](const CSR<DT>& A, const Dense<DT>& D) {
    // BCSR with 2x2 blocks built on the same block pattern, converted to scalar CSR: every block entry becomes a scalar entry
    typedef LAFEM::SparseMatrixBCSR<DT, Index, 2, 2> MT; Dense<DT> DB; MT Bm = make_bcsr<DT, Index, 2, 2, MT>(rows, cols, p, "b", &DB);
    CSR<DT> S; S.convert(Bm); H<DT>::fact("dimensions", S.rows() == 2 * rows && S.columns() == 2 * cols && S.used_elements() == 4 * Bm.used_elements());
    std::string v = valid_csr<DT>(S); H<DT>::fact("layout valid", v.empty(), v); same_dense<DT>("bcsr -> csr", csr_to_dense<DT>(S), DB); (void)D; (void)A; });
}

template<typename DT>
void permute_cases(Index rows, Index cols, const Pattern& p)
{
  if(nnz(p) == 0) return;
  std::vector<Index> pr(rows); for(Index i = 0; i < rows; ++i) pr[i] = i;
  do
  {
    std::vector<Index> pc(cols); for(Index i = 0; i < cols; ++i) pc[i] = i;
    do
    {
      std::string cn = "csr permute rows[" + join(pr) + "] cols[" + join(pc) + "] " + str(rows) + "x" + str(cols) + " [" + pat_str(p) + "]"; if(!H<DT>::want(cn)) continue;
      H<DT>::begin(cn, "{\"op\":\"permute\"}");
      Dense<DT> D; auto A = make_csr<DT>(rows, cols, p, "a", &D);
      int rc = guarded([&] {
        Adjacency::Permutation P(rows, Adjacency::Permutation::ConstrType::perm, pr.data()), Q(cols, Adjacency::Permutation::ConstrType::perm, pc.data());
        A.permute(P, Q);
        std::string v = valid_csr<DT>(A); H<DT>::fact("layout valid after permute", v.empty(), v);
        auto G = csr_to_dense<DT>(A);
        for(Index i = 0; i < rows; ++i) for(Index j = 0; j < cols; ++j) H<DT>::eq("B[" + str(i) + "," + str(j) + "] = A[p(i),q(j)]", G[i][j], D[pr[i]][pc[j]]);
        Adjacency::Permutation Pi = P.inverse(), Qi = Q.inverse();
        A.permute(Pi, Qi); std::string v2 = valid_csr<DT>(A); H<DT>::fact("layout valid after inverse permute", v2.empty(), v2);
        same_dense<DT>("permute then inverse permute", csr_to_dense<DT>(A), D);
      });
      H<DT>::fact("completes", rc == 0, rc == 2 ? "memory fault" : "abort");
      H<DT>::end();
    } while(std::next_permutation(pc.begin(), pc.end()));
  } while(std::next_permutation(pr.begin(), pr.end()));
}

template<typename DT>
void dense_cases()
{
  typedef LAFEM::DenseMatrix<DT, Index> DM;
  for(Index r = 1; r <= 3; ++r) for(Index c = 1; c <= 3; ++c)
  {
    // target shapes: empty, already transposed shape, same size but other shape, unrelated
    std::vector<std::pair<Index, Index>> targets = {{0, 0}, {c, r}, {r, c}, {1, r * c}, {r * c, 1}, {2, 2}};
    for(auto& t : targets)
    {
      std::string cn = "dense transpose " + str(r) + "x" + str(c) + " into target " + str(t.first) + "x" + str(t.second); if(!H<DT>::want(cn)) continue;
      H<DT>::begin(cn, "{\"op\":\"dense transpose\"}");
      DM X(r, c); Dense<DT> D = dense_zero<DT>(r, c); for(Index i = 0; i < r; ++i) for(Index j = 0; j < c; ++j) { DT v = H<DT>::var("a" + str(i * c + j), 1.25 - 0.4375 * double(i * c + j)); X(i, j, v); D[i][j] = v; }
      int rc = guarded([&] {
        DM T; if(t.first * t.second > 0) { DM tmp(t.first, t.second, DT(0)); T = std::move(tmp); }
        T.transpose(X);
        H<DT>::fact("rows swapped", T.rows() == c, "rows=" + str(T.rows())); H<DT>::fact("columns swapped", T.columns() == r, "columns=" + str(T.columns()));
        if(T.rows() == c && T.columns() == r) for(Index i = 0; i < r; ++i) for(Index j = 0; j < c; ++j) H<DT>::eq("T[" + str(j) + "," + str(i) + "]", T(j, i), D[i][j]);
        for(Index i = 0; i < r; ++i) for(Index j = 0; j < c; ++j) H<DT>::eq("source unchanged[" + str(i) + "," + str(j) + "]", X(i, j), D[i][j]);
      });
      H<DT>::fact("completes", rc == 0, rc == 2 ? "memory fault" : "abort");
      H<DT>::end();
    }
    {
      std::string cn = "dense transpose_inplace " + str(r) + "x" + str(c); if(!H<DT>::want(cn)) continue;
      H<DT>::begin(cn, "{\"op\":\"dense transpose_inplace\"}");
      DM X(r, c); Dense<DT> D = dense_zero<DT>(r, c); for(Index i = 0; i < r; ++i) for(Index j = 0; j < c; ++j) { DT v = H<DT>::var("a" + str(i * c + j), 1.25 - 0.4375 * double(i * c + j)); X(i, j, v); D[i][j] = v; }
      int rc = guarded([&] { X.transpose_inplace(); H<DT>::fact("dimensions swapped", X.rows() == c && X.columns() == r);
        if(X.rows() == c && X.columns() == r) for(Index i = 0; i < r; ++i) for(Index j = 0; j < c; ++j) H<DT>::eq("T[" + str(j) + "," + str(i) + "]", X(j, i), D[i][j]); });
      H<DT>::fact("completes", rc == 0, rc == 2 ? "memory fault" : "abort");
      H<DT>::end();
    }
  }
}

template<typename DT>
void run_all()
{
  for(Index rows = 0; rows <= Index(g_maxdim); ++rows) for(Index cols = 0; cols <= Index(g_maxdim); ++cols)
  {
    if(rows * cols > 6) continue;
    for(auto& p : all_patterns(rows, cols, Index(g_maxnnz)))
    {
      transpose_cases<DT>(rows, cols, p);
      if(rows >= 1 && cols >= 1) { convert_cases<DT>(rows, cols, p); if(rows * cols <= 4 || nnz(p) >= 3) permute_cases<DT>(rows, cols, p); }
      if(rows >= 1 && cols >= 1 && rows * cols <= 4) { clone_cases<DT, Index, Index>(rows, cols, p, "u64->u64"); clone_cases<DT, Index, std::uint32_t>(rows, cols, p, "u64->u32"); clone_cases<DT, std::uint32_t, Index>(rows, cols, p, "u32->u64"); }
    }
  }
  dense_cases<DT>();
}

int main(int argc, char** argv)
{
  int na = argc;
  for(int i = 1; i < argc; ++i) if(std::string(argv[i]) == "--bounds" && i + 2 < argc) { g_maxdim = atoi(argv[i + 1]); g_maxnnz = atoi(argv[i + 2]); na = i; }
  return vh::main_dispatch(na, argv, [&] { run_all<vsym::SymReal>(); }, [&] {
#ifdef VH_REPLAY
    run_all<double>();
#endif
  });
}
