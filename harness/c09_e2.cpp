// C09 (E2): the real Solver::MultiGrid / MultiGridHierarchy executed with mock operands whose "vectors" are 2-vectors
// of the symbolic scalar and whose matrices / smoothers / transfers / coarse solver are symbolic 2x2 matrices per level
// and role (non-commuting: order of application is visible in the result).  Oracle: textbook recursive definition of
// the V/F/W cycle written here over the same algebra + expected event log.  Discrete configuration swept.
#include "symreal.hpp"
#include "vh_abort.hpp"
#include <kernel/solver/multigrid.hpp>
#include <vector>
#include <string>
#include <memory>
using namespace FEAT;
static int g_maxL = 3;

template<typename DT> struct V2 { DT v[2]; };
static std::vector<std::pair<int,int>> g_log; // (role, level): 1 matrix apply, 2 prol, 3 rest, 10 coarse, 11 pre, 12 post, 13 peak
static bool g_logging = true;
static void ev(int role, int lvl) { if(g_logging) g_log.push_back({role, lvl}); }

template<typename DT> struct MV
{
  typedef DT DataType; DT v[2]; int lvl = -1;
  void clear() {} void format(DT x = DT(0)) { v[0] = x; v[1] = x; }
  void copy(const MV& o) { v[0] = o.v[0]; v[1] = o.v[1]; }
  void axpy(const MV& x, DT a = DT(1)) { v[0] = v[0] + a * x.v[0]; v[1] = v[1] + a * x.v[1]; }
  DT dot(const MV& o) const { return v[0] * o.v[0] + v[1] * o.v[1]; }
  DT norm2() const { return DT(0); }
  MV clone() const { return *this; }
};
template<typename DT> struct M22 { DT a[2][2]; void mul(DT* r, const DT* x) const { DT r0 = a[0][0] * x[0] + a[0][1] * x[1]; DT r1 = a[1][0] * x[0] + a[1][1] * x[1]; r[0] = r0; r[1] = r1; } };
template<typename DT> struct MM
{
  typedef DT DataType; typedef MV<DT> VectorTypeR; typedef MV<DT> VectorTypeL; M22<DT> A; int lvl;
  MV<DT> create_vector_r() const { MV<DT> x; x.v[0] = DT(0); x.v[1] = DT(0); x.lvl = lvl; return x; } MV<DT> create_vector_l() const { return create_vector_r(); }
  void apply(MV<DT>& r, const MV<DT>& x, const MV<DT>& y, DT alpha = DT(1)) const { ev(1, lvl); DT t[2]; A.mul(t, x.v); DT r0 = y.v[0] + alpha * t[0], r1 = y.v[1] + alpha * t[1]; r.v[0] = r0; r.v[1] = r1; }
  void apply(MV<DT>& r, const MV<DT>& x) const { ev(1, lvl); DT t[2]; A.mul(t, x.v); r.v[0] = t[0]; r.v[1] = t[1]; }
};
template<typename DT> struct MF
{
  typedef MV<DT> VectorType; DT fd[2], fc[2];
  void filter_def(MV<DT>& x) const { x.v[0] = fd[0] * x.v[0]; x.v[1] = fd[1] * x.v[1]; } void filter_cor(MV<DT>& x) const { x.v[0] = fc[0] * x.v[0]; x.v[1] = fc[1] * x.v[1]; }
  void filter_rhs(MV<DT>& x) const { filter_def(x); } void filter_sol(MV<DT>& x) const { filter_cor(x); }
};
template<typename DT> struct MT
{
  M22<DT> P, R; int lvl; bool is_ghost() const { return false; }
  bool prol(MV<DT>& f, const MV<DT>& c) const { ev(2, lvl); DT t[2]; P.mul(t, c.v); f.v[0] = t[0]; f.v[1] = t[1]; return true; }
  bool rest(const MV<DT>& f, MV<DT>& c) const { ev(3, lvl); DT t[2]; R.mul(t, f.v); c.v[0] = t[0]; c.v[1] = t[1]; return true; }
  void rest_send(const MV<DT>&) const {} void prol_recv(MV<DT>&) const {} bool prol_cancel() const { return true; } void cancel() const {}
};
template<typename DT> struct MS : public Solver::SolverBase<MV<DT>>
{
  M22<DT> S; int kind, lvl; MS(const M22<DT>& s, int k, int l) : S(s), kind(k), lvl(l) {}
  virtual String name() const override { return "mock"; }
  virtual Solver::Status apply(MV<DT>& cor, const MV<DT>& def) override { ev(10 + kind, lvl); DT t[2]; S.mul(t, def.v); cor.v[0] = t[0]; cor.v[1] = t[1]; return Solver::Status::success; }
};

template<typename DT> M22<DT> symmat(const std::string& nm, double base)
{
  M22<DT> m; for(int i = 0; i < 2; ++i) for(int j = 0; j < 2; ++j) m.a[i][j] = vh::H<DT>::var(nm + std::to_string(i) + std::to_string(j), base + 0.375 * i - 0.625 * j + (i == j ? 1.0 : 0.0));
  return m;
}

// ------------------------------------------------------------------ oracle: textbook recursion over the same algebra
template<typename DT> struct Ops
{
  bool alt = false; int nlev; std::vector<M22<DT>> A, P, R, Spre, Spost, Speak, Scrs; std::vector<int> have, havecrs; std::vector<MF<DT>> F; int adapt; int crs, top;
  std::vector<std::pair<int,int>> log;
  typedef V2<DT> V;
  V mul(const M22<DT>& m, const V& x) { V r; m.mul(r.v, x.v); return r; }
  V resid(int l, const V& b, const V& x) { log.push_back({1, l}); V t = mul(A[l], x); V r; if(alt) { r.v[0] = b.v[0] - t.v[0]; r.v[1] = b.v[1] - t.v[1]; } /* alt: written as b - Ax (the implementation computes b + (-1)*(Ax)): terms differ, z3 has to decide */ else { r.v[0] = b.v[0] + DT(-1) * t.v[0]; r.v[1] = b.v[1] + DT(-1) * t.v[1]; } return r; }
  V fdef(int l, V x) { x.v[0] = F[l].fd[0] * x.v[0]; x.v[1] = F[l].fd[1] * x.v[1]; return x; }
  V fcor(int l, V x) { x.v[0] = F[l].fc[0] * x.v[0]; x.v[1] = F[l].fc[1] * x.v[1]; return x; }
  V add(const V& x, const V& c, DT w = DT(1)) { V r; r.v[0] = x.v[0] + w * c.v[0]; r.v[1] = x.v[1] + w * c.v[1]; return r; }
  DT dot(const V& a, const V& b) { return a.v[0] * b.v[0] + a.v[1] * b.v[1]; }
  // state per level during one visit
  struct St { V x, d; };
  // smoothing in "defect-correction" mode (peak): c = Fc(S d); x += c; d = Fd(b - A x)
  void smooth_def(int l, const M22<DT>& S, int kind, const V& b, St& s) { log.push_back({10 + kind, l}); V c = fcor(l, mul(S, s.d)); s.x = add(s.x, c); s.d = fdef(l, resid(l, b, s.x)); }
  V coarse(int l, const V& b) { if(havecrs[l]) { log.push_back({10, l}); return mul(Scrs[l], b); } return fcor(l, b); }
  // kind: 0 V, 1 F (inner), 2 W ; the F cycle does not peak on the top level
  V cycle(int l, const V& b, int kind, bool is_top)
  {
    if(l == crs) return coarse(l, b);
    St s;
    // pre-smoothing
    if(have[l] & 1) { log.push_back({11, l}); s.x = mul(Spre[l], b); s.d = resid(l, b, s.x); } else { s.x.v[0] = DT(0); s.x.v[1] = DT(0); s.d = b; }
    s.d = fdef(l, s.d);
    // restrict, recurse
    log.push_back({3, l}); V bc = fdef(l + 1, mul(R[l], s.d));
    V xc = cycle(l + 1, bc, kind, false);
    bool second = (kind == 2) || (kind == 1 && !is_top);
    V t; DT w = correct(l, b, s, xc, t);
    if(second)
    {
      // peak smoothing: recompute defect, smooth
      s.d = fdef(l, resid(l, b, s.x));
      if(have[l] & 4) smooth_def(l, Speak[l], 3, b, s);
      else { if(have[l] & 1) smooth_def(l, Spre[l], 1, b, s); if(have[l] & 2) smooth_def(l, Spost[l], 2, b, s); }
      // restrict without pre-smoothing: filter current defect
      s.d = fdef(l, s.d);
      log.push_back({3, l}); V bc2 = fdef(l + 1, mul(R[l], s.d));
      V xc2 = cycle(l + 1, bc2, kind == 1 ? 0 : kind, false);
      w = correct(l, b, s, xc2, t);
    }
    // post-smoothing
    if(have[l] & 2)
    {
      if(adapt != 0) s.d = add(s.d, t, -w); else s.d = fdef(l, resid(l, b, s.x));
      log.push_back({12, l}); V c = mul(Spost[l], s.d); s.x = add(s.x, c);
    }
    return s.x;
  }
  DT correct(int l, const V&, St& s, const V& xc, V& t)
  {
    log.push_back({2, l}); V c = fcor(l, mul(P[l], xc)); DT w = DT(1);
    if(adapt != 0) { log.push_back({1, l}); t = fdef(l, mul(A[l], c)); if(adapt == 1) w = dot(s.d, c) / dot(t, c); else w = dot(s.d, t) / dot(t, t); }
    s.x = add(s.x, c, w); return w;
  }
};

template<typename DT>
void run_config(int nlev, int cyc, const std::vector<int>& have, int have_crs, int adapt, int top, int crs, int napply)
{
  typedef Solver::MultiGridHierarchy<MM<DT>, MF<DT>, MT<DT>> Hier;
  std::string hs; for(int h : have) hs += std::to_string(h);
  std::string cn = "mg levels=" + std::to_string(nlev) + " cycle=" + std::string(cyc == 0 ? "V" : cyc == 1 ? "F" : "W") + " smoothers=" + hs + " coarse_solver=" + std::to_string(have_crs) + " adapt=" + std::to_string(adapt)
    + " top=" + std::to_string(top) + " crs=" + std::to_string(crs) + " applies=" + std::to_string(napply);
  if(!vh::H<DT>::want(cn)) return;
  vh::H<DT>::begin(cn, "{\"levels\":" + std::to_string(nlev) + ",\"cycle\":" + std::to_string(cyc) + ",\"adapt\":" + std::to_string(adapt) + "}");
  int crs_eff = crs < 0 ? nlev - 1 : crs;
  Ops<DT> O; O.nlev = nlev; O.adapt = adapt; O.crs = crs_eff; O.top = top; O.have = have; O.have.resize(size_t(nlev), 0); O.havecrs.assign(size_t(nlev), 0);
  std::vector<MM<DT>> mats; mats.resize(size_t(nlev)); std::vector<MF<DT>> filt; filt.resize(size_t(nlev)); std::vector<MT<DT>> trans; trans.resize(size_t(nlev));
  for(int l = 0; l < nlev; ++l)
  {
    std::string L = std::to_string(l);
    mats[size_t(l)].A = symmat<DT>("A" + L + "_", 1.25 + 0.25 * l); mats[size_t(l)].lvl = l;
    trans[size_t(l)].P = symmat<DT>("P" + L + "_", 0.5 + 0.125 * l); trans[size_t(l)].R = symmat<DT>("R" + L + "_", -0.75 + 0.25 * l); trans[size_t(l)].lvl = l;
    for(int i = 0; i < 2; ++i) { filt[size_t(l)].fd[i] = vh::H<DT>::var("fd" + L + "_" + std::to_string(i), 0.875 - 0.25 * i + 0.0625 * l); filt[size_t(l)].fc[i] = vh::H<DT>::var("fc" + L + "_" + std::to_string(i), 1.125 + 0.125 * i - 0.0625 * l); }
    O.A.push_back(mats[size_t(l)].A); O.P.push_back(trans[size_t(l)].P); O.R.push_back(trans[size_t(l)].R); O.F.push_back(filt[size_t(l)]);
    O.Spre.push_back(symmat<DT>("Spre" + L + "_", 0.25 + 0.0625 * l)); O.Spost.push_back(symmat<DT>("Spost" + L + "_", -0.375 + 0.125 * l)); O.Speak.push_back(symmat<DT>("Speak" + L + "_", 0.625 - 0.0625 * l)); O.Scrs.push_back(symmat<DT>("Scrs" + L + "_", 0.8125 + 0.03125 * l));
  }
  if(have_crs) O.havecrs[size_t(crs_eff)] = 1;
  bool ok = true; std::string fail;
  try
  {
    auto h = std::make_shared<Hier>(std::size_t(nlev));
    for(int l = 0; l < nlev; ++l)
    {
      std::shared_ptr<Solver::SolverBase<MV<DT>>> cs = (O.havecrs[size_t(l)]) ? std::make_shared<MS<DT>>(O.Scrs[size_t(l)], 0, l) : nullptr;
      if(l == nlev - 1) h->push_level(mats[size_t(l)], filt[size_t(l)], cs);
      else h->push_level(mats[size_t(l)], filt[size_t(l)], trans[size_t(l)],
        (O.have[size_t(l)] & 1) ? std::make_shared<MS<DT>>(O.Spre[size_t(l)], 1, l) : nullptr, (O.have[size_t(l)] & 2) ? std::make_shared<MS<DT>>(O.Spost[size_t(l)], 2, l) : nullptr,
        (O.have[size_t(l)] & 4) ? std::make_shared<MS<DT>>(O.Speak[size_t(l)], 3, l) : nullptr, cs);
    }
    auto mg = Solver::new_multigrid(h, Solver::MultiGridCycle(cyc), top, crs);
    mg->set_adapt_cgc(Solver::MultiGridAdaptCGC(adapt));
    h->init(); mg->init();
    for(int ap = 0; ap < napply; ++ap)
    {
      MV<DT> d; d.lvl = top; d.v[0] = vh::H<DT>::var("d" + std::to_string(ap) + "_0", 0.75 + ap); d.v[1] = vh::H<DT>::var("d" + std::to_string(ap) + "_1", -1.25 - 0.5 * ap);
      MV<DT> c; c.lvl = top; c.v[0] = vh::H<DT>::var("cjunk0", 11.0); c.v[1] = vh::H<DT>::var("cjunk1", 13.0);
      g_log.clear(); Solver::Status st = mg->apply(c, d);
      vh::H<DT>::fact("status success #" + std::to_string(ap), st == Solver::Status::success);
      V2<DT> b; b.v[0] = d.v[0]; b.v[1] = d.v[1]; O.log.clear();
      V2<DT> ref = O.cycle(top, b, cyc, true);
      std::string tag = "apply#" + std::to_string(ap);
      vh::H<DT>::eq(tag + " result[0]", c.v[0], ref.v[0]); vh::H<DT>::eq(tag + " result[1]", c.v[1], ref.v[1]);
      if(nlev == 2 && adapt == 0 && cyc != 2)
      {
        // small configurations: also compare against the oracle evaluated with a differently associated residual (terms differ, z3 must prove the identity)
        auto keep = O.log; O.alt = true; V2<DT> ref2 = O.cycle(top, b, cyc, true); O.alt = false; O.log = keep;
        vh::H<DT>::eq(tag + " result[0] (re-associated oracle)", c.v[0], ref2.v[0]); vh::H<DT>::eq(tag + " result[1] (re-associated oracle)", c.v[1], ref2.v[1]);
      }
      // event log: operator applications in order (role, level)
      bool same = (g_log.size() == O.log.size()); for(size_t i = 0; same && i < g_log.size(); ++i) same = (g_log[i] == O.log[i]);
      std::string got, exp; for(auto& e : g_log) got += "(" + std::to_string(e.first) + "," + std::to_string(e.second) + ")"; for(auto& e : O.log) exp += "(" + std::to_string(e.first) + "," + std::to_string(e.second) + ")";
      vh::H<DT>::fact(tag + " event log == reference", same, "got " + got + " expected " + exp);
      // coarse solve count and peak order from the log
      int ncs = 0; for(auto& e : g_log) if(e.first == 10 && e.second == crs_eff) ++ncs;
      int Lv = crs_eff - top; int expect_cs = have_crs ? (cyc == 0 ? 1 : cyc == 1 ? (Lv < 1 ? 1 : Lv) : (1 << Lv)) : 0;
      vh::H<DT>::fact(tag + " coarse solve count", ncs == expect_cs, "got " + std::to_string(ncs) + " expected " + std::to_string(expect_cs));
      vh::H<DT>::eq(tag + " input unchanged[0]", d.v[0], b.v[0]); vh::H<DT>::eq(tag + " input unchanged[1]", d.v[1], b.v[1]);
      if(ap == 0) vh::H<DT>::witness("wrong identity refuted", c.v[0], ref.v[1]);
    }
    mg->done(); h->done();
  }
  catch(const vh::FeatAbort&) { ok = false; fail = "XASSERT/XABORT reached"; }
  catch(const std::exception& e) { ok = false; fail = e.what(); }
  vh::H<DT>::fact("completes without abort", ok, fail);
  vh::H<DT>::end();
}

template<typename DT>
void run_all()
{
  for(int L = 1; L <= g_maxL; ++L)
  {
    int nlev = L + 1;
    for(int cyc = 0; cyc < 3; ++cyc)
    {
      // uniform smoother masks on all levels
      for(int m = 0; m < 8; ++m) for(int hc = 0; hc < 2; ++hc)
        run_config<DT>(nlev, cyc, std::vector<int>(size_t(L), m), hc, 0, 0, -1, (m == 7) ? 2 : 1);
      // level-dependent masks
      { std::vector<int> hv; for(int l = 0; l < L; ++l) hv.push_back((l * 3 + 1) % 8); run_config<DT>(nlev, cyc, hv, 1, 0, 0, -1, 1); }
      { std::vector<int> hv; for(int l = 0; l < L; ++l) hv.push_back((7 - l * 2) & 7); run_config<DT>(nlev, cyc, hv, 1, 0, 0, -1, 1); }
      // adaptive coarse grid correction
      for(int ad = 1; ad <= 2; ++ad) { run_config<DT>(nlev, cyc, std::vector<int>(size_t(L), 3), 1, ad, 0, -1, 1); if(L <= 2) run_config<DT>(nlev, cyc, std::vector<int>(size_t(L), 7), 1, ad, 0, -1, 1); run_config<DT>(nlev, cyc, std::vector<int>(size_t(L), 1), 1, ad, 0, -1, 1); }
      // sub-ranges of the hierarchy
      for(int top = 0; top < nlev; ++top) for(int crs = top; crs < nlev; ++crs)
      {
        if(top == 0 && crs == nlev - 1) continue;
        run_config<DT>(nlev, cyc, std::vector<int>(size_t(L), 7), 1, 0, top, crs, 1);
        run_config<DT>(nlev, cyc, std::vector<int>(size_t(L), 3), 0, 0, top, crs, 1);
      }
    }
  }
}

int main(int argc, char** argv)
{
  int na = argc;
  for(int i = 1; i < argc; ++i) if(std::string(argv[i]) == "--bounds" && i + 1 < argc) { g_maxL = atoi(argv[i + 1]); na = i; }
  return vh::main_dispatch(na, argv, [&] { run_all<vsym::SymReal>(); }, [&] {
#ifdef VH_REPLAY
    run_all<double>();
#endif
  });
}
