// C03 (E2, blocked slice): algebra of SparseMatrixBCSR with NON-SQUARE blocks (2x3), so that height/width mix-ups are visible:
// scale, axpy, norms, row norms (plain and scaled), scale_rows/cols, lump_rows, transpose; square 2x2 blocks: extract_diag.
// Oracle: the same formulas on the dense expansion.
#include "feat_helpers.hpp"
#include <kernel/lafem/sparse_matrix_bcsr.hpp>
#include <kernel/lafem/dense_vector_blocked.hpp>
using namespace FEAT; using namespace vh;
static int g_maxn = 2, g_maxnnz = 3;

template<typename DT, int BH, int BW> Dense<DT> expand(const LAFEM::SparseMatrixBCSR<DT, Index, BH, BW>& A)
{
  Dense<DT> D = dense_zero<DT>(A.rows() * BH, A.columns() * BW);
  for(Index i = 0; i < A.rows(); ++i) for(Index k = A.row_ptr()[i]; k < A.row_ptr()[i + 1]; ++k)
    for(int a = 0; a < BH; ++a) for(int b = 0; b < BW; ++b) D[i * BH + Index(a)][A.col_ind()[k] * BW + Index(b)] += A.val()[k](a, b);
  return D;
}
template<typename DT, int BS> LAFEM::DenseVectorBlocked<DT, Index, BS> mk_bvec(Index n, const std::string& nm, double base, double step, std::vector<DT>* flat = nullptr)
{
  LAFEM::DenseVectorBlocked<DT, Index, BS> v(n);
  for(Index i = 0; i < n * BS; ++i) { DT x = H<DT>::var(nm + str(i), base + step * double(i)); v.template elements<LAFEM::Perspective::pod>()[i] = x; if(flat) flat->push_back(x); }
  return v;
}

template<typename DT, int BH, int BW>
void algebra_cases(Index rows, Index cols, const Pattern& p)
{
  typedef LAFEM::SparseMatrixBCSR<DT, Index, BH, BW> MT; typedef LAFEM::DenseVectorBlocked<DT, Index, BH> VL; typedef LAFEM::DenseVectorBlocked<DT, Index, BW> VR;
  std::string cfg = "bcsr<" + str(Index(BH)) + "x" + str(Index(BW)) + "> " + str(rows) + "x" + str(cols) + " [" + pat_str(p) + "]";
  const Index R = rows * BH, C = cols * BW;
  auto begin = [&](const std::string& nm) { std::string cn = nm + " " + cfg; if(!H<DT>::want(cn)) return false; H<DT>::begin(cn, "{\"op\":\"" + nm + "\"}"); return true; };
  auto finish = [&](int rc) { H<DT>::fact("completes", rc == 0, rc == 2 ? "memory fault" : "abort"); H<DT>::end(); };
  if(begin("scale/axpy"))
  {
    Dense<DT> DA, DB; MT A = make_bcsr<DT, Index, BH, BW, MT>(rows, cols, p, "a", &DA); MT Bm = make_bcsr<DT, Index, BH, BW, MT>(rows, cols, p, "b", &DB); DT alpha = H<DT>::var("alpha", 0.75);
    int rc = guarded([&] {
      MT S = A.clone(LAFEM::CloneMode::Layout); S.scale(A, alpha); Dense<DT> DS = expand<DT, BH, BW>(S);
      for(Index i = 0; i < R; ++i) for(Index j = 0; j < C; ++j) H<DT>::eq("scale (" + str(i) + "," + str(j) + ")", DS[i][j], alpha * DA[i][j]);
      MT X = Bm.clone(LAFEM::CloneMode::Deep); X.axpy(A, alpha); Dense<DT> DX = expand<DT, BH, BW>(X);
      for(Index i = 0; i < R; ++i) for(Index j = 0; j < C; ++j) H<DT>::eq("axpy: this += alpha*x (" + str(i) + "," + str(j) + ")", DX[i][j], DB[i][j] + alpha * DA[i][j]);
      Dense<DT> DA2 = expand<DT, BH, BW>(A); for(Index i = 0; i < R; ++i) for(Index j = 0; j < C; ++j) H<DT>::eq("operand unchanged (" + str(i) + "," + str(j) + ")", DA2[i][j], DA[i][j]);
    });
    finish(rc);
  }
  if(begin("norms"))
  {
    Dense<DT> DA; MT A = make_bcsr<DT, Index, BH, BW, MT>(rows, cols, p, "a", &DA); std::vector<DT> sf; VR sc = mk_bvec<DT, BW>(cols, "s", 1.25, 0.1875, &sf);
    int rc = guarded([&] {
      DT fro = A.norm_frobenius(); DT s = DT(0); for(Index i = 0; i < R; ++i) for(Index j = 0; j < C; ++j) s += DA[i][j] * DA[i][j];
      H<DT>::eq("norm_frobenius^2 == sum of squares", fro * fro, s);
      VL n2(rows), n2s(rows), n2ss(rows); A.row_norm2(n2); A.row_norm2sqr(n2s); A.row_norm2sqr(n2ss, sc);
      for(Index i = 0; i < R; ++i)
      {
        DT q = DT(0), qs = DT(0); for(Index j = 0; j < C; ++j) { q += DA[i][j] * DA[i][j]; qs += sf[j] * DA[i][j] * DA[i][j]; }
        DT a = n2.template elements<LAFEM::Perspective::pod>()[i];
        H<DT>::eq("row_norm2^2 [" + str(i) + "]", a * a, q); H<DT>::eq("row_norm2sqr [" + str(i) + "]", n2s.template elements<LAFEM::Perspective::pod>()[i], q);
        H<DT>::eq("scaled row_norm2sqr [" + str(i) + "]", n2ss.template elements<LAFEM::Perspective::pod>()[i], qs);
      }
      VL lump(rows); A.lump_rows(lump);
      for(Index i = 0; i < R; ++i) { DT q = DT(0); for(Index j = 0; j < C; ++j) q += DA[i][j]; H<DT>::eq("lump_rows [" + str(i) + "]", lump.template elements<LAFEM::Perspective::pod>()[i], q); }
    });
    finish(rc);
  }
  if(begin("scale_rows/cols"))
  {
    Dense<DT> DA; MT A = make_bcsr<DT, Index, BH, BW, MT>(rows, cols, p, "a", &DA); std::vector<DT> lf, rf; VL sl = mk_bvec<DT, BH>(rows, "l", 0.5, 0.375, &lf); VR sr = mk_bvec<DT, BW>(cols, "r", -1.25, 0.3125, &rf);
    int rc = guarded([&] {
      MT X = A.clone(LAFEM::CloneMode::Layout); X.scale_rows(A, sl); Dense<DT> DX = expand<DT, BH, BW>(X);
      for(Index i = 0; i < R; ++i) for(Index j = 0; j < C; ++j) H<DT>::eq("scale_rows (" + str(i) + "," + str(j) + ")", DX[i][j], lf[i] * DA[i][j]);
      MT Y = A.clone(LAFEM::CloneMode::Layout); Y.scale_cols(A, sr); Dense<DT> DY = expand<DT, BH, BW>(Y);
      for(Index i = 0; i < R; ++i) for(Index j = 0; j < C; ++j) H<DT>::eq("scale_cols (" + str(i) + "," + str(j) + ")", DY[i][j], DA[i][j] * rf[j]);
    });
    finish(rc);
  }
  if(begin("transpose"))
  {
    Dense<DT> DA; MT A = make_bcsr<DT, Index, BH, BW, MT>(rows, cols, p, "a", &DA);
    int rc = guarded([&] {
      LAFEM::SparseMatrixBCSR<DT, Index, BW, BH> T; T.transpose(A);
      H<DT>::fact("transposed dimensions", T.rows() == cols && T.columns() == rows, str(T.rows()) + "x" + str(T.columns()));
      if(T.rows() == cols && T.columns() == rows) { Dense<DT> DTm = expand<DT, BW, BH>(T); for(Index i = 0; i < R; ++i) for(Index j = 0; j < C; ++j) H<DT>::eq("transpose (" + str(j) + "," + str(i) + ")", DTm[j][i], DA[i][j]); }
      bool sorted = true; for(Index i = 0; i < T.rows(); ++i) for(Index k = T.row_ptr()[i]; k + 1 < T.row_ptr()[i + 1]; ++k) sorted = sorted && T.col_ind()[k] < T.col_ind()[k + 1];
      H<DT>::fact("transposed layout sorted, duplicate free", sorted);
    });
    finish(rc);
  }
  if constexpr(BH == BW)
  {
    if(rows == cols && begin("extract_diag"))
    {
      Dense<DT> DA; MT A = make_bcsr<DT, Index, BH, BW, MT>(rows, cols, p, "a", &DA);
      bool has_diag = true; for(Index i = 0; i < rows; ++i) has_diag = has_diag && std::find(p[i].begin(), p[i].end(), i) != p[i].end();
      int rc = guarded([&] {
        if(has_diag) { VL dg(rows); A.extract_diag(dg); for(Index i = 0; i < R; ++i) H<DT>::eq("extract_diag [" + str(i) + "]", dg.template elements<LAFEM::Perspective::pod>()[i], DA[i][i]); }
      });
      finish(rc);
    }
  }
}

// X += alpha * D * A * B with square 2x2 blocks: (i) all operands BCSR, (ii) D and B scalar CSR matrices acting block-wise (each scalar multiplies a block)
template<typename DT>
void double_product_cases(Index m, Index l, Index k, Index n, const Pattern& pd, const Pattern& pa, const Pattern& pb)
{
  constexpr int BS = 2; typedef LAFEM::SparseMatrixBCSR<DT, Index, BS, BS> MT; typedef LAFEM::SparseMatrixCSR<DT, Index> CT;
  std::string cfg = str(m) + "x" + str(l) + "x" + str(k) + "x" + str(n) + " D[" + pat_str(pd) + "] A[" + pat_str(pa) + "] B[" + pat_str(pb) + "]";
  Pattern full(m); for(Index i = 0; i < m; ++i) for(Index j = 0; j < n; ++j) full[i].push_back(j);
  auto mm = [&](const Dense<DT>& P, const Dense<DT>& Q) { Dense<DT> R = dense_zero<DT>(Index(P.size()), Index(Q[0].size())); for(size_t i = 0; i < P.size(); ++i) for(size_t j = 0; j < Q[0].size(); ++j) for(size_t t = 0; t < Q.size(); ++t) R[i][j] += P[i][t] * Q[t][j]; return R; };
  { std::string cn = "add_double_mat_product (BCSR,BCSR,BCSR) " + cfg; if(H<DT>::want(cn)) {
    H<DT>::begin(cn, "{\"op\":\"double product\"}");
    Dense<DT> DD, DA, DB, DX; MT D = make_bcsr<DT, Index, BS, BS, MT>(m, l, pd, "d", &DD), A = make_bcsr<DT, Index, BS, BS, MT>(l, k, pa, "a", &DA), Bm = make_bcsr<DT, Index, BS, BS, MT>(k, n, pb, "b", &DB), X = make_bcsr<DT, Index, BS, BS, MT>(m, n, full, "x", &DX);
    DT alpha = H<DT>::var("alpha", 0.75);
    int rc = guarded([&] { X.add_double_mat_product(D, A, Bm, alpha); Dense<DT> R = expand<DT, BS, BS>(X), P = mm(mm(DD, DA), DB);
      for(Index i = 0; i < m * BS; ++i) for(Index j = 0; j < n * BS; ++j) H<DT>::eq("X += alpha D A B (" + str(i) + "," + str(j) + ")", R[i][j], DX[i][j] + alpha * P[i][j]); });
    H<DT>::fact("completes", rc == 0, rc == 2 ? "memory fault" : "abort"); H<DT>::end(); } }
  { std::string cn = "add_double_mat_product (CSR,BCSR,CSR) " + cfg; if(H<DT>::want(cn)) {
    H<DT>::begin(cn, "{\"op\":\"double product\"}");
    Dense<DT> Dd, DA, Db, DX; CT D = make_csr<DT>(m, l, pd, "d", &Dd); MT A = make_bcsr<DT, Index, BS, BS, MT>(l, k, pa, "a", &DA); CT Bm = make_csr<DT>(k, n, pb, "b", &Db); MT X = make_bcsr<DT, Index, BS, BS, MT>(m, n, full, "x", &DX);
    DT alpha = H<DT>::var("alpha", 0.75);
    // block-wise action of the scalar matrices = Kronecker product with the identity
    auto kron = [&](const Dense<DT>& S, Index r, Index c) { Dense<DT> K = dense_zero<DT>(r * BS, c * BS); for(Index i = 0; i < r; ++i) for(Index j = 0; j < c; ++j) for(int a = 0; a < BS; ++a) K[i * BS + Index(a)][j * BS + Index(a)] = S[i][j]; return K; };
    int rc = guarded([&] { X.add_double_mat_product(D, A, Bm, alpha); Dense<DT> R = expand<DT, BS, BS>(X), P = mm(mm(kron(Dd, m, l), DA), kron(Db, k, n));
      for(Index i = 0; i < m * BS; ++i) for(Index j = 0; j < n * BS; ++j) H<DT>::eq("X += alpha (D x I) A (B x I) (" + str(i) + "," + str(j) + ")", R[i][j], DX[i][j] + alpha * P[i][j]); });
    H<DT>::fact("completes", rc == 0, rc == 2 ? "memory fault" : "abort"); H<DT>::end(); } }
}

template<typename DT>
void run_all()
{
  for(Index rows = 1; rows <= Index(g_maxn); ++rows) for(Index cols = 1; cols <= Index(g_maxn); ++cols)
    for(auto& p : all_patterns(rows, cols, Index(g_maxnnz)))
    {
      if(nnz(p) == 0) continue;   // entry-free matrices: covered (and a known finding) for CSR; BCSR(rows, cols) has no arrays at all
      algebra_cases<DT, 2, 3>(rows, cols, p);
      if(rows == cols) algebra_cases<DT, 2, 2>(rows, cols, p);
    }
  // double products: shapes 1..2 with full and a few sparse operand patterns
  for(Index m = 1; m <= 2; ++m) for(Index l = 1; l <= 2; ++l) for(Index n = 1; n <= 2; ++n)
  {
    const Index k = l;
    auto fullp = [](Index r, Index c) { Pattern p(r); for(Index i = 0; i < r; ++i) for(Index j = 0; j < c; ++j) p[i].push_back(j); return p; };
    double_product_cases<DT>(m, l, k, n, fullp(m, l), fullp(l, k), fullp(k, n));
    if(l == 2) { Pattern dg(2); dg[0].push_back(0); dg[1].push_back(1); Pattern up(2); up[0].push_back(0); up[0].push_back(1); up[1].push_back(1); double_product_cases<DT>(m, l, k, n, fullp(m, l), dg, fullp(k, n)); double_product_cases<DT>(m, l, k, n, fullp(m, l), up, fullp(k, n)); }
  }
}

int main(int argc, char** argv)
{
  int na = argc;
  for(int i = 1; i < argc; ++i) if(std::string(argv[i]) == "--bounds" && i + 2 < argc) { g_maxn = atoi(argv[i + 1]); g_maxnnz = atoi(argv[i + 2]); na = i; }
  return vh::main_dispatch(na, argv, [&] { run_all<vsym::SymReal>(); }, [&] {
#ifdef VH_REPLAY
    run_all<double>();
#endif
  });
}
