// C06 (E2): unit / blocked unit / slip / mean filters and their compositions on the real classes with a symbolic scalar.
// Index sets (order of insertion included) are swept; vector contents, prescribed values, normals, weights are free reals.
#include "feat_helpers.hpp"
#include <kernel/lafem/sparse_matrix_bcsr.hpp>
#include <kernel/lafem/unit_filter.hpp>
#include <kernel/lafem/unit_filter_blocked.hpp>
#include <kernel/lafem/slip_filter.hpp>
#include <kernel/lafem/mean_filter.hpp>
#include <kernel/lafem/mean_filter_blocked.hpp>
#include <kernel/lafem/filter_chain.hpp>
#include <kernel/lafem/filter_sequence.hpp>
#include <kernel/lafem/tuple_filter.hpp>
#include <kernel/lafem/tuple_vector.hpp>
#include <algorithm>
using namespace FEAT; using namespace vh;
static int g_maxn = 3;

// all ordered selections (insertion orders) of distinct indices out of n with at most kmax entries
static std::vector<std::vector<Index>> ordered_subsets(Index n, Index kmax)
{
  std::vector<std::vector<Index>> out; out.push_back({});
  std::vector<std::vector<Index>> cur = {{}};
  for(Index k = 1; k <= kmax && k <= n; ++k)
  {
    std::vector<std::vector<Index>> nxt;
    for(auto& c : cur) for(Index i = 0; i < n; ++i) if(std::find(c.begin(), c.end(), i) == c.end()) { auto d = c; d.push_back(i); nxt.push_back(d); out.push_back(d); }
    cur = nxt;
  }
  return out;
}
static bool in(const std::vector<Index>& s, Index i) { return std::find(s.begin(), s.end(), i) != s.end(); }
static Index pos(const std::vector<Index>& s, Index i) { return Index(std::find(s.begin(), s.end(), i) - s.begin()); }

template<typename DT>
void unit_scalar(Index n, const std::vector<Index>& idx)
{
  typedef LAFEM::DenseVector<DT, Index> VT;
  std::string cfg = "n=" + str(n) + " idx[" + join(idx) + "]";
  auto mkfilter = [&] { LAFEM::UnitFilter<DT, Index> f(n); for(size_t k = 0; k < idx.size(); ++k) f.add(idx[k], H<DT>::var("g" + str(Index(k)), 3.0 + double(k))); return f; };
  for(int op = 0; op < 4; ++op)
  {
    static const char* on[] = {"filter_rhs", "filter_sol", "filter_def", "filter_cor"};
    std::string cn = std::string("unit ") + on[op] + " " + cfg; if(!H<DT>::want(cn)) continue;
    H<DT>::begin(cn, "{\"filter\":\"unit\"}");
    auto f = mkfilter(); VT v = make_vec<DT>(n, "v"); auto vb = to_std(v);
    auto ap = [&](VT& w) { switch(op) { case 0: f.filter_rhs(w); break; case 1: f.filter_sol(w); break; case 2: f.filter_def(w); break; default: f.filter_cor(w); } };
    int rc = guarded([&] { ap(v); }); H<DT>::fact("completes", rc == 0);
    if(rc == 0)
    {
      auto g = to_std(v);
      for(Index i = 0; i < n; ++i) H<DT>::eq("v[" + str(i) + "]", g[i], in(idx, i) ? (op < 2 ? H<DT>::var("g" + str(pos(idx, i)), 0) : DT(0)) : vb[i]);
      ap(v); auto g2 = to_std(v); for(Index i = 0; i < n; ++i) H<DT>::eq("idempotent[" + str(i) + "]", g2[i], g[i]);
    }
    H<DT>::end();
  }
}

template<typename DT>
void unit_matrix(Index n, const std::vector<Index>& idx, const Pattern& p)
{
  std::string cfg = "n=" + str(n) + " idx[" + join(idx) + "] A[" + pat_str(p) + "]";
  if(nnz(p) == 0) return;
  for(int op = 0; op < 3; ++op)
  {
    static const char* on[] = {"filter_mat", "filter_offdiag_row_mat", "filter_weak_matrix_rows"};
    std::string cn = std::string("unit ") + on[op] + " " + cfg; if(!H<DT>::want(cn)) continue;
    H<DT>::begin(cn, "{\"filter\":\"unit\",\"matrix\":\"csr\"}");
    LAFEM::UnitFilter<DT, Index> f(n); for(size_t k = 0; k < idx.size(); ++k) f.add(idx[k], H<DT>::var("g" + str(Index(k)), 3.0 + double(k)));
    Dense<DT> DA; auto A = make_csr<DT>(n, n, p, "a", &DA);
    LAFEM::SparseMatrixCSR<DT, Index> M(A.layout()); Dense<DT> DM = dense_zero<DT>(n, n);
    { Index k = 0; for(Index i = 0; i < n; ++i) for(Index j : p[i]) { DT mv = H<DT>::var("m" + str(k), -1.5 + 0.5 * double(k)); M.val()[k] = mv; DM[i][j] = mv; ++k; } }
    int rc = guarded([&] { if(op == 0) f.filter_mat(A); else if(op == 1) f.filter_offdiag_row_mat(A); else f.filter_weak_matrix_rows(A, M); });
    H<DT>::fact("completes", rc == 0);
    if(rc == 0)
    {
      // stored entries only: compare value arrays position by position
      Index k = 0;
      for(Index i = 0; i < n; ++i) for(Index j : p[i])
      {
        DT e = DA[i][j];
        if(in(idx, i)) e = (op == 0) ? ((i == j) ? DT(1) : DT(0)) : (op == 1 ? DT(0) : DT(H<DT>::var("g" + str(pos(idx, i)), 0) * DM[i][j]));
        H<DT>::eq("A(" + str(i) + "," + str(j) + ")", A.val()[k], e); ++k;
      }
      H<DT>::fact("layout untouched", A.used_elements() == nnz(p) && A.rows() == n && A.columns() == n);
    }
    H<DT>::end();
  }
}

template<typename DT, int BS>
void unit_blocked(Index n, const std::vector<Index>& idx)
{
  typedef LAFEM::DenseVectorBlocked<DT, Index, BS> VT; typedef Tiny::Vector<DT, BS> TV;
  std::string cfg = "bs=" + str(Index(BS)) + " n=" + str(n) + " idx[" + join(idx) + "]";
  for(int op = 0; op < 4; ++op)
  {
    static const char* on[] = {"filter_rhs", "filter_sol", "filter_def", "filter_cor"};
    std::string cn = std::string("unitblocked ") + on[op] + " " + cfg; if(!H<DT>::want(cn)) continue;
    H<DT>::begin(cn, "{\"filter\":\"unit_blocked\"}");
    LAFEM::UnitFilterBlocked<DT, Index, BS> f(n);
    for(size_t k = 0; k < idx.size(); ++k) { TV t; for(int c = 0; c < BS; ++c) t[c] = H<DT>::var("g" + str(Index(k)) + "_" + str(Index(c)), 3.0 + double(k) + 0.25 * c); f.add(idx[k], t); }
    VT v(n); std::vector<DT> vb; for(Index i = 0; i < n * BS; ++i) { DT x = H<DT>::var("v" + str(i), 0.5 - 0.375 * double(i)); v.template elements<LAFEM::Perspective::pod>()[i] = x; vb.push_back(x); }
    auto ap = [&](VT& w) { switch(op) { case 0: f.filter_rhs(w); break; case 1: f.filter_sol(w); break; case 2: f.filter_def(w); break; default: f.filter_cor(w); } };
    int rc = guarded([&] { ap(v); }); H<DT>::fact("completes", rc == 0);
    if(rc == 0)
    {
      std::vector<DT> g; for(Index i = 0; i < n * BS; ++i) g.push_back(v.template elements<LAFEM::Perspective::pod>()[i]);
      for(Index i = 0; i < n; ++i) for(int c = 0; c < BS; ++c)
        H<DT>::eq("v[" + str(i) + "." + str(Index(c)) + "]", g[i * BS + Index(c)], in(idx, i) ? (op < 2 ? H<DT>::var("g" + str(pos(idx, i)) + "_" + str(Index(c)), 0) : DT(0)) : vb[i * BS + Index(c)]);
      ap(v); for(Index i = 0; i < n * BS; ++i) H<DT>::eq("idempotent[" + str(i) + "]", v.template elements<LAFEM::Perspective::pod>()[i], g[i]);
    }
    H<DT>::end();
  }
}

template<typename DT, int BS>
void unit_blocked_matrix(Index n, const std::vector<Index>& idx, const Pattern& p)
{
  if(nnz(p) == 0) return;
  typedef LAFEM::SparseMatrixBCSR<DT, Index, BS, BS> MT; typedef Tiny::Vector<DT, BS> TV;
  for(int op = 0; op < 2; ++op)
  {
    std::string cn = std::string("unitblocked ") + (op ? "filter_offdiag_row_mat" : "filter_mat") + " bs=" + str(Index(BS)) + " n=" + str(n) + " idx[" + join(idx) + "] A[" + pat_str(p) + "]";
    if(!H<DT>::want(cn)) continue;
    H<DT>::begin(cn, "{\"filter\":\"unit_blocked\",\"matrix\":\"bcsr\"}");
    LAFEM::UnitFilterBlocked<DT, Index, BS> f(n);
    for(size_t k = 0; k < idx.size(); ++k) { TV t; for(int c = 0; c < BS; ++c) t[c] = H<DT>::var("g" + str(Index(k)) + "_" + str(Index(c)), 3.0 + double(k) + 0.25 * c); f.add(idx[k], t); }
    Dense<DT> DA; MT A = make_bcsr<DT, Index, BS, BS, MT>(n, n, p, "a", &DA);
    int rc = guarded([&] { if(op) f.filter_offdiag_row_mat(A); else f.filter_mat(A); }); H<DT>::fact("completes", rc == 0);
    if(rc == 0)
    {
      Index k = 0;
      for(Index i = 0; i < n; ++i) for(Index j : p[i])
      {
        for(int bi = 0; bi < BS; ++bi) for(int bj = 0; bj < BS; ++bj)
        {
          DT e = DA[i * BS + Index(bi)][j * BS + Index(bj)];
          if(in(idx, i)) e = (!op && i == j && bi == bj) ? DT(1) : DT(0);
          H<DT>::eq("A(" + str(i) + "," + str(j) + ")[" + str(Index(bi)) + str(Index(bj)) + "]", A.template val<LAFEM::Perspective::pod>()[k * BS * BS + Index(bi * BS + bj)], e);
        }
        ++k;
      }
    }
    H<DT>::end();
  }
}


// ignore_nans mode of the blocked unit filter: components whose prescribed value is NaN are not constrained at all
template<typename DT, int BS>
void unit_blocked_nans(Index n, Index row, unsigned nanmask, const Pattern& p)
{
  typedef LAFEM::DenseVectorBlocked<DT, Index, BS> VT; typedef Tiny::Vector<DT, BS> TV; typedef LAFEM::SparseMatrixBCSR<DT, Index, BS, BS> MT;
  std::string cfg = "bs=" + str(Index(BS)) + " n=" + str(n) + " row=" + str(row) + " nanmask=" + str(Index(nanmask)) + " A[" + pat_str(p) + "]";
  auto mk = [&] { LAFEM::UnitFilterBlocked<DT, Index, BS> f(n, true); TV t; for(int c = 0; c < BS; ++c) t[c] = ((nanmask >> c) & 1) ? Math::nan<DT>() : H<DT>::var("g" + str(Index(c)), 3.0 + 0.25 * c); f.add(row, t); return f; };
  for(int op = 0; op < 4; ++op)
  {
    static const char* on[] = {"filter_rhs", "filter_def", "filter_mat", "filter_offdiag_row_mat"};
    if(op >= 2 && nnz(p) == 0) continue;
    std::string cn = std::string("unitblocked-ignore-nans ") + on[op] + " " + cfg; if(!H<DT>::want(cn)) continue;
    H<DT>::begin(cn, "{\"filter\":\"unit_blocked\",\"ignore_nans\":1}");
    auto f = mk();
    if(op < 2)
    {
      VT v(n); std::vector<DT> vb; for(Index i = 0; i < n * BS; ++i) { DT x = H<DT>::var("v" + str(i), 0.5 - 0.375 * double(i)); v.template elements<LAFEM::Perspective::pod>()[i] = x; vb.push_back(x); }
      int rc = guarded([&] { if(op == 0) f.filter_rhs(v); else f.filter_def(v); }); H<DT>::fact("completes", rc == 0);
      if(rc == 0) for(Index i = 0; i < n; ++i) for(int c = 0; c < BS; ++c)
      {
        bool con = (i == row) && !((nanmask >> c) & 1);
        H<DT>::eq("v[" + str(i) + "." + str(Index(c)) + "]", v.template elements<LAFEM::Perspective::pod>()[i * BS + Index(c)], con ? (op == 0 ? H<DT>::var("g" + str(Index(c)), 0) : DT(0)) : vb[i * BS + Index(c)]);
      }
    }
    else
    {
      Dense<DT> DA; MT A = make_bcsr<DT, Index, BS, BS, MT>(n, n, p, "a", &DA);
      int rc = guarded([&] { if(op == 2) f.filter_mat(A); else f.filter_offdiag_row_mat(A); }); H<DT>::fact("completes", rc == 0);
      if(rc == 0)
      {
        Index k = 0;
        for(Index i = 0; i < n; ++i) for(Index j : p[i])
        {
          for(int bi = 0; bi < BS; ++bi) for(int bj = 0; bj < BS; ++bj)
          {
            DT e = DA[i * BS + Index(bi)][j * BS + Index(bj)];
            bool con = (i == row) && !((nanmask >> bi) & 1);
            if(con) e = (op == 2 && i == j && bi == bj) ? DT(1) : DT(0);
            H<DT>::eq("A(" + str(i) + "," + str(j) + ")[" + str(Index(bi)) + str(Index(bj)) + "]", A.template val<LAFEM::Perspective::pod>()[k * BS * BS + Index(bi * BS + bj)], e);
          }
          ++k;
        }
      }
    }
    H<DT>::end();
  }
}

template<typename DT, int BS>
void slip(Index n, const std::vector<Index>& idx)
{
  typedef LAFEM::DenseVectorBlocked<DT, Index, BS> VT; typedef Tiny::Vector<DT, BS> TV;
  std::string cfg = "bs=" + str(Index(BS)) + " n=" + str(n) + " idx[" + join(idx) + "]";
  for(int op = 0; op < 2; ++op)
  {
    std::string cn = std::string("slip ") + (op ? "filter_def" : "filter_rhs") + " " + cfg; if(!H<DT>::want(cn)) continue;
    H<DT>::begin(cn, "{\"filter\":\"slip\"}");
    LAFEM::SlipFilter<DT, Index, BS> f(n, n); std::vector<std::vector<DT>> nu(idx.size());
    for(size_t k = 0; k < idx.size(); ++k) { TV t; for(int c = 0; c < BS; ++c) { t[c] = H<DT>::var("nu" + str(Index(k)) + "_" + str(Index(c)), 0.75 + 0.5 * double(k) - 0.375 * c); nu[k].push_back(t[c]); } f.add(idx[k], t); }
    VT v(n); std::vector<DT> vb; for(Index i = 0; i < n * BS; ++i) { DT x = H<DT>::var("v" + str(i), 0.5 - 0.375 * double(i)); v.template elements<LAFEM::Perspective::pod>()[i] = x; vb.push_back(x); }
    auto ap = [&](VT& w) { if(op) { f.filter_def(w); } else { f.filter_rhs(w); } };
    int rc = guarded([&] { ap(v); }); H<DT>::fact("completes", rc == 0);
    if(rc == 0)
    {
      std::vector<DT> g; for(Index i = 0; i < n * BS; ++i) g.push_back(v.template elements<LAFEM::Perspective::pod>()[i]);
      for(Index i = 0; i < n; ++i)
      {
        if(!in(idx, i)) { for(int c = 0; c < BS; ++c) H<DT>::eq("unconstrained v[" + str(i) + "." + str(Index(c)) + "]", g[i * BS + Index(c)], vb[i * BS + Index(c)]); continue; }
        auto& nn = nu[pos(idx, i)]; DT dotp = DT(0), vn = DT(0), n2 = DT(0);
        for(int c = 0; c < BS; ++c) { dotp += g[i * BS + Index(c)] * nn[size_t(c)]; vn += vb[i * BS + Index(c)] * nn[size_t(c)]; n2 += nn[size_t(c)] * nn[size_t(c)]; }
        H<DT>::eq("normal component vanishes [" + str(i) + "]", dotp, DT(0));
        // tangential part preserved: g*|nu|^2 == v*|nu|^2 - (v.nu) nu
        for(int c = 0; c < BS; ++c) H<DT>::eq("projection formula [" + str(i) + "." + str(Index(c)) + "]", g[i * BS + Index(c)] * n2, vb[i * BS + Index(c)] * n2 - vn * nn[size_t(c)]);
      }
      ap(v); for(Index i = 0; i < n * BS; ++i) H<DT>::eq("idempotent[" + str(i) + "]", v.template elements<LAFEM::Perspective::pod>()[i], g[i]);
    }
    H<DT>::end();
  }
}

template<typename DT>
void mean(Index n)
{
  typedef LAFEM::DenseVector<DT, Index> VT;
  for(int op = 0; op < 4; ++op)
  {
    static const char* on[] = {"filter_rhs", "filter_def", "filter_cor", "filter_sol"};
    std::string cn = std::string("mean ") + on[op] + " n=" + str(n); if(!H<DT>::want(cn)) continue;
    H<DT>::begin(cn, "{\"filter\":\"mean\"}");
    VT prim = make_vec<DT>(n, "p", 1.0, 0.125), dual = make_vec<DT>(n, "w", 0.5, 0.0625);
    // positive weights / primal vector (so that the volume is positive, as the constructor requires)
    for(Index i = 0; i < n; ++i) { H<DT>::assume_lt(DT(0), prim(i)); H<DT>::assume_lt(DT(0), dual(i)); }
    auto pb = to_std(prim), wb = to_std(dual); DT smean = H<DT>::var("solmean", 0.375);
    DT vol = DT(0); for(Index i = 0; i < n; ++i) vol += pb[i] * wb[i];
    VT v = make_vec<DT>(n, "v", -0.75, 0.5);
    int rc = guarded([&] {
      LAFEM::MeanFilter<DT, Index> f(std::move(prim), std::move(dual), smean);
      auto ap = [&](VT& w) { switch(op) { case 0: f.filter_rhs(w); break; case 1: f.filter_def(w); break; case 2: f.filter_cor(w); break; default: f.filter_sol(w); } };
      ap(v); auto g = to_std(v);
      DT gp = DT(0), gw = DT(0); for(Index i = 0; i < n; ++i) { gp += g[i] * pb[i]; gw += g[i] * wb[i]; }
      if(op < 2) H<DT>::eq("dual mean vanishes (v.prim = 0)", gp, DT(0));
      else if(op == 2) H<DT>::eq("primal mean vanishes (v.dual = 0)", gw, DT(0));
      else H<DT>::eq("solution mean (v.dual = mean * volume)", gw, smean * vol);
      ap(v); auto g2 = to_std(v); for(Index i = 0; i < n; ++i) H<DT>::eq("idempotent[" + str(i) + "]", g2[i], g[i]);
    });
    H<DT>::fact("completes", rc == 0);
    H<DT>::end();
  }
}

// blocked mean filter: every component is filtered with its own mean (component-wise dot products and axpy)
template<typename DT>
void mean_blocked(Index n)
{
  constexpr int BS = 2; typedef LAFEM::DenseVectorBlocked<DT, Index, BS> VB; typedef Tiny::Vector<DT, BS> TV;
  auto mk = [&](const std::string& nm, double base, double step, std::vector<DT>& flat, bool pos) { VB v(n); for(Index i = 0; i < n * BS; ++i) { DT x = H<DT>::var(nm + str(i), base + step * double(i)); if(pos) H<DT>::assume_lt(DT(0), x); v.template elements<LAFEM::Perspective::pod>()[i] = x; flat.push_back(x); } return v; };
  for(int op = 0; op < 4; ++op)
  {
    static const char* on[] = {"filter_rhs", "filter_def", "filter_cor", "filter_sol"};
    std::string cn = std::string("mean-blocked ") + on[op] + " n=" + str(n); if(!H<DT>::want(cn)) continue;
    H<DT>::begin(cn, "{\"filter\":\"mean blocked\"}");
    std::vector<DT> pb, wb, vb; VB prim = mk("p", 1.0, 0.125, pb, true), dual = mk("w", 0.5, 0.0625, wb, true), v = mk("v", -0.75, 0.5, vb, false);
    TV smean; DT vol[BS]; for(int c = 0; c < BS; ++c) { smean[c] = H<DT>::var("solmean" + str(Index(c)), 0.375 + 0.25 * c); vol[c] = DT(0); for(Index i = 0; i < n; ++i) vol[c] += pb[i * BS + Index(c)] * wb[i * BS + Index(c)]; }
    int rc = guarded([&] {
      LAFEM::MeanFilterBlocked<DT, Index, BS> f(std::move(prim), std::move(dual), smean);
      auto ap = [&](VB& w) { switch(op) { case 0: f.filter_rhs(w); break; case 1: f.filter_def(w); break; case 2: f.filter_cor(w); break; default: f.filter_sol(w); } };
      ap(v); std::vector<DT> g; for(Index i = 0; i < n * BS; ++i) g.push_back(v.template elements<LAFEM::Perspective::pod>()[i]);
      for(int c = 0; c < BS; ++c)
      {
        DT gp = DT(0), gw = DT(0); for(Index i = 0; i < n; ++i) { gp += g[i * BS + Index(c)] * pb[i * BS + Index(c)]; gw += g[i * BS + Index(c)] * wb[i * BS + Index(c)]; }
        if(op < 2) H<DT>::eq("component " + str(Index(c)) + ": dual mean vanishes (v.prim = 0)", gp, DT(0));
        else if(op == 2) H<DT>::eq("component " + str(Index(c)) + ": primal mean vanishes (v.dual = 0)", gw, DT(0));
        else H<DT>::eq("component " + str(Index(c)) + ": solution mean (v.dual = mean * volume)", gw, smean[c] * vol[c]);
      }
      ap(v); for(Index i = 0; i < n * BS; ++i) H<DT>::eq("idempotent[" + str(i) + "]", v.template elements<LAFEM::Perspective::pod>()[i], g[i]);
    });
    H<DT>::fact("completes", rc == 0);
    H<DT>::end();
  }
}

// compositions: chain of (slip, unit-blocked), sequence of two unit filters, tuple filter over a tuple vector
template<typename DT>
void compositions()
{
  const Index n = 3;
  typedef LAFEM::DenseVectorBlocked<DT, Index, 2> VB; typedef Tiny::Vector<DT, 2> TV;
  for(int op = 0; op < 2; ++op)
  {
    std::string cn = std::string("chain<slip,unitblocked> ") + (op ? "filter_def" : "filter_rhs"); if(!H<DT>::want(cn)) continue;
    H<DT>::begin(cn, "{\"filter\":\"chain\"}");
    LAFEM::SlipFilter<DT, Index, 2> s(n, n); TV nu; nu[0] = H<DT>::var("nu0", 0.75); nu[1] = H<DT>::var("nu1", -0.5); s.add(0, nu);
    LAFEM::UnitFilterBlocked<DT, Index, 2> u(n); TV gv; gv[0] = H<DT>::var("g0", 3.0); gv[1] = H<DT>::var("g1", 4.0); u.add(2, gv);
    LAFEM::FilterChain<LAFEM::SlipFilter<DT, Index, 2>, LAFEM::UnitFilterBlocked<DT, Index, 2>> ch(std::move(s), std::move(u));
    VB v(n); std::vector<DT> vb; for(Index i = 0; i < 2 * n; ++i) { DT x = H<DT>::var("v" + str(i), 0.5 - 0.375 * double(i)); v.template elements<LAFEM::Perspective::pod>()[i] = x; vb.push_back(x); }
    int rc = guarded([&] { if(op) ch.filter_def(v); else ch.filter_rhs(v); }); H<DT>::fact("completes", rc == 0);
    if(rc == 0)
    {
      auto* g = v.template elements<LAFEM::Perspective::pod>();
      H<DT>::eq("slip dof normal component", g[0] * nu[0] + g[1] * nu[1], DT(0));
      H<DT>::eq("free dof x", g[2], vb[2]); H<DT>::eq("free dof y", g[3], vb[3]);
      H<DT>::eq("unit dof x", g[4], op ? DT(0) : gv[0]); H<DT>::eq("unit dof y", g[5], op ? DT(0) : gv[1]);
    }
    H<DT>::end();
  }
  for(int op = 0; op < 2; ++op)
  {
    std::string cn = std::string("sequence<unit> ") + (op ? "filter_cor" : "filter_sol"); if(!H<DT>::want(cn)) continue;
    H<DT>::begin(cn, "{\"filter\":\"sequence\"}");
    LAFEM::FilterSequence<LAFEM::UnitFilter<DT, Index>> seq;
    { LAFEM::UnitFilter<DT, Index> a(n); a.add(0, H<DT>::var("g0", 3.0)); seq.push_back(std::make_pair(String("a"), std::move(a))); }
    { LAFEM::UnitFilter<DT, Index> b(n); b.add(2, H<DT>::var("g1", 4.0)); seq.push_back(std::make_pair(String("b"), std::move(b))); }
    auto v = make_vec<DT>(n, "v"); auto vb = to_std(v);
    int rc = guarded([&] { if(op) seq.filter_cor(v); else seq.filter_sol(v); }); H<DT>::fact("completes", rc == 0);
    if(rc == 0) { H<DT>::eq("v0", v(0), op ? DT(0) : H<DT>::var("g0", 0)); H<DT>::eq("v1", v(1), vb[1]); H<DT>::eq("v2", v(2), op ? DT(0) : H<DT>::var("g1", 0)); }
    H<DT>::end();
  }
  {
    std::string cn = "tuple<unit,unitblocked> filter_rhs"; if(H<DT>::want(cn))
    {
      H<DT>::begin(cn, "{\"filter\":\"tuple\"}");
      LAFEM::UnitFilter<DT, Index> a(2); a.add(1, H<DT>::var("g0", 3.0));
      LAFEM::UnitFilterBlocked<DT, Index, 2> b(2); TV gv; gv[0] = H<DT>::var("g1", 4.0); gv[1] = H<DT>::var("g2", 5.0); b.add(0, gv);
      LAFEM::TupleFilter<LAFEM::UnitFilter<DT, Index>, LAFEM::UnitFilterBlocked<DT, Index, 2>> tf(std::move(a), std::move(b));
      LAFEM::TupleVector<LAFEM::DenseVector<DT, Index>, VB> tv(LAFEM::DenseVector<DT, Index>(2), VB(2));
      std::vector<DT> vb; for(Index i = 0; i < 6; ++i) vb.push_back(H<DT>::var("v" + str(i), 0.5 - 0.375 * double(i))); vb.push_back(DT(0)); tv.set_vec_inv(vb.data());
      int rc = guarded([&] { tf.filter_rhs(tv); }); H<DT>::fact("completes", rc == 0);
      if(rc == 0) { std::vector<DT> g(7, DT(0)); tv.set_vec(g.data()); DT e[6] = {vb[0], H<DT>::var("g0", 0), gv[0], gv[1], vb[4], vb[5]}; for(int i = 0; i < 6; ++i) H<DT>::eq("flat[" + str(Index(i)) + "]", g[size_t(i)], e[i]); }
      H<DT>::end();
    }
  }
}

template<typename DT>
void run_all()
{
  for(Index n = 1; n <= Index(g_maxn); ++n)
  {
    auto subs = ordered_subsets(n, n);
    for(auto& idx : subs) { unit_scalar<DT>(n, idx); unit_blocked<DT, 2>(n, idx); if(n <= 2) unit_blocked<DT, 3>(n, idx); slip<DT, 2>(n, idx); if(n <= 2) slip<DT, 3>(n, idx); }
    if(n <= 2 || g_maxn > 3) for(auto& p : all_patterns(n, n, n <= 2 ? 4 : 5)) for(auto& idx : subs) { unit_matrix<DT>(n, idx, p); if(n <= 2) unit_blocked_matrix<DT, 2>(n, idx, p); }
    if(n == 3 && g_maxn <= 3) { Pattern p = {{0, 1}, {0, 2}, {1}}; /* rows without stored diagonal */ for(auto& idx : subs) unit_matrix<DT>(n, idx, p); Pattern q = {{0, 1, 2}, {1}, {0, 2}}; for(auto& idx : subs) unit_matrix<DT>(n, idx, q); }
    mean<DT>(n); if(n <= 2) mean_blocked<DT>(n);
  }
  compositions<DT>();
  // ignore_nans: every NaN mask of the prescribed block value, 2x2 block-matrix patterns
  for(unsigned m = 0; m < 4; ++m) for(Index row = 0; row < 2; ++row) for(auto& p : all_patterns(2, 2, 4)) if(nnz(p) == 4 || nnz(p) == 2 || nnz(p) == 0) unit_blocked_nans<DT, 2>(2, row, m, p);
  { Pattern p = {{0, 1}, {0, 1}}; for(unsigned m = 0; m < 8; ++m) unit_blocked_nans<DT, 3>(2, 1, m, p); }
}

int main(int argc, char** argv)
{
  int na = argc;
  for(int i = 1; i < argc; ++i) if(std::string(argv[i]) == "--bounds" && i + 1 < argc) { g_maxn = atoi(argv[i + 1]); na = i; }
  return vh::main_dispatch(na, argv, [&] { run_all<vsym::SymReal>(); }, [&] {
#ifdef VH_REPLAY
    run_all<double>();
#endif
  });
}
