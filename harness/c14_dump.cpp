// C14: create every advertised cubature rule BY NAME through the public DynamicFactory from the current tree and dump
// points / weights in hex-float.  Also probe a list of unknown / out-of-range / mis-spelt names (must be refused).
#include <kernel/base_header.hpp>
#include <kernel/cubature/dynamic_factory.hpp>
#include <kernel/cubature/avail_functor.hpp>
#include <kernel/cubature/rule.hpp>
#include <cstdio>
#include <map>
#include <set>
#include <string>
#include <vector>
using namespace FEAT;

template<typename Shape_> const char* shape_name();
template<> const char* shape_name<Shape::Simplex<1>>() { return "S1"; } template<> const char* shape_name<Shape::Simplex<2>>() { return "S2"; } template<> const char* shape_name<Shape::Simplex<3>>() { return "S3"; }
template<> const char* shape_name<Shape::Hypercube<1>>() { return "H1"; } template<> const char* shape_name<Shape::Hypercube<2>>() { return "H2"; } template<> const char* shape_name<Shape::Hypercube<3>>() { return "H3"; }

template<typename Shape_>
void dump_rule(const std::string& name, const std::string& origin)
{
  Cubature::Rule<Shape_, double, double, Tiny::Vector<double, Shape_::dimension>> rule;
  bool ok = false;
  try { ok = Cubature::DynamicFactory::create(rule, String(name)); } catch(...) { ok = false; }
  if(!ok) { std::printf("REFUSED %s %s\t%s\n", shape_name<Shape_>(), name.c_str(), origin.c_str()); return; }
  std::printf("RULE %s %s\t%s\t%s\t%d\n", shape_name<Shape_>(), name.c_str(), origin.c_str(), rule.get_name().c_str(), rule.get_num_points());
  for(int i = 0; i < rule.get_num_points(); ++i)
  {
    std::printf("P %a", rule.get_weight(i));
    for(int d = 0; d < Shape_::dimension; ++d) std::printf(" %a", rule.get_coord(i, d));
    std::printf("\n");
  }
}

template<typename Shape_>
void dump_shape(int max_refine)
{
  std::map<String, String> names; Cubature::Intern::AvailMapFunctor functor(names);
  Cubature::FactoryWrapper<Shape_>::factory_no_refine(functor);
  std::set<std::string> concrete;
  for(auto& kv : names)
  {
    std::string n = kv.first;
    std::printf("ADVERTISED %s %s -> %s\n", shape_name<Shape_>(), n.c_str(), kv.second.c_str());
    size_t p = n.find(":<");
    if(p != std::string::npos)
    {
      int lo = 0, hi = 0; std::sscanf(n.c_str() + p + 2, "%d-%d", &lo, &hi);
      std::string base = n.substr(0, p);
      for(int k = lo; k <= hi; ++k) concrete.insert(base + ":" + std::to_string(k));
      // out-of-range parameters must be refused
      dump_rule<Shape_>(base + ":" + std::to_string(lo - 1), "out-of-range"); dump_rule<Shape_>(base + ":" + std::to_string(hi + 1), "out-of-range");
      dump_rule<Shape_>(base + ":x", "malformed"); dump_rule<Shape_>(base, "missing-parameter");
    }
    else concrete.insert(n);
  }
  for(auto& n : concrete)
  {
    dump_rule<Shape_>(n, "advertised");
    for(int k = 1; k <= max_refine; ++k) dump_rule<Shape_>(k == 1 ? "refine:" + n : "refine*" + std::to_string(k) + ":" + n, "refine");
  }
  for(int d = 0; d <= Cubature::AutoAlias<Shape_>::max_auto_degree; ++d) dump_rule<Shape_>("auto-degree:" + std::to_string(d), "auto-degree");
  dump_rule<Shape_>("refine:auto-degree:3", "auto-degree-refine");
  // unknown names
  const char* bad[] = {"", "gauss", "gauss-legendre", "gauss-legendre:", "gauss_legendre:2", "dunavant:0", "dunavant:21", "no-such-rule", "refine:no-such-rule", "auto-degree:x", "barycentre:1", "refine*0:barycentre", "trapezoidal:2", "auto-foo:3", "gauss-legendre:2:3"};
  for(const char* b : bad) dump_rule<Shape_>(b, "unknown");
}

int main(int argc, char** argv)
{
  int mr = argc > 1 ? atoi(argv[1]) : 1;
  dump_shape<Shape::Simplex<1>>(mr); dump_shape<Shape::Simplex<2>>(mr); dump_shape<Shape::Simplex<3>>(mr);
  dump_shape<Shape::Hypercube<1>>(mr); dump_shape<Shape::Hypercube<2>>(mr); dump_shape<Shape::Hypercube<3>>(mr);
  return 0;
}
