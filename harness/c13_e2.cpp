// C13 (E2, partial): the process-local building blocks of the distributed layer on a symbolic scalar: VectorMirror / TupleMirror
// gather and scatter_axpy (buffer offsets included), Gate::compile frequencies, frequency-weighted dot products and the
// type-1 -> type-0 conversion.  A type-0 synchronisation between patches is emulated in one process with the real mirrors.
#include "feat_helpers.hpp"
#include <kernel/lafem/vector_mirror.hpp>
#include <kernel/lafem/tuple_mirror.hpp>
#include <kernel/lafem/matrix_mirror.hpp>
#include <kernel/lafem/sparse_matrix_csr.hpp>
#include <kernel/lafem/sparse_matrix_bcsr.hpp>
#include <kernel/lafem/tuple_vector.hpp>
#include <kernel/lafem/dense_vector_blocked.hpp>
#include <kernel/global/gate.hpp>
#include <kernel/util/dist.hpp>
#include <algorithm>
using namespace FEAT; using namespace vh;
static int g_level = 1;
typedef std::vector<Index> IL;

template<typename DT> LAFEM::VectorMirror<DT, Index> mk_mirror(Index n, const IL& idx)
{
  LAFEM::VectorMirror<DT, Index> m(n, Index(idx.size()));
  for(size_t k = 0; k < idx.size(); ++k) m.indices()[k] = idx[k];
  return m;
}
static std::vector<IL> ordered_subsets(Index n, Index kmax)
{
  std::vector<IL> out = {{}}; std::vector<IL> cur = {{}};
  for(Index k = 1; k <= kmax && k <= n; ++k) { std::vector<IL> nxt; for(auto& c : cur) for(Index i = 0; i < n; ++i) if(std::find(c.begin(), c.end(), i) == c.end()) { auto d = c; d.push_back(i); nxt.push_back(d); out.push_back(d); } cur = nxt; }
  return out;
}

template<typename DT>
void mirror_cases(Index n, const IL& idx, Index off)
{
  typedef LAFEM::DenseVector<DT, Index> DV; typedef LAFEM::DenseVectorBlocked<DT, Index, 2> DVB;
  std::string cfg = "n=" + str(n) + " idx[" + join(idx) + "] offset=" + str(off);
  { std::string cn = "mirror dense " + cfg; if(H<DT>::want(cn)) {
    H<DT>::begin(cn, "{\"part\":\"mirror\"}");
    auto m = mk_mirror<DT>(n, idx); DV v = make_vec<DT>(n, "v"); auto vb = to_std(v); Index ni = Index(idx.size());
    DV buf(off + ni + 1); std::vector<DT> bb; for(Index i = 0; i < buf.size(); ++i) { DT x = H<DT>::var("buf" + str(i), 5.0 + double(i)); buf(i, x); bb.push_back(x); }
    DT alpha = H<DT>::var("alpha", 0.75);
    int rc = guarded([&] {
      m.gather(buf, v, off);
      for(Index i = 0; i < buf.size(); ++i) H<DT>::eq("gather buffer[" + str(i) + "]", buf(i), (i >= off && i < off + ni) ? vb[idx[i - off]] : bb[i]);
      for(Index i = 0; i < n; ++i) H<DT>::eq("gather leaves vector[" + str(i) + "]", v(i), vb[i]);
      DV w = make_vec<DT>(n, "w", -1.5, 0.25); auto wb = to_std(w);
      DV b2(off + ni + 1); std::vector<DT> b2b; for(Index i = 0; i < b2.size(); ++i) { DT x = H<DT>::var("sb" + str(i), -2.0 + 0.5 * double(i)); b2(i, x); b2b.push_back(x); }
      m.scatter_axpy(w, b2, alpha, off);
      for(Index i = 0; i < n; ++i) { auto it = std::find(idx.begin(), idx.end(), i); H<DT>::eq("scatter_axpy vector[" + str(i) + "]", w(i), it == idx.end() ? wb[i] : DT(wb[i] + alpha * b2b[off + Index(it - idx.begin())])); }
      for(Index i = 0; i < b2.size(); ++i) H<DT>::eq("scatter leaves buffer[" + str(i) + "]", b2(i), b2b[i]);
    });
    H<DT>::fact("completes", rc == 0); H<DT>::end(); } }
  { std::string cn = "mirror blocked2 " + cfg; if(H<DT>::want(cn)) {
    H<DT>::begin(cn, "{\"part\":\"mirror\"}");
    auto m = mk_mirror<DT>(n, idx); DVB v(n); std::vector<DT> vb; Index ni = Index(idx.size());
    for(Index i = 0; i < 2 * n; ++i) { DT x = H<DT>::var("v" + str(i), 0.5 - 0.375 * double(i)); v.template elements<LAFEM::Perspective::pod>()[i] = x; vb.push_back(x); }
    LAFEM::DenseVector<DT, Index> buf(off + 2 * ni + 1); std::vector<DT> bb; for(Index i = 0; i < buf.size(); ++i) { DT x = H<DT>::var("buf" + str(i), 5.0 + double(i)); buf(i, x); bb.push_back(x); }
    DT alpha = H<DT>::var("alpha", 0.75);
    int rc = guarded([&] {
      m.gather(buf, v, off);
      for(Index i = 0; i < buf.size(); ++i) H<DT>::eq("gather buffer[" + str(i) + "]", buf(i), (i >= off && i < off + 2 * ni) ? vb[2 * idx[(i - off) / 2] + (i - off) % 2] : bb[i]);
      m.scatter_axpy(v, buf, alpha, off);
      for(Index i = 0; i < n; ++i) for(Index c = 0; c < 2; ++c) { bool in = std::find(idx.begin(), idx.end(), i) != idx.end(); H<DT>::eq("gather+scatter_axpy vector[" + str(i) + "." + str(c) + "]", v.template elements<LAFEM::Perspective::pod>()[2 * i + c], in ? DT(vb[2 * i + c] + alpha * vb[2 * i + c]) : vb[2 * i + c]); }
    });
    H<DT>::fact("completes", rc == 0); H<DT>::end(); } }
}

// tuple mirrors over tuple vectors with 2 and 3 components: gather packs the components one after the other, scatter must read the same positions
template<typename DT>
void tuple_cases()
{
  typedef LAFEM::DenseVector<DT, Index> DV; typedef LAFEM::VectorMirror<DT, Index> VM;
  const Index n = 3; IL i1 = {2, 0}, i2 = {1}, i3 = {0, 1, 2};
  for(Index off = 0; off < 2; ++off)
  {
    { std::string cn = "tuple mirror 2 components offset=" + str(off); if(H<DT>::want(cn)) {
      H<DT>::begin(cn, "{\"part\":\"tuple mirror\"}");
      LAFEM::TupleMirror<VM, VM> tm(mk_mirror<DT>(n, i1), mk_mirror<DT>(n, i2));
      LAFEM::TupleVector<DV, DV> tv(make_vec<DT>(n, "a"), make_vec<DT>(n, "b", -1.0, 0.5)), tw(make_vec<DT>(n, "c", 2.0, 0.25), make_vec<DT>(n, "d", 0.125, 0.75));
      std::vector<DT> fa(2 * n + 1), fc(2 * n + 1); tv.set_vec(fa.data()); tw.set_vec(fc.data());
      DV buf(off + 3 + 1); for(Index i = 0; i < buf.size(); ++i) buf(i, H<DT>::var("buf" + str(i), 5.0 + double(i)));
      DT alpha = H<DT>::var("alpha", 0.75);
      int rc = guarded([&] { tm.gather(buf, tv, off); tm.scatter_axpy(tw, buf, alpha, off); });
      H<DT>::fact("completes", rc == 0);
      std::vector<DT> g(2 * n + 1); tw.set_vec(g.data());
      for(Index i = 0; i < n; ++i) { bool in1 = std::find(i1.begin(), i1.end(), i) != i1.end(), in2 = std::find(i2.begin(), i2.end(), i) != i2.end();
        H<DT>::eq("component 0 [" + str(i) + "]", g[i], in1 ? DT(fc[i] + alpha * fa[i]) : fc[i]); H<DT>::eq("component 1 [" + str(i) + "]", g[n + i], in2 ? DT(fc[n + i] + alpha * fa[n + i]) : fc[n + i]); }
      H<DT>::end(); } }
    { std::string cn = "tuple mirror 3 components offset=" + str(off); if(H<DT>::want(cn)) {
      H<DT>::begin(cn, "{\"part\":\"tuple mirror\"}");
      LAFEM::TupleMirror<VM, VM, VM> tm(mk_mirror<DT>(n, i1), mk_mirror<DT>(n, i2), mk_mirror<DT>(n, i3));
      LAFEM::TupleVector<DV, DV, DV> tv(make_vec<DT>(n, "a"), make_vec<DT>(n, "b", -1.0, 0.5), make_vec<DT>(n, "e", 0.75, 0.3125)), tw(make_vec<DT>(n, "c", 2.0, 0.25), make_vec<DT>(n, "d", 0.125, 0.75), make_vec<DT>(n, "f", -0.5, 0.125));
      std::vector<DT> fa(3 * n + 1), fc(3 * n + 1); tv.set_vec(fa.data()); tw.set_vec(fc.data());
      DV buf(off + 6 + 1); for(Index i = 0; i < buf.size(); ++i) buf(i, H<DT>::var("buf" + str(i), 5.0 + double(i)));
      DT alpha = H<DT>::var("alpha", 0.75);
      int rc = guarded([&] { tm.gather(buf, tv, off); tm.scatter_axpy(tw, buf, alpha, off); });
      H<DT>::fact("completes", rc == 0);
      std::vector<DT> g(3 * n + 1); tw.set_vec(g.data()); const IL* il[3] = {&i1, &i2, &i3};
      for(Index c = 0; c < 3; ++c) for(Index i = 0; i < n; ++i) { bool in = std::find(il[c]->begin(), il[c]->end(), i) != il[c]->end(); H<DT>::eq("component " + str(c) + " [" + str(i) + "]", g[c * n + i], in ? DT(fc[c * n + i] + alpha * fa[c * n + i]) : fc[c * n + i]); }
      H<DT>::end(); } }
  }
}

// Gate: frequencies, weighted dot product, type-1 -> type-0 conversion; k neighbour mirrors with overlapping index sets
template<typename DT>
void gate_cases(Index n, const std::vector<IL>& mirrors)
{
  typedef LAFEM::DenseVector<DT, Index> DV; typedef LAFEM::VectorMirror<DT, Index> VM;
  std::string cfg = "n=" + str(n) + " mirrors"; for(auto& m : mirrors) cfg += " [" + join(m) + "]";
  std::string cn = "gate " + cfg; if(!H<DT>::want(cn)) return;
  H<DT>::begin(cn, "{\"part\":\"gate\"}");
  int rc = guarded([&] {
    Dist::Comm comm = Dist::Comm::world();
    Global::Gate<DV, VM> gate; gate.set_comm(&comm);
    for(auto& m : mirrors) gate.push(0, mk_mirror<DT>(n, m));
    gate.compile(DV(n));
    std::vector<Index> cnt(n, 1); for(auto& m : mirrors) for(Index i : m) ++cnt[i];
    for(Index i = 0; i < n; ++i) H<DT>::eq("frequency[" + str(i) + "] * (1 + #mirrors containing it) == 1", gate.get_freqs()(i) * DT(double(cnt[i])), DT(1));
    DV x = make_vec<DT>(n, "x"), y = make_vec<DT>(n, "y", -0.25, 0.625); auto xb = to_std(x), yb = to_std(y);
    DT d = DT(0); for(Index i = 0; i < n; ++i) d += xb[i] * yb[i] / DT(double(cnt[i]));
    H<DT>::eq("weighted local dot product", gate.get_freqs().triple_dot(x, y), d);
    gate.from_1_to_0(x); for(Index i = 0; i < n; ++i) H<DT>::eq("from_1_to_0[" + str(i) + "]", x(i) * DT(double(cnt[i])), xb[i]);
  });
  H<DT>::fact("completes", rc == 0, "abort");
  H<DT>::end();
}

// emulated type-0 synchronisation between P patches of a 1D chain / a cross point: every patch gathers for each neighbour from its
// pre-sync vector, then scatters every received buffer: shared entries must hold the sum over all sharing patches exactly once
template<typename DT>
void sync_emulation()
{
  typedef LAFEM::DenseVector<DT, Index> DV; typedef LAFEM::VectorMirror<DT, Index> VM;
  // three patches sharing one cross point (local dof 0 on each) and pairwise interface dofs: patch p has local dofs: 0 = cross, 1 = shared with (p+1)%3, 2 = shared with (p+2)%3, 3 = interior
  std::string cn = "emulated sync_0 with three patches around a cross point"; if(!H<DT>::want(cn)) return;
  H<DT>::begin(cn, "{\"part\":\"sync\"}");
  const int P = 3; DV v[P]; std::vector<DT> vb[P];
  for(int p = 0; p < P; ++p) { v[p] = make_vec<DT>(4, "p" + str(Index(p)) + "_", 0.5 + p, 0.375); vb[p] = to_std(v[p]); }
  // mirror of patch p for neighbour q: cross point + the interface dof shared with q
  auto mir = [&](int p, int q) { IL il = {0, Index(((q - p + P) % P == 1) ? 1 : 2)}; return mk_mirror<DT>(4, il); };
  int rc = guarded([&] {
    std::vector<std::vector<DV>> send((size_t)P);   // send[p][k] = buffer of patch p for neighbour k-th
    for(int p = 0; p < P; ++p) for(int q = 0; q < P; ++q) if(q != p) { VM m = mir(p, q); DV b = m.create_buffer(v[p]); m.gather(b, v[p], 0); send[size_t(p)].push_back(std::move(b)); }
    for(int p = 0; p < P; ++p) { int k = 0; for(int q = 0; q < P; ++q) if(q != p) { (void)k; VM m = mir(p, q); /* buffer sent by q to p */ int kk = 0, idx = 0; for(int r = 0; r < P; ++r) if(r != q) { if(r == p) idx = kk; ++kk; } m.scatter_axpy(v[p], send[size_t(q)][size_t(idx)], DT(1), 0); } }
  });
  H<DT>::fact("completes", rc == 0);
  DT cross = vb[0][0] + vb[1][0] + vb[2][0];
  for(int p = 0; p < P; ++p)
  {
    H<DT>::eq("cross point holds the sum over all three patches once (patch " + str(Index(p)) + ")", v[p](0), cross);
    int q1 = (p + 1) % P, q2 = (p + 2) % P;
    H<DT>::eq("interface dof with next patch (patch " + str(Index(p)) + ")", v[p](1), vb[p][1] + vb[q1][2]);
    H<DT>::eq("interface dof with previous patch (patch " + str(Index(p)) + ")", v[p](2), vb[p][2] + vb[q2][1]);
    H<DT>::eq("interior dof untouched (patch " + str(Index(p)) + ")", v[p](3), vb[p][3]);
  }
  H<DT>::end();
}

// matrix mirrors: buffer(k,l) = A(rows[k], cols[l]) on the buffer pattern (entries of A outside the mirrored rows/columns are not touched)
template<typename DT>
void matrix_mirror_cases(Index m, Index n, const Pattern& p, const IL& ri, const IL& ci)
{
  typedef LAFEM::SparseMatrixCSR<DT, Index> CSR; typedef LAFEM::SparseMatrixBCSR<DT, Index, 2, 3> BCSR;
  std::string cfg = str(m) + "x" + str(n) + " [" + pat_str(p) + "] rows[" + join(ri) + "] cols[" + join(ci) + "]";
  { std::string cn = "matrix mirror csr " + cfg; if(H<DT>::want(cn)) {
    H<DT>::begin(cn, "{\"part\":\"matrix mirror\"}");
    Dense<DT> DA, DB; CSR A = make_csr<DT>(m, n, p, "a", &DA), B = make_csr<DT>(m, n, p, "b", &DB); DT alpha = H<DT>::var("alpha", 0.75);
    int rc = guarded([&] {
      auto rm = mk_mirror<DT>(m, ri); auto cm = mk_mirror<DT>(n, ci); LAFEM::MatrixMirror<DT, Index> mm(rm, cm);
      auto buf = mm.create_buffer(A); mm.gather(buf, A);
      H<DT>::fact("buffer dimensions", buf.rows() == Index(ri.size()) && buf.columns() == Index(ci.size()));
      // buffer pattern == mirrored part of the matrix pattern; values == mirrored entries
      Dense<DT> G = dense_zero<DT>(Index(ri.size()), Index(ci.size())); std::vector<std::vector<int>> has(ri.size(), std::vector<int>(ci.size(), 0));
      for(Index k = 0; k < buf.rows(); ++k) for(Index q = buf.row_ptr()[k]; q < buf.row_ptr()[k + 1]; ++q) { G[k][buf.col_ind()[q]] = buf.val()[q]; has[k][buf.col_ind()[q]] += 1; }
      bool pat_ok = true;
      for(size_t k = 0; k < ri.size(); ++k) for(size_t l = 0; l < ci.size(); ++l) { bool in = std::find(p[ri[k]].begin(), p[ri[k]].end(), ci[l]) != p[ri[k]].end(); pat_ok = pat_ok && (has[k][l] == (in ? 1 : 0)); if(in) H<DT>::eq("gather (" + str(Index(k)) + "," + str(Index(l)) + ")", G[k][l], DA[ri[k]][ci[l]]); }
      H<DT>::fact("buffer pattern == mirrored part of the matrix pattern", pat_ok);
      mm.scatter_axpy(B, buf, alpha); Dense<DT> R = csr_to_dense<DT>(B);
      for(Index i = 0; i < m; ++i) for(Index j = 0; j < n; ++j)
      {
        auto itr = std::find(ri.begin(), ri.end(), i); auto itc = std::find(ci.begin(), ci.end(), j); bool in = std::find(p[i].begin(), p[i].end(), j) != p[i].end();
        H<DT>::eq("scatter_axpy (" + str(i) + "," + str(j) + ")", R[i][j], (in && itr != ri.end() && itc != ci.end()) ? DT(DB[i][j] + alpha * DA[i][j]) : DB[i][j]);
      }
    });
    H<DT>::fact("completes", rc == 0, rc == 2 ? "memory fault" : "abort"); H<DT>::end(); } }
  { std::string cn = "matrix mirror bcsr<2x3> " + cfg; if(H<DT>::want(cn)) {
    H<DT>::begin(cn, "{\"part\":\"matrix mirror\"}");
    Dense<DT> DA, DB; BCSR A = make_bcsr<DT, Index, 2, 3, BCSR>(m, n, p, "a", &DA), B = make_bcsr<DT, Index, 2, 3, BCSR>(m, n, p, "b", &DB); DT alpha = H<DT>::var("alpha", 0.75);
    if(nnz(p) > 0) {
    int rc = guarded([&] {
      auto rm = mk_mirror<DT>(m, ri); auto cm = mk_mirror<DT>(n, ci); LAFEM::MatrixMirror<DT, Index> mm(rm, cm);
      auto buf = mm.template create_buffer<2, 3>(A); mm.template gather<2, 3>(buf, A); mm.template scatter_axpy<2, 3>(B, buf, alpha);
      for(Index i = 0; i < m; ++i) for(Index q = B.row_ptr()[i]; q < B.row_ptr()[i + 1]; ++q)
      {
        const Index j = B.col_ind()[q]; bool mir = std::find(ri.begin(), ri.end(), i) != ri.end() && std::find(ci.begin(), ci.end(), j) != ci.end();
        for(int a = 0; a < 2; ++a) for(int b = 0; b < 3; ++b) H<DT>::eq("gather + scatter_axpy block (" + str(i) + "," + str(j) + ")[" + str(Index(a)) + str(Index(b)) + "]", B.val()[q](a, b), mir ? DT(DB[i * 2 + Index(a)][j * 3 + Index(b)] + alpha * DA[i * 2 + Index(a)][j * 3 + Index(b)]) : DB[i * 2 + Index(a)][j * 3 + Index(b)]);
      }
    });
    H<DT>::fact("completes", rc == 0, rc == 2 ? "memory fault" : "abort"); }
    H<DT>::end(); } }
}

template<typename DT>
void run_all()
{
  for(Index n = 1; n <= Index(g_level > 1 ? 4 : 3); ++n) for(auto& idx : ordered_subsets(n, n)) for(Index off = 0; off < 2; ++off) mirror_cases<DT>(n, idx, off);
  tuple_cases<DT>();
  gate_cases<DT>(3, {}); gate_cases<DT>(3, {{0}}); gate_cases<DT>(3, {{0, 1}, {1, 2}}); gate_cases<DT>(4, {{0, 1}, {0, 2}, {0, 3}}); gate_cases<DT>(4, {{0, 1, 2}, {0, 2}, {2, 0, 3}});
  if(g_level > 1) gate_cases<DT>(5, {{0, 1}, {0, 2}, {0, 3}, {0, 4, 1}});
  sync_emulation<DT>();
  // matrix mirrors on 2x2 / 3x2 matrices: every pattern with <= 3 entries, a few ordered row / column mirrors
  for(auto& p : all_patterns(2, 2, 3)) for(auto& ri : std::vector<IL>{{0}, {1, 0}, {}}) for(auto& ci : std::vector<IL>{{1}, {0, 1}}) matrix_mirror_cases<DT>(2, 2, p, ri, ci);
  if(g_level > 1) for(auto& p : all_patterns(3, 2, 4)) for(auto& ri : std::vector<IL>{{2, 0}, {1}}) for(auto& ci : std::vector<IL>{{1, 0}, {0}}) matrix_mirror_cases<DT>(3, 2, p, ri, ci);
}

int main(int argc, char** argv)
{
  int na = argc;
  for(int i = 1; i < argc; ++i) if(std::string(argv[i]) == "--bounds" && i + 1 < argc) { g_level = atoi(argv[i + 1]); na = i; }
  return vh::main_dispatch(na, argv, [&] { run_all<vsym::SymReal>(); }, [&] {
#ifdef VH_REPLAY
    run_all<double>();
#endif
  });
}
