// C15 (E2): finite-element bases and the standard transformation on ONE cell with symbolic vertex coordinates and a symbolic
// reference point, executed on the real element / trafo evaluators:
//  * partition of unity (sum phi = 1, sum grad = 0, sum hess = 0) for the H1/L2 families that contain constants
//  * derivative consistency: J^T grad == d value / d xi,  J == d x / d xi,  second-order chain rule for Hessians
//    (the driver differentiates the returned value terms symbolically w.r.t. the reference coordinates)
//  * interpolation (real node functionals / Interpolator) of a symbolic polynomial lying in the local space reproduces it
//  * jac_det of affine simplices == closed-form volume factor
#include "feat_helpers.hpp"
#include <kernel/geometry/conformal_mesh.hpp>
#include <kernel/geometry/reference_cell_factory.hpp>
#include <kernel/trafo/standard/mapping.hpp>
#include <kernel/space/lagrange1/element.hpp>
#include <kernel/space/lagrange2/element.hpp>
#include <kernel/space/discontinuous/element.hpp>
#include <kernel/space/cro_rav_ran_tur/element.hpp>
#include <kernel/space/bernstein2/element.hpp>
#include <kernel/assembly/asm_traits.hpp>
#include <kernel/assembly/interpolator.hpp>
#include <kernel/analytic/lambda_function.hpp>
using namespace FEAT; using namespace vh;
static int g_level = 1;

template<typename Shape_> struct ShapeInfo;
template<> struct ShapeInfo<Shape::Simplex<2>> { static const char* name() { return "tria"; } static constexpr bool simplex = true; };
template<> struct ShapeInfo<Shape::Hypercube<2>> { static const char* name() { return "quad"; } static constexpr bool simplex = false; };
template<> struct ShapeInfo<Shape::Simplex<3>> { static const char* name() { return "tetra"; } static constexpr bool simplex = true; };
template<> struct ShapeInfo<Shape::Hypercube<3>> { static const char* name() { return "hexa"; } static constexpr bool simplex = false; };

// one-cell mesh; geometry kinds: 0 = all vertex coordinates symbolic (general cell), 1 = symbolic affine image of the reference cell
template<typename DT, typename Shape_>
Geometry::ConformalMesh<Shape_, Shape_::dimension, DT> make_cell(int geo, const std::string& pf)
{
  typedef Geometry::ConformalMesh<Shape_, Shape_::dimension, DT> Mesh; constexpr int dim = Shape_::dimension;
  Geometry::ReferenceCellFactory<Shape_, DT> fac; Mesh mesh(fac);
  auto& vs = mesh.get_vertex_set(); const Index nv = mesh.get_num_entities(0);
  if(geo == 0)
  {
    for(Index v = 0; v < nv; ++v) for(int d = 0; d < dim; ++d)
    {
      double ref = double(vs[v][d]);
      // shadow: a mildly distorted, positively oriented copy of the reference cell
      double sh = ref * (1.0 + 0.125 * d) + 0.09375 * double((v * 7 + Index(d) * 3) % 5) - 0.0625 * double((v + Index(d)) % 3) + 0.3 * d;
      vs[v][d] = H<DT>::var(pf + "v" + str(v) + "_" + str(Index(d)), sh);
    }
  }
  else
  {
    // x = B xhat + c with symbolic B (shadow: well conditioned, det > 0) and c
    DT B[3][3], c[3];
    for(int i = 0; i < dim; ++i) { c[i] = H<DT>::var(pf + "c" + str(Index(i)), 0.25 * i - 0.125); for(int j = 0; j < dim; ++j) B[i][j] = H<DT>::var(pf + "B" + str(Index(i)) + str(Index(j)), (i == j ? 1.25 + 0.25 * i : 0.1875 * (i + 1) - 0.125 * j)); }
    for(Index v = 0; v < nv; ++v) { DT r[3]; for(int d = 0; d < dim; ++d) r[d] = vs[v][d]; for(int i = 0; i < dim; ++i) { DT s = c[i]; for(int j = 0; j < dim; ++j) s += B[i][j] * r[j]; vs[v][i] = s; } }
  }
  return mesh;
}

template<typename DT, typename Shape_, template<typename...> class Elem_, bool HESS_, typename... Extra_>
void element_cases(const std::string& ename, bool has_constants, int poly_deg)
{
  typedef Geometry::ConformalMesh<Shape_, Shape_::dimension, DT> Mesh; constexpr int dim = Shape_::dimension;
  typedef Trafo::Standard::Mapping<Mesh> TrafoT; typedef Elem_<TrafoT, Extra_...> SpaceT;
  typedef Assembly::AsmTraits1<DT, SpaceT, TrafoTags::img_point | TrafoTags::jac_mat | TrafoTags::jac_inv | TrafoTags::jac_det | TrafoTags::hess_ten | TrafoTags::hess_inv,
    (HESS_ ? (SpaceTags::value | SpaceTags::grad | SpaceTags::hess) : (SpaceTags::value | SpaceTags::grad))> AT;
  constexpr bool h1_hess = HESS_;
  for(int geo = 0; geo < 2; ++geo)
  {
    if(geo == 0 && dim == 3 && g_level < 2 && !ShapeInfo<Shape_>::simplex) continue; // general hexahedra: thorough tier
    std::string cfg = ename + " on " + ShapeInfo<Shape_>::name() + (geo ? " (affine image)" : " (general vertices)");
    // ---------------- pointwise identities
    {
      std::string cn = "basis " + cfg; if(H<DT>::want(cn)) {
      H<DT>::begin(cn, "{\"element\":\"" + ename + "\",\"shape\":\"" + ShapeInfo<Shape_>::name() + "\"}");
      int rc = guarded([&] {
        Mesh mesh = make_cell<DT, Shape_>(geo, "g" + str(Index(geo)) + "_"); TrafoT trafo(mesh); SpaceT space(trafo);
        typename AT::TrafoEvaluator trafo_eval(trafo); typename AT::SpaceEvaluator space_eval(space);
        typename AT::TrafoEvalData td; typename AT::SpaceEvalData sd;
        typename AT::TrafoEvaluator::DomainPointType xi; std::vector<std::string> xin;
        for(int d = 0; d < dim; ++d) { xin.push_back("xi" + str(Index(d))); xi[d] = H<DT>::var(xin.back(), ShapeInfo<Shape_>::simplex ? 0.21875 + 0.0625 * d : 0.3125 - 0.4375 * d); }
        trafo_eval.prepare(0); space_eval.prepare(trafo_eval);
        trafo_eval(td, xi); space_eval(sd, td);
        const int n = space_eval.get_num_local_dofs();
        H<DT>::fact("positive orientation at the shadow point", H<DT>::sh(td.jac_det) > 0.0);
        // trafo: J = d x / d xi ; hess_ten = d J / d xi
        for(int i = 0; i < dim; ++i) for(int j = 0; j < dim; ++j)
        {
          H<DT>::deq("jac_mat[" + str(Index(i)) + "][" + str(Index(j)) + "] = d x_i / d xi_j", td.img_point[i], xin[size_t(j)], td.jac_mat[i][j]);
          for(int k = 0; k < dim; ++k) H<DT>::deq("hess_ten[" + str(Index(i)) + "][" + str(Index(j)) + "][" + str(Index(k)) + "] = d J_ij / d xi_k", td.jac_mat[i][j], xin[size_t(k)], td.hess_ten[i][j][k]);
        }
        // J * J^-1 = I
        for(int i = 0; i < dim; ++i) for(int j = 0; j < dim; ++j) { DT s = DT(0); for(int k = 0; k < dim; ++k) s += td.jac_mat[i][k] * td.jac_inv[k][j]; H<DT>::eq("J*Jinv[" + str(Index(i)) + "][" + str(Index(j)) + "]", s, DT(i == j ? 1 : 0)); }
        if(has_constants)
        {
          DT sv = DT(0); for(int a = 0; a < n; ++a) sv += sd.phi[a].value; H<DT>::eq("partition of unity", sv, DT(1));
          for(int i = 0; i < dim; ++i) { DT sg = DT(0); for(int a = 0; a < n; ++a) sg += sd.phi[a].grad[i]; H<DT>::eq("sum of gradients [" + str(Index(i)) + "]", sg, DT(0)); }
          if constexpr(h1_hess) for(int i = 0; i < dim; ++i) for(int j = 0; j < dim; ++j) { DT sh2 = DT(0); for(int a = 0; a < n; ++a) sh2 += sd.phi[a].hess[i][j]; H<DT>::eq("sum of hessians [" + str(Index(i)) + str(Index(j)) + "]", sh2, DT(0)); }
        }
        // chain rule: d phi / d xi_j = sum_i J_ij grad_i
        for(int a = 0; a < n; ++a) for(int j = 0; j < dim; ++j)
        {
          DT rg = DT(0); for(int i = 0; i < dim; ++i) rg += td.jac_mat[i][j] * sd.phi[a].grad[i];
          H<DT>::deq("phi" + str(Index(a)) + ": J^T grad = d value / d xi_" + str(Index(j)), sd.phi[a].value, xin[size_t(j)], rg);
          if constexpr(h1_hess) if(g_level > 1 || a < (geo == 0 && !ShapeInfo<Shape_>::simplex ? 2 : 4)) for(int k = 0; k < dim; ++k)
          {
            // d/d xi_k (d phi / d xi_j) = sum_ab J_ak H_ab J_bj + sum_i grad_i d^2 x_i / d xi_j d xi_k
            DT rh = DT(0); for(int p = 0; p < dim; ++p) for(int q = 0; q < dim; ++q) rh += td.jac_mat[p][k] * sd.phi[a].hess[p][q] * td.jac_mat[q][j];
            for(int i = 0; i < dim; ++i) rh += sd.phi[a].grad[i] * td.hess_ten[i][j][k];
            H<DT>::deq("phi" + str(Index(a)) + ": second-order chain rule (" + str(Index(j)) + "," + str(Index(k)) + ")", rg, xin[size_t(k)], rh);
          }
        }
        if(ShapeInfo<Shape_>::simplex && geo == 0)
        {
          // affine simplex: det J == determinant of the edge vectors (volume factor), independent of the point
          auto& vs = mesh.get_vertex_set(); DT e[3][3]; for(int j = 0; j < dim; ++j) for(int i = 0; i < dim; ++i) e[i][j] = vs[Index(j + 1)][i] - vs[0][i];
          DT det = (dim == 2) ? DT(e[0][0] * e[1][1] - e[0][1] * e[1][0])
            : DT(e[0][0] * (e[1][1] * e[2][2] - e[1][2] * e[2][1]) - e[0][1] * (e[1][0] * e[2][2] - e[1][2] * e[2][0]) + e[0][2] * (e[1][0] * e[2][1] - e[1][1] * e[2][0]));
          H<DT>::eq("jac_det == volume factor of the simplex", td.jac_det, det);
        }
        space_eval.finish(); trafo_eval.finish();
      });
      H<DT>::fact("completes", rc == 0, rc == 2 ? "memory fault" : "abort");
      H<DT>::end(); }
    }
    // ---------------- interpolation of a polynomial of the local space (affine cells: P_k / Q_k are mapped onto themselves)
    if(poly_deg >= 0 && geo == 1)
    {
      std::string cn = "interpolation " + cfg; if(H<DT>::want(cn)) {
      H<DT>::begin(cn, "{\"element\":\"" + ename + "\"}");
      int rc = guarded([&] {
        Mesh mesh = make_cell<DT, Shape_>(1, "g1_"); TrafoT trafo(mesh); SpaceT space(trafo);
        // symbolic polynomial in the REFERENCE coordinates composed with the inverse affine map would need B^-1; instead use a polynomial
        // in physical coordinates of total degree <= poly_deg (simplex) / of degree <= poly_deg per reference direction is not affine-invariant for Q_k,
        // so hypercubes use total degree <= poly_deg as well (contained in Q_k for every affine image)
        std::vector<std::array<int, 3>> mons; for(int a = 0; a <= poly_deg; ++a) for(int b = 0; a + b <= poly_deg; ++b) for(int c = 0; a + b + c <= poly_deg; ++c) if(dim == 3 || c == 0) mons.push_back({a, b, c});
        std::vector<DT> coef; for(size_t m = 0; m < mons.size(); ++m) coef.push_back(H<DT>::var("pc" + str(Index(m)), 0.5 - 0.1875 * double(m % 5) + 0.0625 * double(m)));
        auto poly = [&](const DT* x) { DT s = DT(0); for(size_t m = 0; m < mons.size(); ++m) { DT t = coef[m]; for(int d = 0; d < dim; ++d) for(int e = 0; e < mons[m][size_t(d)]; ++e) t = t * x[d]; s += t; } return s; };
        LAFEM::DenseVector<DT, Index> vec;
        if constexpr(dim == 2) { auto f = Analytic::create_lambda_function_scalar_2d([&](DT x, DT y) { DT p[3] = {x, y, DT(0)}; return poly(p); }); Assembly::Interpolator::project(vec, f, space); }
        else { auto f = Analytic::create_lambda_function_scalar_3d([&](DT x, DT y, DT z) { DT p[3] = {x, y, z}; return poly(p); }); Assembly::Interpolator::project(vec, f, space); }
        typename AT::TrafoEvaluator trafo_eval(trafo); typename AT::SpaceEvaluator space_eval(space); typename AT::DofMapping dof_map(space);
        typename AT::TrafoEvalData td; typename AT::SpaceEvalData sd; typename AT::TrafoEvaluator::DomainPointType xi;
        for(int d = 0; d < dim; ++d) xi[d] = H<DT>::var("xi" + str(Index(d)), ShapeInfo<Shape_>::simplex ? 0.21875 + 0.0625 * d : 0.3125 - 0.4375 * d);
        trafo_eval.prepare(0); space_eval.prepare(trafo_eval); dof_map.prepare(0);
        trafo_eval(td, xi); space_eval(sd, td);
        DT s = DT(0); for(int a = 0; a < space_eval.get_num_local_dofs(); ++a) s += vec(dof_map.get_index(a)) * sd.phi[a].value;
        DT px[3]; for(int d = 0; d < dim; ++d) px[d] = td.img_point[d];
        H<DT>::eq("interpolant(x(xi)) == p(x(xi))", s, poly(px));
        H<DT>::fact("dof count", vec.size() == space.get_num_dofs());
      });
      H<DT>::fact("completes", rc == 0, rc == 2 ? "memory fault" : "abort");
      H<DT>::end(); }
    }
  }
}

template<typename T> using L1 = Space::Lagrange1::Element<T>;
template<typename T> using L2 = Space::Lagrange2::Element<T>;
template<typename T> using D0 = Space::Discontinuous::Element<T, Space::Discontinuous::Variant::StdPolyP<0>>;
template<typename T> using D1 = Space::Discontinuous::Element<T, Space::Discontinuous::Variant::StdPolyP<1>>;
template<typename T> using CR = Space::CroRavRanTur::Element<T>;
template<typename T> using B2 = Space::Bernstein2::Element<T>;

template<typename DT, typename Shape_>
void run_shape()
{
  element_cases<DT, Shape_, L1, false>("lagrange1", true, 1);
  element_cases<DT, Shape_, L2, true>("lagrange2", true, 2);
  // Discontinuous P0 offers values only (no gradients): not exercised here
  element_cases<DT, Shape_, D1, false>("discontinuous-p1", false, 1);   // modal basis {1,x,y,..}: no partition of unity
  element_cases<DT, Shape_, CR, false>("crouzeix-raviart/rannacher-turek", true, 1);
  // Lagrange3 declares its coefficients as `static constexpr DataType`: not instantiable with a non-literal scalar (outside E2)
}

template<typename DT>
void run_all()
{
  run_shape<DT, Shape::Simplex<2>>(); run_shape<DT, Shape::Hypercube<2>>();
  run_shape<DT, Shape::Simplex<3>>(); run_shape<DT, Shape::Hypercube<3>>();
  element_cases<DT, Shape::Hypercube<2>, B2, true>("bernstein2", true, -1);
}

int main(int argc, char** argv)
{
  int na = argc;
  for(int i = 1; i < argc; ++i) if(std::string(argv[i]) == "--bounds" && i + 1 < argc) { g_level = atoi(argv[i + 1]); na = i; }
  return vh::main_dispatch(na, argv, [&] { run_all<vsym::SymReal>(); }, [&] {
#ifdef VH_REPLAY
    run_all<double>();
#endif
  });
}
