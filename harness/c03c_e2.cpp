// C03 (E2, other formats slice): DenseMatrix algebra (scale, axpy, norm, the four multiply overloads, invert, transpose, transpose_inplace),
// SparseMatrixBanded and SparseMatrixCSCR scale / axpy / norm / element access.  Oracle: dense formulas.
#include "feat_helpers.hpp"
#include <limits>
#include <type_traits>
#include <kernel/lafem/dense_matrix.hpp>
#include <kernel/lafem/sparse_matrix_csr.hpp>
#include <kernel/lafem/sparse_matrix_banded.hpp>
#include <kernel/lafem/sparse_matrix_cscr.hpp>
using namespace FEAT; using namespace vh;
static int g_level = 1;
template<typename DT> using DM = LAFEM::DenseMatrix<DT, Index>;

template<typename DT> DM<DT> mk_dense(Index r, Index c, const std::string& nm, Dense<DT>& D, double base = 1.25, double step = 0.3125)
{
  DM<DT> A(r, c); D = dense_zero<DT>(r, c);
  for(Index i = 0; i < r; ++i) for(Index j = 0; j < c; ++j) { Index k = i * c + j; DT v = H<DT>::var(nm + str(k), (i == j ? 2.5 : 0.0) + base + step * double(k) * ((k % 3 == 1) ? -1.0 : 1.0)); A(i, j, v); D[i][j] = v; }
  return A;
}
template<typename DT> Dense<DT> dm_dense(const DM<DT>& A) { Dense<DT> D = dense_zero<DT>(A.rows(), A.columns()); for(Index i = 0; i < A.rows(); ++i) for(Index j = 0; j < A.columns(); ++j) D[i][j] = A(i, j); return D; }
template<typename DT> Dense<DT> mm(const Dense<DT>& P, const Dense<DT>& Q, Index inner) { Dense<DT> R = dense_zero<DT>(Index(P.size()), Index(Q.empty() ? 0 : Q[0].size())); for(size_t i = 0; i < P.size(); ++i) for(size_t j = 0; j < R[i].size(); ++j) for(Index t = 0; t < inner; ++t) R[i][j] += P[i][t] * Q[t][j]; return R; }

// does op(R) read the previous content of the freshly constructed result matrix R?
//  symbolic build: the read of an uninitialised SymReal is fatal (probed in a forked child under MALLOC_PERTURB_);
//  double build (replay): the previous content is set to NaN, which must not propagate into the result
template<typename DT, typename Op> bool independent_of_old_content(Index m, Index n, Op op)
{
  if constexpr(std::is_same<DT, double>::value)
  {
    DM<DT> R(m, n); for(Index i = 0; i < m; ++i) for(Index j = 0; j < n; ++j) R(i, j, std::numeric_limits<double>::quiet_NaN());
    op(R); bool ok = true; for(Index i = 0; i < m; ++i) for(Index j = 0; j < n; ++j) ok = ok && (R(i, j) == R(i, j));
    return ok;
  }
  else
  {
    return survives([&] { DM<DT> R(m, n); op(R); volatile double sink = 0.0; for(Index i = 0; i < m; ++i) for(Index j = 0; j < n; ++j) sink = sink + H<DT>::sh(R(i, j)); (void)sink; }) == 0;
  }
}

template<typename DT>
void dense_cases(Index m, Index l, Index n)
{
  std::string cfg = str(m) + "x" + str(l) + "x" + str(n);
  auto begin = [&](const std::string& nm) { std::string cn = "dense " + nm + " " + cfg; if(!H<DT>::want(cn)) return false; H<DT>::begin(cn, "{\"format\":\"dense\"}"); return true; };
  auto finish = [&](int rc) { H<DT>::fact("completes", rc == 0, rc == 2 ? "memory fault / read of uninitialised data" : "abort"); H<DT>::end(); };
  if(l == n && begin("scale/axpy/norm"))
  {
    Dense<DT> DA, DB; DM<DT> A = mk_dense<DT>(m, n, "a", DA), B = mk_dense<DT>(m, n, "b", DB, -0.75, 0.1875); DT alpha = H<DT>::var("alpha", 0.75);
    int rc = guarded([&] {
      DM<DT> S(m, n); S.scale(A, alpha); Dense<DT> DS = dm_dense(S); for(Index i = 0; i < m; ++i) for(Index j = 0; j < n; ++j) H<DT>::eq("scale (" + str(i) + "," + str(j) + ")", DS[i][j], alpha * DA[i][j]);
      DM<DT> X = B.clone(); X.axpy(A, alpha); Dense<DT> DX = dm_dense(X); for(Index i = 0; i < m; ++i) for(Index j = 0; j < n; ++j) H<DT>::eq("axpy: this += alpha*x (" + str(i) + "," + str(j) + ")", DX[i][j], DB[i][j] + alpha * DA[i][j]);
      DT f = A.norm_frobenius(), s = DT(0); for(Index i = 0; i < m; ++i) for(Index j = 0; j < n; ++j) s += DA[i][j] * DA[i][j]; H<DT>::eq("norm_frobenius^2", f * f, s);
    });
    finish(rc);
  }
  // this = x * y into a freshly constructed (uninitialised) result matrix: the two-argument overloads document no requirement on the old content
  if(begin("multiply(x,y) into a fresh matrix"))
  {
    Dense<DT> DX, DY; DM<DT> X = mk_dense<DT>(m, l, "x", DX), Y = mk_dense<DT>(l, n, "y", DY, -0.75, 0.1875);
    int alive = independent_of_old_content<DT>(m, n, [&](DM<DT>& R) { R.multiply(X, Y); }) ? 0 : 1;
    H<DT>::fact("result does not depend on the previous content of the result matrix", alive == 0, "entries of the fresh result matrix are read (0 * old value; NaN/Inf garbage propagates)");
    if(alive == 0) { int rc = guarded([&] { DM<DT> R(m, n); R.multiply(X, Y); Dense<DT> DR = dm_dense(R), P = mm(DX, DY, l); for(Index i = 0; i < m; ++i) for(Index j = 0; j < n; ++j) H<DT>::eq("this = x*y (" + str(i) + "," + str(j) + ")", DR[i][j], P[i][j]); }); H<DT>::fact("completes", rc == 0); }
    H<DT>::end();
  }
  if(begin("multiply(csr x, y) into a fresh matrix"))
  {
    Pattern p(m); for(Index i = 0; i < m; ++i) for(Index j = 0; j < l; ++j) if((i + j) % 2 == 0 || l == 1) p[i].push_back(j);
    Dense<DT> DX, DY; auto X = make_csr<DT>(m, l, p, "x", &DX); DM<DT> Y = mk_dense<DT>(l, n, "y", DY, -0.75, 0.1875);
    int alive = independent_of_old_content<DT>(m, n, [&](DM<DT>& R) { R.multiply(X, Y); }) ? 0 : 1;
    H<DT>::fact("result does not depend on the previous content of the result matrix", alive == 0, "entries of the fresh result matrix are read (0 * old value; NaN/Inf garbage propagates)");
    if(alive == 0) { int rc = guarded([&] { DM<DT> R(m, n); R.multiply(X, Y); Dense<DT> DR = dm_dense(R), P = mm(DX, DY, l); for(Index i = 0; i < m; ++i) for(Index j = 0; j < n; ++j) H<DT>::eq("this = x*y (" + str(i) + "," + str(j) + ")", DR[i][j], P[i][j]); }); H<DT>::fact("completes", rc == 0); }
    H<DT>::end();
  }
  if(begin("multiply with alpha, beta"))
  {
    Dense<DT> DX, DY, DZ, DR0; DM<DT> X = mk_dense<DT>(m, l, "x", DX), Y = mk_dense<DT>(l, n, "y", DY, -0.75, 0.1875), Z = mk_dense<DT>(m, n, "z", DZ, 0.375, 0.25), R = mk_dense<DT>(m, n, "r", DR0, 4.0, 0.5);
    DT alpha = H<DT>::var("alpha", 0.75), beta = H<DT>::var("beta", -1.5);
    int rc = guarded([&] {
      R.multiply(X, Y, Z, alpha, beta); Dense<DT> DR = dm_dense(R), P = mm(DX, DY, l);
      for(Index i = 0; i < m; ++i) for(Index j = 0; j < n; ++j) H<DT>::eq("this = beta*z + alpha*x*y (" + str(i) + "," + str(j) + ")", DR[i][j], beta * DZ[i][j] + alpha * P[i][j]);
      Pattern p(m); for(Index i = 0; i < m; ++i) for(Index j = 0; j < l; ++j) if((i + 2 * j) % 3 != 1) p[i].push_back(j);
      Dense<DT> DS; auto S = make_csr<DT>(m, l, p, "s", &DS); Dense<DT> DR1; DM<DT> R1 = mk_dense<DT>(m, n, "q", DR1, 4.0, 0.5);
      R1.multiply(S, Y, alpha, beta); Dense<DT> D1 = dm_dense(R1), P1 = mm(DS, DY, l);
      for(Index i = 0; i < m; ++i) for(Index j = 0; j < n; ++j) H<DT>::eq("this = beta*this + alpha*csr*y (" + str(i) + "," + str(j) + ")", D1[i][j], beta * DR1[i][j] + alpha * P1[i][j]);
    });
    finish(rc);
  }
  if(l == n && begin("transpose"))
  {
    Dense<DT> DA; DM<DT> A = mk_dense<DT>(m, n, "a", DA);
    int rc = guarded([&] {
      DM<DT> T; T.transpose(A); H<DT>::fact("dimensions", T.rows() == n && T.columns() == m);
      if(T.rows() == n && T.columns() == m) for(Index i = 0; i < m; ++i) for(Index j = 0; j < n; ++j) H<DT>::eq("transpose (" + str(j) + "," + str(i) + ")", T(j, i), DA[i][j]);
      DM<DT> U = A.clone(); U.transpose_inplace(); H<DT>::fact("in-place dimensions", U.rows() == n && U.columns() == m);
      if(U.rows() == n && U.columns() == m) for(Index i = 0; i < m; ++i) for(Index j = 0; j < n; ++j) H<DT>::eq("transpose_inplace (" + str(j) + "," + str(i) + ")", U(j, i), DA[i][j]);
    });
    finish(rc);
  }
  if(m == l && l == n && begin("invert"))
  {
    Dense<DT> DA; DM<DT> A = mk_dense<DT>(m, m, "a", DA);
    int rc = guarded([&] { DM<DT> I = A.inverse(); Dense<DT> DI = dm_dense(I), P = mm(DA, DI, m); for(Index i = 0; i < m; ++i) for(Index j = 0; j < m; ++j) H<DT>::eq("A * inverse == I (" + str(i) + "," + str(j) + ")", P[i][j], DT(i == j ? 1 : 0)); });
    finish(rc);
  }
}

template<typename DT>
void sparse_cases()
{
  typedef LAFEM::SparseMatrixBanded<DT, Index> BM; typedef LAFEM::SparseMatrixCSCR<DT, Index> CM;
  const std::vector<std::pair<std::pair<Index, Index>, std::vector<Index>>> bands = {{{2, 2}, {1}}, {{2, 2}, {0, 1, 2}}, {{3, 2}, {1, 3}}, {{2, 3}, {0, 2}}, {{3, 3}, {1, 2, 4}}};
  for(auto& bc : bands)
  {
    Index r = bc.first.first, c = bc.first.second; std::string cn = "banded scale/axpy/norm/access " + str(r) + "x" + str(c) + " offsets[" + join(bc.second) + "]"; if(!H<DT>::want(cn)) continue;
    H<DT>::begin(cn, "{\"format\":\"banded\"}");
    Dense<DT> DA, DB; BM A = make_banded<DT, Index, BM>(r, c, bc.second, "a", &DA), B = make_banded<DT, Index, BM>(r, c, bc.second, "b", &DB); DT alpha = H<DT>::var("alpha", 0.75);
    // the parts of the virtual bands outside the matrix (padding) are zero, as FEAT's own constructors / conversions produce them
    for(BM* M : {&A, &B}) for(Index b = 0; b < Index(bc.second.size()); ++b) for(Index i = 0; i < r; ++i) { long j = long(i) + long(bc.second[b]) - long(r - 1); if(j < 0 || j >= long(c)) M->val()[b * r + i] = DT(0); }
    int rc = guarded([&] {
      for(Index i = 0; i < r; ++i) for(Index j = 0; j < c; ++j) H<DT>::eq("operator() (" + str(i) + "," + str(j) + ")", A(i, j), DA[i][j]);
      BM S = A.clone(LAFEM::CloneMode::Layout); S.scale(A, alpha); for(Index i = 0; i < r; ++i) for(Index j = 0; j < c; ++j) H<DT>::eq("scale (" + str(i) + "," + str(j) + ")", S(i, j), alpha * DA[i][j]);
      BM X = B.clone(LAFEM::CloneMode::Deep); X.axpy(A, alpha); for(Index i = 0; i < r; ++i) for(Index j = 0; j < c; ++j) H<DT>::eq("axpy (" + str(i) + "," + str(j) + ")", X(i, j), DB[i][j] + alpha * DA[i][j]);
      DT f = A.norm_frobenius(), s = DT(0); for(Index i = 0; i < r; ++i) for(Index j = 0; j < c; ++j) s += DA[i][j] * DA[i][j]; H<DT>::eq("norm_frobenius^2", f * f, s);
      if(r == c) { auto d = A.extract_diag(); for(Index i = 0; i < r; ++i) H<DT>::eq("extract_diag [" + str(i) + "]", d(i), DA[i][i]); }
    });
    H<DT>::fact("completes", rc == 0, rc == 2 ? "memory fault" : "abort"); H<DT>::end();
  }
  for(Index r = 1; r <= 3; ++r) for(auto& p : all_patterns(r, 2, 3))
  {
    if(nnz(p) == 0) continue;
    std::string cn = "cscr scale/axpy/norm/access " + str(r) + "x2 [" + pat_str(p) + "]"; if(!H<DT>::want(cn)) continue;
    H<DT>::begin(cn, "{\"format\":\"cscr\"}");
    Dense<DT> DA, DB; CM A = make_cscr<DT, Index, CM>(r, 2, p, "a", &DA), B = make_cscr<DT, Index, CM>(r, 2, p, "b", &DB); DT alpha = H<DT>::var("alpha", 0.75);
    int rc = guarded([&] {
      for(Index i = 0; i < r; ++i) for(Index j = 0; j < 2; ++j) H<DT>::eq("operator() (" + str(i) + "," + str(j) + ")", A(i, j), DA[i][j]);
      CM S = A.clone(LAFEM::CloneMode::Layout); S.scale(A, alpha); for(Index i = 0; i < r; ++i) for(Index j = 0; j < 2; ++j) H<DT>::eq("scale (" + str(i) + "," + str(j) + ")", S(i, j), alpha * DA[i][j]);
      CM X = B.clone(LAFEM::CloneMode::Deep); X.axpy(A, alpha); for(Index i = 0; i < r; ++i) for(Index j = 0; j < 2; ++j) H<DT>::eq("axpy (" + str(i) + "," + str(j) + ")", X(i, j), DB[i][j] + alpha * DA[i][j]);
      DT f = A.norm_frobenius(), s = DT(0); for(Index i = 0; i < r; ++i) for(Index j = 0; j < 2; ++j) s += DA[i][j] * DA[i][j]; H<DT>::eq("norm_frobenius^2", f * f, s);
    });
    H<DT>::fact("completes", rc == 0, rc == 2 ? "memory fault" : "abort"); H<DT>::end();
  }
}

template<typename DT>
void run_all()
{
  const Index mx = Index(g_level > 1 ? 3 : 2);
  for(Index m = 1; m <= mx; ++m) for(Index l = 1; l <= mx; ++l) for(Index n = 1; n <= mx; ++n) dense_cases<DT>(m, l, n);
  sparse_cases<DT>();
}

int main(int argc, char** argv)
{
  int na = argc;
  for(int i = 1; i < argc; ++i) if(std::string(argv[i]) == "--bounds" && i + 1 < argc) { g_level = atoi(argv[i + 1]); na = i; }
  return vh::main_dispatch(na, argv, [&] { run_all<vsym::SymReal>(); }, [&] {
#ifdef VH_REPLAY
    run_all<double>();
#endif
  });
}
