// C01 (E2): class-level matrix-vector products of every LAFEM format, executed on the real templates with a
// symbolic real scalar.  Discrete configuration (shape, pattern, alpha kind, aliasing, transposition) is swept
// exhaustively inside the bound; all matrix values, x, y and alpha are free reals decided by z3.
// Oracle: dense expansion built here from the pattern (independent of FEAT's kernels).
#include "feat_helpers.hpp"
#include <kernel/lafem/sparse_matrix_bcsr.hpp>
#include <kernel/lafem/sparse_matrix_cscr.hpp>
#include <kernel/lafem/sparse_matrix_banded.hpp>
#include <kernel/lafem/dense_matrix.hpp>
using namespace FEAT; using namespace vh;

static int g_maxdim = 2, g_maxnnz = 3;

// alpha kinds: 0 = symbolic, 1 = exactly 0, 2 = exactly 1, 3 = exactly -1
template<typename DT> DT mk_alpha(int kind) { switch(kind) { case 1: return DT(0); case 2: return DT(1); case 3: return DT(-1); default: return H<DT>::var("alpha", 0.75); } }

template<typename DT>
void expect(const std::string& what, const std::vector<DT>& got, const Dense<DT>& D, bool transposed, const std::vector<DT>& x, const std::vector<DT>* y, DT alpha)
{
  Index nr = transposed ? (D.empty() ? Index(got.size()) : Index(D[0].size())) : Index(D.size());
  for(Index i = 0; i < nr; ++i)
  {
    DT s = DT(0);
    if(!transposed) { for(Index j = 0; j < D[i].size(); ++j) s += D[i][j] * x[j]; }
    else { for(Index j = 0; j < D.size(); ++j) s += D[j][i] * x[j]; }
    DT e = y ? DT((*y)[i] + alpha * s) : s;
    H<DT>::eq(what + "[" + str(i) + "]", got[i], e);
  }
}
template<typename DT> void unchanged(const std::string& what, const std::vector<DT>& before, const std::vector<DT>& after)
{
  H<DT>::fact(what + " size unchanged", before.size() == after.size());
  for(size_t i = 0; i < before.size() && i < after.size(); ++i) H<DT>::eq(what + " unchanged[" + str(i) + "]", after[i], before[i]);
}

// generic driver over a matrix object offering apply/apply_transposed with DenseVector operands
template<typename DT, typename MT>
void mv_cases(const std::string& fmt, const std::string& cfg, const MT& A, const Dense<DT>& D, Index rows, Index cols, bool has_transposed, const std::vector<DT>& mat_vals_before, std::function<std::vector<DT>()> mat_vals)
{
  typedef LAFEM::DenseVector<DT, Index> VT;
  for(int tr = 0; tr < (has_transposed ? 2 : 1); ++tr)
  {
    Index nr = tr ? cols : rows, nx = tr ? rows : cols;
    // r := A x
    {
      std::string cn = fmt + " " + cfg + (tr ? " T" : " N") + " r=Ax";
      if(H<DT>::want(cn))
      {
        H<DT>::begin(cn, "{\"format\":\"" + fmt + "\",\"transposed\":" + str(Index(tr)) + "}");
        VT x = make_vec<DT>(nx, "x"); VT r(nr); for(Index i = 0; i < nr; ++i) r(i, H<DT>::var("rjunk" + str(i), 7.0 + double(i)));
        auto xb = to_std(x);
        bool ab = aborted([&] { if(tr) A.apply_transposed(r, x); else A.apply(r, x); });
        H<DT>::fact("no abort on valid input", !ab, "XASSERT/XABORT reached");
        if(!ab) { expect<DT>("r", to_std(r), D, tr != 0, xb, nullptr, DT(0)); unchanged<DT>("x", xb, to_std(x)); unchanged<DT>("matrix values", mat_vals_before, mat_vals()); }
        H<DT>::end();
      }
    }
    // r := y + alpha A x, r distinct from y / r aliasing y
    for(int ak = 0; ak < 4; ++ak) for(int alias = 0; alias < 2; ++alias)
    {
      std::string cn = fmt + " " + cfg + (tr ? " T" : " N") + " r=y+aAx alpha" + str(Index(ak)) + (alias ? " r==y" : " r!=y");
      if(!H<DT>::want(cn)) continue;
      H<DT>::begin(cn, "{\"format\":\"" + fmt + "\",\"transposed\":" + str(Index(tr)) + ",\"alpha_kind\":" + str(Index(ak)) + ",\"r_aliases_y\":" + str(Index(alias)) + "}");
      DT alpha = mk_alpha<DT>(ak);
      VT x = make_vec<DT>(nx, "x"); VT y = make_vec<DT>(nr, "y", -0.25, 0.625);
      auto xb = to_std(x), yb = to_std(y);
      VT rr(nr); for(Index i = 0; i < nr; ++i) rr(i, H<DT>::var("rjunk" + str(i), 7.0 + double(i)));
      VT& r = alias ? y : rr;
      bool ab = aborted([&] { if(tr) A.apply_transposed(r, x, y, alpha); else A.apply(r, x, y, alpha); });
      H<DT>::fact("no abort on valid input", !ab, "XASSERT/XABORT reached");
      if(!ab)
      {
        expect<DT>("r", to_std(r), D, tr != 0, xb, &yb, alpha); unchanged<DT>("x", xb, to_std(x));
        if(!alias) unchanged<DT>("y", yb, to_std(y));
        unchanged<DT>("matrix values", mat_vals_before, mat_vals());
      }
      H<DT>::end();
    }
  }
}

template<typename DT, typename IT>
void run_csr()
{
  for(Index rows = 0; rows <= Index(g_maxdim); ++rows) for(Index cols = 0; cols <= Index(g_maxdim); ++cols)
    for(auto& p : all_patterns(rows, cols, Index(g_maxnnz)))
    {
      Dense<DT> D; auto A = make_csr<DT, IT>(rows, cols, p, "a", &D);
      std::vector<DT> vb; for(Index k = 0; k < A.used_elements(); ++k) vb.push_back(A.val()[k]);
      // class API takes DenseVector<DT,IT>: only IT = Index vectors are built here; IT != Index matrices go through the IT vector type
      typedef LAFEM::DenseVector<DT, IT> VT; (void)sizeof(VT);
      std::string cfg = str(rows) + "x" + str(cols) + " [" + pat_str(p) + "] it" + str(Index(sizeof(IT) * 8));
      if constexpr(std::is_same<IT, Index>::value)
        mv_cases<DT>("csr", cfg, A, D, rows, cols, true, vb, [&] { std::vector<DT> v; for(Index k = 0; k < A.used_elements(); ++k) v.push_back(A.val()[k]); return v; });
    }
  // unsorted rows and duplicate column entries (both are valid CSR for apply: duplicates add up)
  if constexpr(std::is_same<IT, Index>::value)
  {
    std::vector<Pattern> odd = { {{1, 0}}, {{1, 1}}, {{0}, {1, 0, 1}}, {{}, {1, 0}} };
    for(auto& p : odd)
    {
      Index rows = Index(p.size()), cols = 2; Dense<DT> D; auto A = make_csr<DT, IT>(rows, cols, p, "a", &D);
      std::vector<DT> vb; for(Index k = 0; k < A.used_elements(); ++k) vb.push_back(A.val()[k]);
      mv_cases<DT>("csr-unsorted", str(rows) + "x2 [" + pat_str(p) + "]", A, D, rows, cols, true, vb, [&] { std::vector<DT> v; for(Index k = 0; k < A.used_elements(); ++k) v.push_back(A.val()[k]); return v; });
    }
  }
}


template<typename DT, int BH, int BW>
void run_bcsr()
{
  typedef LAFEM::SparseMatrixBCSR<DT, Index, BH, BW> MT;
  Index md = Index(g_maxdim > 2 ? 2 : g_maxdim);
  for(Index rows = 1; rows <= md; ++rows) for(Index cols = 1; cols <= md; ++cols)
    for(auto& p : all_patterns(rows, cols, Index(g_maxnnz > 3 ? 3 : g_maxnnz)))
    {
      Dense<DT> D; MT A = make_bcsr<DT, Index, BH, BW, MT>(rows, cols, p, "a", &D);
      auto vals = [&] { std::vector<DT> v; for(Index k = 0; k < A.used_elements() * Index(BH * BW); ++k) v.push_back(A.template val<LAFEM::Perspective::pod>()[k]); return v; };
      std::vector<DT> vb = vals();
      std::string cfg = str(rows) + "x" + str(cols) + " b" + str(Index(BH)) + "x" + str(Index(BW)) + " [" + pat_str(p) + "]";
      mv_cases<DT>("bcsr", cfg, A, D, rows * BH, cols * BW, true, vb, vals);
      // blocked-vector interface: r, y blocked by BH; x blocked by BW (plain) -- compare against the same dense oracle
      for(int tr = 0; tr < 2; ++tr) for(int alias = 0; alias < 2; ++alias)
      {
        std::string cn = "bcsr-blockedvec " + cfg + (tr ? " T" : " N") + (alias ? " r==y" : " r!=y");
        if(!H<DT>::want(cn)) continue;
        H<DT>::begin(cn, "{\"format\":\"bcsr\",\"vectors\":\"blocked\"}");
        DT alpha = H<DT>::var("alpha", 0.75);
        bool ab = false;
        if(!tr)
        {
          LAFEM::DenseVectorBlocked<DT, Index, BW> x(cols); LAFEM::DenseVectorBlocked<DT, Index, BH> y(rows), rr(rows);
          std::vector<DT> xb, yb;
          for(Index i = 0; i < cols * BW; ++i) { DT v = H<DT>::var("x" + str(i), 0.5 + 0.375 * double(i)); x.template elements<LAFEM::Perspective::pod>()[i] = v; xb.push_back(v); }
          for(Index i = 0; i < rows * BH; ++i) { DT v = H<DT>::var("y" + str(i), -0.25 + 0.625 * double(i)); y.template elements<LAFEM::Perspective::pod>()[i] = v; yb.push_back(v); rr.template elements<LAFEM::Perspective::pod>()[i] = H<DT>::var("rjunk" + str(i), 7.0 + double(i)); }
          auto& r = alias ? y : rr;
          ab = aborted([&] { A.apply(r, x, y, alpha); });
          if(!ab) { std::vector<DT> got; for(Index i = 0; i < rows * BH; ++i) got.push_back(r.template elements<LAFEM::Perspective::pod>()[i]); expect<DT>("r", got, D, false, xb, &yb, alpha); }
        }
        else
        {
          LAFEM::DenseVectorBlocked<DT, Index, BH> x(rows); LAFEM::DenseVectorBlocked<DT, Index, BW> y(cols), rr(cols);
          std::vector<DT> xb, yb;
          for(Index i = 0; i < rows * BH; ++i) { DT v = H<DT>::var("x" + str(i), 0.5 + 0.375 * double(i)); x.template elements<LAFEM::Perspective::pod>()[i] = v; xb.push_back(v); }
          for(Index i = 0; i < cols * BW; ++i) { DT v = H<DT>::var("y" + str(i), -0.25 + 0.625 * double(i)); y.template elements<LAFEM::Perspective::pod>()[i] = v; yb.push_back(v); rr.template elements<LAFEM::Perspective::pod>()[i] = H<DT>::var("rjunk" + str(i), 7.0 + double(i)); }
          auto& r = alias ? y : rr;
          ab = aborted([&] { A.apply_transposed(r, x, y, alpha); });
          if(!ab) { std::vector<DT> got; for(Index i = 0; i < cols * BW; ++i) got.push_back(r.template elements<LAFEM::Perspective::pod>()[i]); expect<DT>("r", got, D, true, xb, &yb, alpha); }
        }
        H<DT>::fact("no abort on valid input", !ab, "XASSERT/XABORT reached");
        H<DT>::end();
      }
    }
}

template<typename DT>
void run_cscr()
{
  typedef LAFEM::SparseMatrixCSCR<DT, Index> MT;
  for(Index rows = 0; rows <= Index(g_maxdim); ++rows) for(Index cols = 0; cols <= Index(g_maxdim); ++cols)
    for(auto& p : all_patterns(rows, cols, Index(g_maxnnz)))
    {
      Dense<DT> D; MT A = make_cscr<DT, Index, MT>(rows, cols, p, "a", &D);
      auto vals = [&] { std::vector<DT> v; for(Index k = 0; k < A.used_elements(); ++k) v.push_back(A.val()[k]); return v; };
      std::vector<DT> vb = vals();
      mv_cases<DT>("cscr", str(rows) + "x" + str(cols) + " [" + pat_str(p) + "]", A, D, rows, cols, true, vb, vals);
    }
}

template<typename DT>
void run_banded()
{
  typedef LAFEM::SparseMatrixBanded<DT, Index> MT;
  for(Index rows = 1; rows <= Index(g_maxdim) + 1; ++rows) for(Index cols = 1; cols <= Index(g_maxdim) + 1; ++cols)
  {
    Index nd = rows + cols - 1;
    for(unsigned m = 1; m < (1u << nd); ++m)
    {
      if(__builtin_popcount(m) > 3) continue;
      std::vector<Index> offs; for(Index o = 0; o < nd; ++o) if(m >> o & 1) offs.push_back(o);
      Dense<DT> D; MT A = make_banded<DT, Index, MT>(rows, cols, offs, "a", &D);
      auto vals = [&] { std::vector<DT> v; for(Index k = 0; k < rows * Index(offs.size()); ++k) v.push_back(A.val()[k]); return v; };
      std::vector<DT> vb = vals();
      // apply_transposed of the banded format aborts with "not implemented" in the generic backend: the format does not offer it
      mv_cases<DT>("banded", str(rows) + "x" + str(cols) + " offs[" + join(offs) + "]", A, D, rows, cols, false, vb, vals);
    }
  }
}

template<typename DT>
void run_dense()
{
  typedef LAFEM::DenseMatrix<DT, Index> MT;
  for(Index rows = 1; rows <= Index(g_maxdim) + 1; ++rows) for(Index cols = 1; cols <= Index(g_maxdim) + 1; ++cols)
  {
    MT A(rows, cols); Dense<DT> D = dense_zero<DT>(rows, cols);
    for(Index i = 0; i < rows; ++i) for(Index j = 0; j < cols; ++j) { DT v = H<DT>::var("a" + str(i * cols + j), 1.25 - 0.4375 * double(i * cols + j)); A(i, j, v); D[i][j] = v; }
    auto vals = [&] { std::vector<DT> v; for(Index k = 0; k < rows * cols; ++k) v.push_back(A.elements()[k]); return v; };
    std::vector<DT> vb = vals();
    mv_cases<DT>("dense", str(rows) + "x" + str(cols), A, D, rows, cols, true, vb, vals);
  }
}

// CSR matrix applied to blocked vectors (csrsb kernel): every block component is multiplied by the scalar entry
template<typename DT, int BS>
void run_csrsb()
{
  for(Index rows = 0; rows <= Index(g_maxdim); ++rows) for(Index cols = 0; cols <= Index(g_maxdim); ++cols)
    for(auto& p : all_patterns(rows, cols, Index(g_maxnnz)))
    {
      Dense<DT> D; auto A = make_csr<DT, Index>(rows, cols, p, "a", &D);
      for(int form = 0; form < 3; ++form) // 0: r=Ax, 1: r=y+aAx r!=y, 2: r==y
      {
        std::string cn = "csrsb b" + str(Index(BS)) + " " + str(rows) + "x" + str(cols) + " [" + pat_str(p) + "] form" + str(Index(form));
        if(!H<DT>::want(cn)) continue;
        H<DT>::begin(cn, "{\"format\":\"csr\",\"vectors\":\"blocked\"}");
        DT alpha = H<DT>::var("alpha", 0.75);
        LAFEM::DenseVectorBlocked<DT, Index, BS> x(cols), y(rows), rr(rows);
        std::vector<DT> xb, yb;
        for(Index i = 0; i < cols * BS; ++i) { DT v = H<DT>::var("x" + str(i), 0.5 + 0.375 * double(i)); x.template elements<LAFEM::Perspective::pod>()[i] = v; xb.push_back(v); }
        for(Index i = 0; i < rows * BS; ++i) { DT v = H<DT>::var("y" + str(i), -0.25 + 0.625 * double(i)); y.template elements<LAFEM::Perspective::pod>()[i] = v; yb.push_back(v); rr.template elements<LAFEM::Perspective::pod>()[i] = H<DT>::var("rjunk" + str(i), 7.0 + double(i)); }
        auto& r = (form == 2) ? y : rr;
        bool ab = aborted([&] { if(form == 0) A.apply(r, x); else A.apply(r, x, y, alpha); });
        H<DT>::fact("no abort on valid input", !ab, "XASSERT/XABORT reached");
        if(!ab) for(Index i = 0; i < rows; ++i) for(int c = 0; c < BS; ++c)
        {
          DT s = DT(0); for(Index j = 0; j < cols; ++j) s += D[i][j] * xb[j * BS + Index(c)];
          DT e = (form == 0) ? s : DT(yb[i * BS + Index(c)] + alpha * s);
          H<DT>::eq("r[" + str(i) + "." + str(Index(c)) + "]", r.template elements<LAFEM::Perspective::pod>()[i * BS + Index(c)], e);
        }
        H<DT>::end();
      }
    }
}

template<typename DT>
void run_all(int argc, char** argv)
{
  (void)argc; (void)argv;
  run_csr<DT, Index>();
  run_bcsr<DT, 2, 2>(); run_bcsr<DT, 2, 3>(); run_bcsr<DT, 3, 2>();
  run_cscr<DT>(); run_banded<DT>(); run_dense<DT>();
  run_csrsb<DT, 2>(); run_csrsb<DT, 3>();
}

int main(int argc, char** argv)
{
  // trailing args: maxdim maxnnz
  int na = argc;
  for(int i = 1; i < argc; ++i) if(std::string(argv[i]) == "--bounds" && i + 2 < argc) { g_maxdim = atoi(argv[i + 1]); g_maxnnz = atoi(argv[i + 2]); na = i; }
  return vh::main_dispatch(na, argv, [&] { run_all<vsym::SymReal>(argc, argv); }, [&] {
#ifdef VH_REPLAY
    run_all<double>(argc, argv);
#endif
  });
}
