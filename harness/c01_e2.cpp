// C01 (E2): class-level matrix-vector products of every LAFEM format, executed on the real templates with a
// symbolic real scalar.  Discrete configuration (shape, pattern, alpha kind, aliasing, transposition) is swept
// exhaustively inside the bound; all matrix values, x, y and alpha are free reals decided by z3.
// Oracle: dense expansion built here from the pattern (independent of FEAT's kernels).
#include "feat_helpers.hpp"
#include <kernel/lafem/sparse_matrix_bcsr.hpp>
#include <kernel/lafem/sparse_matrix_cscr.hpp>
#include <kernel/lafem/sparse_matrix_banded.hpp>
#include <kernel/lafem/dense_matrix.hpp>
#include <kernel/lafem/power_row_matrix.hpp>
#include <kernel/lafem/power_col_matrix.hpp>
#include <kernel/lafem/power_full_matrix.hpp>
#include <kernel/lafem/power_diag_matrix.hpp>
#include <kernel/lafem/tuple_matrix.hpp>
#include <kernel/lafem/tuple_diag_matrix.hpp>
#include <kernel/lafem/saddle_point_matrix.hpp>
#include <kernel/lafem/power_vector.hpp>
#include <kernel/lafem/tuple_vector.hpp>
using namespace FEAT; using namespace vh;

static int g_maxdim = 2, g_maxnnz = 3;

// alpha kinds: 0 = symbolic, 1 = exactly 0, 2 = exactly 1, 3 = exactly -1
template<typename DT> DT mk_alpha(int kind) { switch(kind) { case 1: return DT(0); case 2: return DT(1); case 3: return DT(-1); default: return H<DT>::var("alpha", 0.75); } }

template<typename DT>
void expect(const std::string& what, const std::vector<DT>& got, const Dense<DT>& D, bool transposed, const std::vector<DT>& x, const std::vector<DT>* y, DT alpha)
{
  Index nr = transposed ? (D.empty() ? Index(got.size()) : Index(D[0].size())) : Index(D.size());
  for(Index i = 0; i < nr; ++i)
  {
    DT s = DT(0);
    if(!transposed) { for(Index j = 0; j < D[i].size(); ++j) s += D[i][j] * x[j]; }
    else { for(Index j = 0; j < D.size(); ++j) s += D[j][i] * x[j]; }
    DT e = y ? DT((*y)[i] + alpha * s) : s;
    H<DT>::eq(what + "[" + str(i) + "]", got[i], e);
  }
}
template<typename DT> void unchanged(const std::string& what, const std::vector<DT>& before, const std::vector<DT>& after)
{
  H<DT>::fact(what + " size unchanged", before.size() == after.size());
  for(size_t i = 0; i < before.size() && i < after.size(); ++i) H<DT>::eq(what + " unchanged[" + str(i) + "]", after[i], before[i]);
}

// generic driver over a matrix object offering apply/apply_transposed with DenseVector operands
template<typename DT, typename MT>
void mv_cases(const std::string& fmt, const std::string& cfg, const MT& A, const Dense<DT>& D, Index rows, Index cols, bool has_transposed, const std::vector<DT>& mat_vals_before, std::function<std::vector<DT>()> mat_vals)
{
  typedef LAFEM::DenseVector<DT, Index> VT;
  for(int tr = 0; tr < (has_transposed ? 2 : 1); ++tr)
  {
    Index nr = tr ? cols : rows, nx = tr ? rows : cols;
    // r := A x
    {
      std::string cn = fmt + " " + cfg + (tr ? " T" : " N") + " r=Ax";
      if(H<DT>::want(cn))
      {
        H<DT>::begin(cn, "{\"format\":\"" + fmt + "\",\"transposed\":" + str(Index(tr)) + "}");
        VT x = make_vec<DT>(nx, "x"); VT r(nr); for(Index i = 0; i < nr; ++i) r(i, H<DT>::var("rjunk" + str(i), 7.0 + double(i)));
        auto xb = to_std(x);
        bool ab = aborted([&] { if(tr) A.apply_transposed(r, x); else A.apply(r, x); });
        H<DT>::fact("no abort on valid input", !ab, "XASSERT/XABORT reached");
        if(!ab) { expect<DT>("r", to_std(r), D, tr != 0, xb, nullptr, DT(0)); unchanged<DT>("x", xb, to_std(x)); unchanged<DT>("matrix values", mat_vals_before, mat_vals()); }
        H<DT>::end();
      }
    }
    // r := y + alpha A x, r distinct from y / r aliasing y
    for(int ak = 0; ak < 4; ++ak) for(int alias = 0; alias < 2; ++alias)
    {
      std::string cn = fmt + " " + cfg + (tr ? " T" : " N") + " r=y+aAx alpha" + str(Index(ak)) + (alias ? " r==y" : " r!=y");
      if(!H<DT>::want(cn)) continue;
      H<DT>::begin(cn, "{\"format\":\"" + fmt + "\",\"transposed\":" + str(Index(tr)) + ",\"alpha_kind\":" + str(Index(ak)) + ",\"r_aliases_y\":" + str(Index(alias)) + "}");
      DT alpha = mk_alpha<DT>(ak);
      VT x = make_vec<DT>(nx, "x"); VT y = make_vec<DT>(nr, "y", -0.25, 0.625);
      auto xb = to_std(x), yb = to_std(y);
      VT rr(nr); for(Index i = 0; i < nr; ++i) rr(i, H<DT>::var("rjunk" + str(i), 7.0 + double(i)));
      VT& r = alias ? y : rr;
      bool ab = aborted([&] { if(tr) A.apply_transposed(r, x, y, alpha); else A.apply(r, x, y, alpha); });
      H<DT>::fact("no abort on valid input", !ab, "XASSERT/XABORT reached");
      if(!ab)
      {
        expect<DT>("r", to_std(r), D, tr != 0, xb, &yb, alpha); unchanged<DT>("x", xb, to_std(x));
        if(!alias) unchanged<DT>("y", yb, to_std(y));
        unchanged<DT>("matrix values", mat_vals_before, mat_vals());
      }
      H<DT>::end();
    }
  }
}

template<typename DT, typename IT>
void run_csr()
{
  for(Index rows = 0; rows <= Index(g_maxdim); ++rows) for(Index cols = 0; cols <= Index(g_maxdim); ++cols)
    for(auto& p : all_patterns(rows, cols, Index(g_maxnnz)))
    {
      Dense<DT> D; auto A = make_csr<DT, IT>(rows, cols, p, "a", &D);
      std::vector<DT> vb; for(Index k = 0; k < A.used_elements(); ++k) vb.push_back(A.val()[k]);
      // class API takes DenseVector<DT,IT>: only IT = Index vectors are built here; IT != Index matrices go through the IT vector type
      typedef LAFEM::DenseVector<DT, IT> VT; (void)sizeof(VT);
      std::string cfg = str(rows) + "x" + str(cols) + " [" + pat_str(p) + "] it" + str(Index(sizeof(IT) * 8));
      if constexpr(std::is_same<IT, Index>::value)
        mv_cases<DT>("csr", cfg, A, D, rows, cols, true, vb, [&] { std::vector<DT> v; for(Index k = 0; k < A.used_elements(); ++k) v.push_back(A.val()[k]); return v; });
    }
  // unsorted rows and duplicate column entries (both are valid CSR for apply: duplicates add up)
  if constexpr(std::is_same<IT, Index>::value)
  {
    std::vector<Pattern> odd = { {{1, 0}}, {{1, 1}}, {{0}, {1, 0, 1}}, {{}, {1, 0}} };
    for(auto& p : odd)
    {
      Index rows = Index(p.size()), cols = 2; Dense<DT> D; auto A = make_csr<DT, IT>(rows, cols, p, "a", &D);
      std::vector<DT> vb; for(Index k = 0; k < A.used_elements(); ++k) vb.push_back(A.val()[k]);
      mv_cases<DT>("csr-unsorted", str(rows) + "x2 [" + pat_str(p) + "]", A, D, rows, cols, true, vb, [&] { std::vector<DT> v; for(Index k = 0; k < A.used_elements(); ++k) v.push_back(A.val()[k]); return v; });
    }
  }
}


template<typename DT, int BH, int BW>
void run_bcsr()
{
  typedef LAFEM::SparseMatrixBCSR<DT, Index, BH, BW> MT;
  Index md = Index(g_maxdim > 2 ? 2 : g_maxdim);
  for(Index rows = 1; rows <= md; ++rows) for(Index cols = 1; cols <= md; ++cols)
    for(auto& p : all_patterns(rows, cols, Index(g_maxnnz > 3 ? 3 : g_maxnnz)))
    {
      Dense<DT> D; MT A = make_bcsr<DT, Index, BH, BW, MT>(rows, cols, p, "a", &D);
      auto vals = [&] { std::vector<DT> v; for(Index k = 0; k < A.used_elements() * Index(BH * BW); ++k) v.push_back(A.template val<LAFEM::Perspective::pod>()[k]); return v; };
      std::vector<DT> vb = vals();
      std::string cfg = str(rows) + "x" + str(cols) + " b" + str(Index(BH)) + "x" + str(Index(BW)) + " [" + pat_str(p) + "]";
      mv_cases<DT>("bcsr", cfg, A, D, rows * BH, cols * BW, true, vb, vals);
      // blocked-vector interface: r, y blocked by BH; x blocked by BW (plain) -- compare against the same dense oracle
      for(int tr = 0; tr < 2; ++tr) for(int alias = 0; alias < 2; ++alias)
      {
        std::string cn = "bcsr-blockedvec " + cfg + (tr ? " T" : " N") + (alias ? " r==y" : " r!=y");
        if(!H<DT>::want(cn)) continue;
        H<DT>::begin(cn, "{\"format\":\"bcsr\",\"vectors\":\"blocked\"}");
        DT alpha = H<DT>::var("alpha", 0.75);
        bool ab = false;
        if(!tr)
        {
          LAFEM::DenseVectorBlocked<DT, Index, BW> x(cols); LAFEM::DenseVectorBlocked<DT, Index, BH> y(rows), rr(rows);
          std::vector<DT> xb, yb;
          for(Index i = 0; i < cols * BW; ++i) { DT v = H<DT>::var("x" + str(i), 0.5 + 0.375 * double(i)); x.template elements<LAFEM::Perspective::pod>()[i] = v; xb.push_back(v); }
          for(Index i = 0; i < rows * BH; ++i) { DT v = H<DT>::var("y" + str(i), -0.25 + 0.625 * double(i)); y.template elements<LAFEM::Perspective::pod>()[i] = v; yb.push_back(v); rr.template elements<LAFEM::Perspective::pod>()[i] = H<DT>::var("rjunk" + str(i), 7.0 + double(i)); }
          auto& r = alias ? y : rr;
          ab = aborted([&] { A.apply(r, x, y, alpha); });
          if(!ab) { std::vector<DT> got; for(Index i = 0; i < rows * BH; ++i) got.push_back(r.template elements<LAFEM::Perspective::pod>()[i]); expect<DT>("r", got, D, false, xb, &yb, alpha); }
        }
        else
        {
          LAFEM::DenseVectorBlocked<DT, Index, BH> x(rows); LAFEM::DenseVectorBlocked<DT, Index, BW> y(cols), rr(cols);
          std::vector<DT> xb, yb;
          for(Index i = 0; i < rows * BH; ++i) { DT v = H<DT>::var("x" + str(i), 0.5 + 0.375 * double(i)); x.template elements<LAFEM::Perspective::pod>()[i] = v; xb.push_back(v); }
          for(Index i = 0; i < cols * BW; ++i) { DT v = H<DT>::var("y" + str(i), -0.25 + 0.625 * double(i)); y.template elements<LAFEM::Perspective::pod>()[i] = v; yb.push_back(v); rr.template elements<LAFEM::Perspective::pod>()[i] = H<DT>::var("rjunk" + str(i), 7.0 + double(i)); }
          auto& r = alias ? y : rr;
          ab = aborted([&] { A.apply_transposed(r, x, y, alpha); });
          if(!ab) { std::vector<DT> got; for(Index i = 0; i < cols * BW; ++i) got.push_back(r.template elements<LAFEM::Perspective::pod>()[i]); expect<DT>("r", got, D, true, xb, &yb, alpha); }
        }
        H<DT>::fact("no abort on valid input", !ab, "XASSERT/XABORT reached");
        H<DT>::end();
      }
    }
}

template<typename DT>
void run_cscr()
{
  typedef LAFEM::SparseMatrixCSCR<DT, Index> MT;
  for(Index rows = 0; rows <= Index(g_maxdim); ++rows) for(Index cols = 0; cols <= Index(g_maxdim); ++cols)
    for(auto& p : all_patterns(rows, cols, Index(g_maxnnz)))
    {
      Dense<DT> D; MT A = make_cscr<DT, Index, MT>(rows, cols, p, "a", &D);
      auto vals = [&] { std::vector<DT> v; for(Index k = 0; k < A.used_elements(); ++k) v.push_back(A.val()[k]); return v; };
      std::vector<DT> vb = vals();
      mv_cases<DT>("cscr", str(rows) + "x" + str(cols) + " [" + pat_str(p) + "]", A, D, rows, cols, true, vb, vals);
    }
}

template<typename DT>
void run_banded()
{
  typedef LAFEM::SparseMatrixBanded<DT, Index> MT;
  for(Index rows = 1; rows <= Index(g_maxdim) + 1; ++rows) for(Index cols = 1; cols <= Index(g_maxdim) + 1; ++cols)
  {
    Index nd = rows + cols - 1;
    for(unsigned m = 1; m < (1u << nd); ++m)
    {
      if(__builtin_popcount(m) > 3) continue;
      std::vector<Index> offs; for(Index o = 0; o < nd; ++o) if(m >> o & 1) offs.push_back(o);
      Dense<DT> D; MT A = make_banded<DT, Index, MT>(rows, cols, offs, "a", &D);
      auto vals = [&] { std::vector<DT> v; for(Index k = 0; k < rows * Index(offs.size()); ++k) v.push_back(A.val()[k]); return v; };
      std::vector<DT> vb = vals();
      // apply_transposed of the banded format aborts with "not implemented" in the generic backend: the format does not offer it
      mv_cases<DT>("banded", str(rows) + "x" + str(cols) + " offs[" + join(offs) + "]", A, D, rows, cols, false, vb, vals);
    }
  }
}

template<typename DT>
void run_dense()
{
  typedef LAFEM::DenseMatrix<DT, Index> MT;
  for(Index rows = 1; rows <= Index(g_maxdim) + 1; ++rows) for(Index cols = 1; cols <= Index(g_maxdim) + 1; ++cols)
  {
    MT A(rows, cols); Dense<DT> D = dense_zero<DT>(rows, cols);
    for(Index i = 0; i < rows; ++i) for(Index j = 0; j < cols; ++j) { DT v = H<DT>::var("a" + str(i * cols + j), 1.25 - 0.4375 * double(i * cols + j)); A(i, j, v); D[i][j] = v; }
    auto vals = [&] { std::vector<DT> v; for(Index k = 0; k < rows * cols; ++k) v.push_back(A.elements()[k]); return v; };
    std::vector<DT> vb = vals();
    mv_cases<DT>("dense", str(rows) + "x" + str(cols), A, D, rows, cols, true, vb, vals);
  }
}

// CSR matrix applied to blocked vectors (csrsb kernel): every block component is multiplied by the scalar entry
template<typename DT, int BS>
void run_csrsb()
{
  for(Index rows = 0; rows <= Index(g_maxdim); ++rows) for(Index cols = 0; cols <= Index(g_maxdim); ++cols)
    for(auto& p : all_patterns(rows, cols, Index(g_maxnnz)))
    {
      Dense<DT> D; auto A = make_csr<DT, Index>(rows, cols, p, "a", &D);
      for(int form = 0; form < 3; ++form) // 0: r=Ax, 1: r=y+aAx r!=y, 2: r==y
      {
        std::string cn = "csrsb b" + str(Index(BS)) + " " + str(rows) + "x" + str(cols) + " [" + pat_str(p) + "] form" + str(Index(form));
        if(!H<DT>::want(cn)) continue;
        H<DT>::begin(cn, "{\"format\":\"csr\",\"vectors\":\"blocked\"}");
        DT alpha = H<DT>::var("alpha", 0.75);
        LAFEM::DenseVectorBlocked<DT, Index, BS> x(cols), y(rows), rr(rows);
        std::vector<DT> xb, yb;
        for(Index i = 0; i < cols * BS; ++i) { DT v = H<DT>::var("x" + str(i), 0.5 + 0.375 * double(i)); x.template elements<LAFEM::Perspective::pod>()[i] = v; xb.push_back(v); }
        for(Index i = 0; i < rows * BS; ++i) { DT v = H<DT>::var("y" + str(i), -0.25 + 0.625 * double(i)); y.template elements<LAFEM::Perspective::pod>()[i] = v; yb.push_back(v); rr.template elements<LAFEM::Perspective::pod>()[i] = H<DT>::var("rjunk" + str(i), 7.0 + double(i)); }
        auto& r = (form == 2) ? y : rr;
        bool ab = aborted([&] { if(form == 0) A.apply(r, x); else A.apply(r, x, y, alpha); });
        H<DT>::fact("no abort on valid input", !ab, "XASSERT/XABORT reached");
        if(!ab) for(Index i = 0; i < rows; ++i) for(int c = 0; c < BS; ++c)
        {
          DT s = DT(0); for(Index j = 0; j < cols; ++j) s += D[i][j] * xb[j * BS + Index(c)];
          DT e = (form == 0) ? s : DT(yb[i * BS + Index(c)] + alpha * s);
          H<DT>::eq("r[" + str(i) + "." + str(Index(c)) + "]", r.template elements<LAFEM::Perspective::pod>()[i * BS + Index(c)], e);
        }
        H<DT>::end();
      }
    }
}


// ------------------------------------------------------------------ meta matrices (recursive block dispatch)
template<typename DT> LAFEM::SparseMatrixCSR<DT, Index> blk(const std::string& nm, Index r, Index c, int variant, Dense<DT>& D)
{
  // variant 0: full block; 1: first row empty, rest full; 2: diagonal-ish
  Pattern p(r);
  for(Index i = 0; i < r; ++i) for(Index j = 0; j < c; ++j) { bool on = (variant == 0) || (variant == 1 && i > 0) || (variant == 2 && (j == i % c)); if(on) p[i].push_back(j); }
  return make_csr<DT, Index>(r, c, p, nm, &D);
}
template<typename DT> void put(Dense<DT>& G, Index r0, Index c0, const Dense<DT>& B) { for(size_t i = 0; i < B.size(); ++i) for(size_t j = 0; j < B[i].size(); ++j) G[r0 + i][c0 + j] = B[i][j]; }

#ifndef C01_META_CASES_EXTERN
// FLAT: 0 = typed vectors only, 1 = also the flat DenseVector overloads, 2 = flat overloads for the non-transposed product only
template<typename DT, int FLAT, bool T_AXPY = true, typename MT>
void meta_cases(const std::string& name, const MT& A, const Dense<DT>& D)
{
  typedef typename MT::VectorTypeL VL; typedef typename MT::VectorTypeR VR;
  Index rows = Index(D.size()), cols = Index(D[0].size());
  auto fillv = [&](auto& v, Index n, const std::string& nm, double base, double step) { std::vector<DT> f; for(Index i = 0; i < n; ++i) f.push_back(H<DT>::var(nm + str(i), base + step * double(i) * ((i % 2) ? -1.0 : 1.0))); f.push_back(DT(0)); v.set_vec_inv(f.data()); f.pop_back(); return f; };
  auto flatv = [&](const auto& v, Index n) { std::vector<DT> f(n + 1, DT(0)); v.set_vec(f.data()); f.resize(n); return f; };
  for(int tr = 0; tr < 2; ++tr) for(int form = 0; form < 3; ++form) for(int flat = 0; flat < (FLAT ? 2 : 1); ++flat) // form 0: r=Ax, 1: r=y+aAx, 2: same with r==y
  {
    std::string cn = "meta " + name + (tr ? " T" : " N") + " form" + str(Index(form)) + (flat ? " flat-vectors" : " typed-vectors");
    if(!H<DT>::want(cn)) continue;
    H<DT>::begin(cn, "{\"format\":\"" + name + "\"}");
    Index nr = tr ? cols : rows, nx = tr ? rows : cols; DT alpha = H<DT>::var("alpha", 0.75);
    std::vector<DT> xb, yb, got; int rc = 0;
    if(flat && FLAT == 2 && tr) { H<DT>::end(); continue; }
    if(flat)
    {
      if constexpr(FLAT != 0) {
      LAFEM::DenseVector<DT, Index> x(nx), y(nr), rr(nr); xb = fillv(x, nx, "x", 0.5, 0.375); yb = fillv(y, nr, "y", -0.25, 0.625); fillv(rr, nr, "rjunk", 7.0, 1.0);
      auto& r = (form == 2) ? y : rr;
      rc = guarded([&] { if(!tr) { if(form == 0) A.apply(r, x); else A.apply(r, x, y, alpha); } else { if constexpr(FLAT == 1) { if(form == 0) A.apply_transposed(r, x); else A.apply_transposed(r, x, y, alpha); } } });
      if(rc == 0) { got = flatv(r, nr); auto xa = flatv(x, nx); unchanged<DT>("x", xb, xa); }
      }
    }
    else if(!tr)
    {
      VL y = A.create_vector_l(), rr = A.create_vector_l(); VR x = A.create_vector_r(); xb = fillv(x, nx, "x", 0.5, 0.375); yb = fillv(y, nr, "y", -0.25, 0.625); fillv(rr, nr, "rjunk", 7.0, 1.0);
      VL& r = (form == 2) ? y : rr;
      rc = guarded([&] { if(form == 0) A.apply(r, x); else A.apply(r, x, y, alpha); });
      if(rc == 0) { got = flatv(r, nr); unchanged<DT>("x", xb, flatv(x, nx)); }
    }
    else
    {
      VR y = A.create_vector_r(), rr = A.create_vector_r(); VL x = A.create_vector_l(); xb = fillv(x, nx, "x", 0.5, 0.375); yb = fillv(y, nr, "y", -0.25, 0.625); fillv(rr, nr, "rjunk", 7.0, 1.0);
      VR& r = (form == 2) ? y : rr;
      if(!T_AXPY) { H<DT>::end(); continue; }
      rc = guarded([&] { if constexpr(T_AXPY) { if(form == 0) A.apply_transposed(r, x); else A.apply_transposed(r, x, y, alpha); } });
      if(rc == 0) { got = flatv(r, nr); unchanged<DT>("x", xb, flatv(x, nx)); }
    }
    H<DT>::fact("completes on valid input", rc == 0, rc == 2 ? "memory fault" : "XASSERT/XABORT reached");
    if(rc == 0) expect<DT>("r", got, D, tr != 0, xb, form == 0 ? nullptr : &yb, alpha);
    H<DT>::end();
  }
}

#endif // C01_META_CASES_EXTERN

template<typename DT>
void run_meta()
{
  typedef LAFEM::SparseMatrixCSR<DT, Index> CSR;
  for(int v = 0; v < 3; ++v)
  {
    std::string vs = " v" + str(Index(v));
    { // (A1 A2): 2x3 and 2x1
      LAFEM::PowerRowMatrix<CSR, 2> M; Dense<DT> D1, D2; M.template at<0, 0>() = blk<DT>("a", 2, 3, v, D1); M.template at<0, 1>() = blk<DT>("b", 2, 1, (v + 1) % 3, D2);
      Dense<DT> G = dense_zero<DT>(2, 4); put(G, 0, 0, D1); put(G, 0, 3, D2); meta_cases<DT, 1>("power-row<csr,2> 2x(3+1)" + vs, M, G);
    }
    { // (A1; A2): 3x2 and 1x2
      LAFEM::PowerColMatrix<CSR, 2> M; Dense<DT> D1, D2; M.template at<0, 0>() = blk<DT>("a", 3, 2, v, D1); M.template at<1, 0>() = blk<DT>("b", 1, 2, (v + 1) % 3, D2);
      Dense<DT> G = dense_zero<DT>(4, 2); put(G, 0, 0, D1); put(G, 3, 0, D2); meta_cases<DT, 1>("power-col<csr,2> (3+1)x2" + vs, M, G);
    }
    { // diag(A1, A2): 2x3, 1x2
      LAFEM::PowerDiagMatrix<CSR, 2> M; Dense<DT> D1, D2; M.template at<0, 0>() = blk<DT>("a", 2, 3, v, D1); M.template at<1, 1>() = blk<DT>("b", 1, 2, (v + 2) % 3, D2);
      Dense<DT> G = dense_zero<DT>(3, 5); put(G, 0, 0, D1); put(G, 2, 3, D2); meta_cases<DT, 1>("power-diag<csr,2> 2x3,1x2" + vs, M, G);
    }
    { // full 2x2 of blocks: rows (2,1), cols (3,2)
      LAFEM::PowerFullMatrix<CSR, 2, 2> M; Dense<DT> D[4]; Index rs[2] = {2, 1}, cs[2] = {3, 2};
      M.template at<0, 0>() = blk<DT>("a", rs[0], cs[0], v, D[0]); M.template at<0, 1>() = blk<DT>("b", rs[0], cs[1], (v + 1) % 3, D[1]);
      M.template at<1, 0>() = blk<DT>("c", rs[1], cs[0], (v + 2) % 3, D[2]); M.template at<1, 1>() = blk<DT>("d", rs[1], cs[1], v, D[3]);
      Dense<DT> G = dense_zero<DT>(3, 5); put(G, 0, 0, D[0]); put(G, 0, 3, D[1]); put(G, 2, 0, D[2]); put(G, 2, 3, D[3]); meta_cases<DT, 1>("power-full<csr,2,2>" + vs, M, G);
    }
    { // saddle point: A 3x3, B 3x2, D 2x3
      LAFEM::SaddlePointMatrix<CSR, CSR, CSR> M; Dense<DT> DA, DB, DD; M.block_a() = blk<DT>("a", 3, 3, v, DA); M.block_b() = blk<DT>("b", 3, 2, (v + 1) % 3, DB); M.block_d() = blk<DT>("d", 2, 3, (v + 2) % 3, DD);
      Dense<DT> G = dense_zero<DT>(5, 5); put(G, 0, 0, DA); put(G, 0, 3, DB); put(G, 3, 0, DD); // the flat apply_transposed overload of SaddlePointMatrix does not compile (calls block_b().applytransposed): not offered
      meta_cases<DT, 2>("saddle-point<csr,csr,csr>" + vs, M, G);
    }
    { // tuple diag
      LAFEM::TupleDiagMatrix<CSR, CSR> M; Dense<DT> D1, D2; M.template at<0, 0>() = blk<DT>("a", 2, 3, v, D1); M.template at<1, 1>() = blk<DT>("b", 1, 2, (v + 2) % 3, D2);
      Dense<DT> G = dense_zero<DT>(3, 5); put(G, 0, 0, D1); put(G, 2, 3, D2); // flat overloads of TupleDiagMatrix do not compile for the one-element tail specialisation: not offered
      meta_cases<DT, 0>("tuple-diag<csr,csr>" + vs, M, G);
    }
    { // tuple matrix 2x2
      typedef LAFEM::TupleMatrix<LAFEM::TupleMatrixRow<CSR, CSR>, LAFEM::TupleMatrixRow<CSR, CSR>> TM; TM M; Dense<DT> D[4]; Index rs[2] = {2, 1}, cs[2] = {3, 2};
      M.template at<0, 0>() = blk<DT>("a", rs[0], cs[0], v, D[0]); M.template at<0, 1>() = blk<DT>("b", rs[0], cs[1], (v + 1) % 3, D[1]);
      M.template at<1, 0>() = blk<DT>("c", rs[1], cs[0], (v + 2) % 3, D[2]); M.template at<1, 1>() = blk<DT>("d", rs[1], cs[1], v, D[3]);
      Dense<DT> G = dense_zero<DT>(3, 5); put(G, 0, 0, D[0]); put(G, 0, 3, D[1]); put(G, 2, 0, D[2]); put(G, 2, 3, D[3]); // apply_transposed of a multi-row TupleMatrix does not compile (tuple_matrix.hpp:1330 calls first().apply with transposed operand types): not offered
      meta_cases<DT, 0, false>("tuple<2x2 csr>" + vs, M, G);
    }
  }
}

#ifndef C01_META_CASES_EXTERN
template<typename DT>
void run_all(int argc, char** argv)
{
  (void)argc; (void)argv;
  run_csr<DT, Index>();
  run_bcsr<DT, 2, 2>(); run_bcsr<DT, 2, 3>(); run_bcsr<DT, 3, 2>();
  run_cscr<DT>(); run_banded<DT>(); run_dense<DT>();
  run_csrsb<DT, 2>(); run_csrsb<DT, 3>();
  run_meta<DT>();
}

int main(int argc, char** argv)
{
  // trailing args: maxdim maxnnz
  int na = argc;
  for(int i = 1; i < argc; ++i) if(std::string(argv[i]) == "--bounds" && i + 2 < argc) { g_maxdim = atoi(argv[i + 1]); g_maxnnz = atoi(argv[i + 2]); na = i; }
  return vh::main_dispatch(na, argv, [&] { run_all<vsym::SymReal>(argc, argv); }, [&] {
#ifdef VH_REPLAY
    run_all<double>(argc, argv);
#endif
  });
}
#endif // C01_META_CASES_EXTERN
