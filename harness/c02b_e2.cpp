// C02 (E2, blocked slice): SparseMatrixBCSR<2,3>: clone in every mode, conversion between index types, row/column permutation,
// construction from a Graph.  Oracle: dense expansion, pointer identity for the sharing modes.
#include "feat_helpers.hpp"
#include <kernel/lafem/sparse_matrix_bcsr.hpp>
#include <kernel/adjacency/permutation.hpp>
#include <kernel/adjacency/graph.hpp>
#include <algorithm>
using namespace FEAT; using namespace vh;
constexpr int BH = 2, BW = 3;
template<typename DT, typename IT = Index> using BM = LAFEM::SparseMatrixBCSR<DT, IT, BH, BW>;

template<typename DT, typename IT> Dense<DT> expand(const BM<DT, IT>& A)
{
  Dense<DT> D = dense_zero<DT>(A.rows() * BH, A.columns() * BW);
  for(Index i = 0; i < A.rows(); ++i) for(Index k = Index(A.row_ptr()[i]); k < Index(A.row_ptr()[i + 1]); ++k)
    for(int a = 0; a < BH; ++a) for(int b = 0; b < BW; ++b) D[i * BH + Index(a)][Index(A.col_ind()[k]) * BW + Index(b)] += A.val()[k](a, b);
  return D;
}
template<typename DT> void same(const std::string& what, const Dense<DT>& G, const Dense<DT>& D)
{
  H<DT>::fact(what + ": dimensions", G.size() == D.size() && (G.empty() || G[0].size() == D[0].size()));
  if(G.size() == D.size() && (G.empty() || G[0].size() == D[0].size())) for(size_t i = 0; i < D.size(); ++i) for(size_t j = 0; j < D[i].size(); ++j) H<DT>::eq(what + " (" + str(Index(i)) + "," + str(Index(j)) + ")", G[i][j], D[i][j]);
}

template<typename DT>
void cases(Index rows, Index cols, const Pattern& p)
{
  std::string cfg = str(rows) + "x" + str(cols) + " [" + pat_str(p) + "]";
  if(nnz(p) == 0) return;   // entry-free matrices have no arrays (covered, with the defects found there, by the CSR cases)
  for(int mode = 0; mode < 5; ++mode)
  {
    static const char* mn[] = {"Shallow", "Layout", "Weak", "Deep", "Allocate"};
    std::string cn = std::string("bcsr clone mode=") + mn[mode] + " " + cfg; if(!H<DT>::want(cn)) continue;
    H<DT>::begin(cn, "{\"op\":\"clone\"}");
    Dense<DT> D; BM<DT> A = make_bcsr<DT, Index, BH, BW, BM<DT>>(rows, cols, p, "a", &D);
    int rc = guarded([&] {
      LAFEM::CloneMode cm[] = {LAFEM::CloneMode::Shallow, LAFEM::CloneMode::Layout, LAFEM::CloneMode::Weak, LAFEM::CloneMode::Deep, LAFEM::CloneMode::Allocate};
      BM<DT> B = A.clone(cm[mode]);
      H<DT>::fact("dimensions", B.rows() == rows && B.columns() == cols && B.used_elements() == A.used_elements());
      bool layout_same = true; if(mode != 4) for(Index i = 0; i <= rows; ++i) layout_same = layout_same && B.row_ptr()[i] == A.row_ptr()[i]; if(mode != 4) for(Index k = 0; k < A.used_elements(); ++k) layout_same = layout_same && B.col_ind()[k] == A.col_ind()[k];
      if(mode != 4) H<DT>::fact("layout equal", layout_same);   // Allocate: arrays of the right size, contents unspecified
      const bool share_val = (mode == 0), share_idx = (mode == 0 || mode == 1 || mode == 2);
      H<DT>::fact("value array shared exactly in shallow mode", (B.val() == A.val()) == share_val);
      H<DT>::fact("index arrays shared exactly in shallow / layout / weak mode", (B.col_ind() == A.col_ind()) == share_idx && (B.row_ptr() == A.row_ptr()) == share_idx);
      if(mode == 0 || mode == 2 || mode == 3) same<DT>("clone values", expand<DT, Index>(B), D);
      same<DT>("source unchanged", expand<DT, Index>(A), D);
    });
    H<DT>::fact("completes", rc == 0, rc == 2 ? "memory fault" : "abort"); H<DT>::end();
  }
  { std::string cn = "bcsr convert u64->u32->u64 " + cfg; if(H<DT>::want(cn)) {
    H<DT>::begin(cn, "{\"op\":\"convert\"}");
    Dense<DT> D; BM<DT> A = make_bcsr<DT, Index, BH, BW, BM<DT>>(rows, cols, p, "a", &D);
    int rc = guarded([&] { BM<DT, unsigned int> B; B.convert(A); same<DT>("u32 copy", expand<DT, unsigned int>(B), D); BM<DT> C2; C2.convert(B); same<DT>("back to u64", expand<DT, Index>(C2), D); });
    H<DT>::fact("completes", rc == 0, rc == 2 ? "memory fault" : "abort"); H<DT>::end(); } }
  { std::string cn = "bcsr from graph " + cfg; if(H<DT>::want(cn)) {
    H<DT>::begin(cn, "{\"op\":\"graph\"}");
    int rc = guarded([&] {
      std::vector<Index> dp(rows + 1, 0), ii; for(Index i = 0; i < rows; ++i) { for(Index j : p[i]) ii.push_back(j); dp[i + 1] = Index(ii.size()); }
      Adjacency::Graph g(rows, cols, Index(ii.size()), dp.data(), ii.empty() ? nullptr : ii.data());
      BM<DT> A(g);
      H<DT>::fact("dimensions and entry count", A.rows() == rows && A.columns() == cols && A.used_elements() == Index(ii.size()));
      bool ok = true; for(Index i = 0; i <= rows && A.used_elements() == Index(ii.size()); ++i) ok = ok && A.row_ptr()[i] == dp[i]; for(Index k = 0; k < Index(ii.size()) && A.used_elements() == Index(ii.size()); ++k) ok = ok && A.col_ind()[k] == ii[k];
      H<DT>::fact("layout == graph", ok);
    });
    H<DT>::fact("completes", rc == 0, rc == 2 ? "memory fault" : "abort"); H<DT>::end(); } }
  if(nnz(p) > 0)
  {
    std::vector<Index> pr(rows); for(Index i = 0; i < rows; ++i) pr[i] = i;
    do { std::vector<Index> pc(cols); for(Index i = 0; i < cols; ++i) pc[i] = i;
      do {
        std::string cn = "bcsr permute rows[" + join(pr) + "] cols[" + join(pc) + "] " + cfg; if(!H<DT>::want(cn)) continue;
        H<DT>::begin(cn, "{\"op\":\"permute\"}");
        Dense<DT> D; BM<DT> A = make_bcsr<DT, Index, BH, BW, BM<DT>>(rows, cols, p, "a", &D);
        int rc = guarded([&] {
          Adjacency::Permutation P(rows, Adjacency::Permutation::ConstrType::perm, pr.data()), Q(cols, Adjacency::Permutation::ConstrType::perm, pc.data());
          A.permute(P, Q); Dense<DT> G = expand<DT, Index>(A);
          for(Index i = 0; i < rows; ++i) for(Index j = 0; j < cols; ++j) for(int a = 0; a < BH; ++a) for(int b = 0; b < BW; ++b) H<DT>::eq("B[" + str(i) + "," + str(j) + "](" + str(Index(a)) + str(Index(b)) + ") = A[p(i),q(j)]", G[i * BH + Index(a)][j * BW + Index(b)], D[pr[i] * BH + Index(a)][pc[j] * BW + Index(b)]);
          bool sorted = true; for(Index i = 0; i < rows; ++i) for(Index k = A.row_ptr()[i]; k + 1 < A.row_ptr()[i + 1]; ++k) sorted = sorted && A.col_ind()[k] < A.col_ind()[k + 1];
          H<DT>::fact("layout sorted after permute", sorted);
        });
        H<DT>::fact("completes", rc == 0, rc == 2 ? "memory fault" : "abort"); H<DT>::end();
      } while(std::next_permutation(pc.begin(), pc.end()));
    } while(std::next_permutation(pr.begin(), pr.end()));
  }
}

template<typename DT> void run_all() { for(Index r = 1; r <= 2; ++r) for(Index c = 1; c <= 2; ++c) for(auto& p : all_patterns(r, c, 3)) cases<DT>(r, c, p); }

int main(int argc, char** argv)
{
  return vh::main_dispatch(argc, argv, [&] { run_all<vsym::SymReal>(); }, [&] {
#ifdef VH_REPLAY
    run_all<double>();
#endif
  });
}
