// C16 (E2): assembly on ONE cell with symbolic vertex coordinates (general, incl. non-affine quads/hexas):
//  * classic BilinearOperatorAssembler / LinearFunctionalAssembler vs. the DomainAssembler job route (entry by entry)
//  * kernel identities: Laplace / DuDv rows sum to zero, symmetric forms give symmetric matrices, sum of mass entries ==
//    sum_q w_q |det J(x_q)|, A applied to the constant vector
//  * independent oracle for Lagrange1 (P1 on simplices, Q1 on hypercubes): entry == sum_q w_q detJ_q * integrand built here
//    from closed-form reference basis functions and the vertex coordinates (FEAT's evaluators are not used by the oracle)
//  * sparsity pattern from SymbolicAssembler contains every coupling; scatter adds onto existing values (alpha, two calls)
#include "feat_helpers.hpp"
#include <kernel/geometry/conformal_mesh.hpp>
#include <kernel/geometry/reference_cell_factory.hpp>
#include <kernel/trafo/standard/mapping.hpp>
#include <kernel/space/lagrange1/element.hpp>
#include <kernel/space/lagrange2/element.hpp>
#include <kernel/space/cro_rav_ran_tur/element.hpp>
#include <kernel/space/discontinuous/element.hpp>
#include <kernel/cubature/dynamic_factory.hpp>
#include <kernel/assembly/symbolic_assembler.hpp>
#include <kernel/assembly/bilinear_operator_assembler.hpp>
#include <kernel/assembly/linear_functional_assembler.hpp>
#include <kernel/assembly/common_operators.hpp>
#include <kernel/assembly/common_functionals.hpp>
#include <kernel/assembly/domain_assembler.hpp>
#include <kernel/assembly/domain_assembler_helpers.hpp>
#include <kernel/analytic/lambda_function.hpp>
using namespace FEAT; using namespace vh;
static int g_level = 1;

template<typename Shape_> struct SI;
template<> struct SI<Shape::Simplex<2>> { static const char* name() { return "tria"; } static constexpr bool simplex = true; static const char* cub() { return g_level > 1 ? "auto-degree:4" : "auto-degree:2"; } };
template<> struct SI<Shape::Hypercube<2>> { static const char* name() { return "quad"; } static constexpr bool simplex = false; static const char* cub() { return g_level > 1 ? "gauss-legendre:3" : "gauss-legendre:2"; } };
template<> struct SI<Shape::Simplex<3>> { static const char* name() { return "tetra"; } static constexpr bool simplex = true; static const char* cub() { return g_level > 1 ? "auto-degree:3" : "auto-degree:2"; } };
template<> struct SI<Shape::Hypercube<3>> { static const char* name() { return "hexa"; } static constexpr bool simplex = false; static const char* cub() { return "gauss-legendre:2"; } };

template<typename DT, typename Shape_>
Geometry::ConformalMesh<Shape_, Shape_::dimension, DT> make_cell(bool general)
{
  typedef Geometry::ConformalMesh<Shape_, Shape_::dimension, DT> Mesh; constexpr int dim = Shape_::dimension;
  Geometry::ReferenceCellFactory<Shape_, DT> fac; Mesh mesh(fac);
  auto& vs = mesh.get_vertex_set(); const Index nv = mesh.get_num_entities(0);
  for(Index v = 0; v < nv; ++v) for(int d = 0; d < dim; ++d)
  {
    double ref = double(vs[v][d]);
    if(general) { double sh = ref * (1.0 + 0.125 * d) + 0.09375 * double((v * 7 + Index(d) * 3) % 5) - 0.0625 * double((v + Index(d)) % 3) + 0.3 * d; vs[v][d] = H<DT>::var("v" + str(v) + "_" + str(Index(d)), sh); }
  }
  if(!general)
  {
    DT B[3][3], c[3];
    for(int i = 0; i < dim; ++i) { c[i] = H<DT>::var("c" + str(Index(i)), 0.25 * i - 0.125); for(int j = 0; j < dim; ++j) B[i][j] = H<DT>::var("B" + str(Index(i)) + str(Index(j)), (i == j ? 1.25 + 0.25 * i : 0.1875 * (i + 1) - 0.125 * j)); }
    for(Index v = 0; v < nv; ++v) { DT r[3]; for(int d = 0; d < dim; ++d) r[d] = vs[v][d]; for(int i = 0; i < dim; ++i) { DT s = c[i]; for(int j = 0; j < dim; ++j) s += B[i][j] * r[j]; vs[v][i] = s; } }
  }
  return mesh;
}

// closed-form reference P1 / Q1 basis on FEAT's reference cells: simplex = {x>=0, sum x <=1}, hypercube = [-1,1]^d
template<typename DT, typename Shape_> struct RefL1
{
  static constexpr int dim = Shape_::dimension; static constexpr int nv = Shape::FaceTraits<Shape_, 0>::count;
  static void eval(const DT* xi, DT* val, DT (*grad)[3])
  {
    if(SI<Shape_>::simplex)
    {
      val[0] = DT(1); for(int d = 0; d < dim; ++d) val[0] = val[0] - xi[d];
      for(int d = 0; d < dim; ++d) grad[0][d] = DT(-1);
      for(int v = 1; v <= dim; ++v) { val[v] = xi[v - 1]; for(int d = 0; d < dim; ++d) grad[v][d] = DT(d == v - 1 ? 1 : 0); }
    }
    else
    {
      for(int v = 0; v < nv; ++v)
      {
        DT p = DT(1);
        for(int d = 0; d < dim; ++d) { DT sg = DT(((v >> d) & 1) ? 1 : -1); p = p * (DT(1) + sg * xi[d]) * DT(0.5); }
        val[v] = p;
        for(int d = 0; d < dim; ++d) { DT g = DT(((v >> d) & 1) ? 0.5 : -0.5); for(int e = 0; e < dim; ++e) if(e != d) { DT sg = DT(((v >> e) & 1) ? 1 : -1); g = g * (DT(1) + sg * xi[e]) * DT(0.5); } grad[v][d] = g; }
      }
    }
  }
};
template<typename DT> DT det3(DT (*J)[3], int dim)
{
  if(dim == 2) return J[0][0] * J[1][1] - J[0][1] * J[1][0];
  return J[0][0] * (J[1][1] * J[2][2] - J[1][2] * J[2][1]) - J[0][1] * (J[1][0] * J[2][2] - J[1][2] * J[2][0]) + J[0][2] * (J[1][0] * J[2][1] - J[1][1] * J[2][0]);
}
// adjugate-based inverse (no pivoting): Jinv = adj(J) / det
template<typename DT> void inv3(DT (*J)[3], int dim, DT det, DT (*Ji)[3])
{
  if(dim == 2) { Ji[0][0] = J[1][1] / det; Ji[0][1] = -J[0][1] / det; Ji[1][0] = -J[1][0] / det; Ji[1][1] = J[0][0] / det; return; }
  for(int i = 0; i < 3; ++i) for(int j = 0; j < 3; ++j)
  {
    int a = (j + 1) % 3, b = (j + 2) % 3, c = (i + 1) % 3, d = (i + 2) % 3;
    Ji[i][j] = (J[a][c] * J[b][d] - J[a][d] * J[b][c]) / det;
  }
}

template<typename DT, typename Shape_, template<typename...> class Elem_, typename... Extra_>
void cell_cases(const std::string& ename, bool general, bool is_l1, bool h1)
{
  typedef Geometry::ConformalMesh<Shape_, Shape_::dimension, DT> Mesh; constexpr int dim = Shape_::dimension;
  typedef Trafo::Standard::Mapping<Mesh> TrafoT; typedef Elem_<TrafoT, Extra_...> SpaceT; typedef LAFEM::SparseMatrixCSR<DT, Index> MT; typedef LAFEM::DenseVector<DT, Index> VT;
  std::string cfg = ename + " on " + SI<Shape_>::name() + (general ? " (general vertices)" : " (affine image)");
  std::string cn = "assembly " + cfg; if(!H<DT>::want(cn)) return;
  H<DT>::begin(cn, "{\"element\":\"" + ename + "\",\"shape\":\"" + SI<Shape_>::name() + "\"}");
  int rc = guarded([&] {
    Mesh mesh = make_cell<DT, Shape_>(general); TrafoT trafo(mesh); SpaceT space(trafo);
    Cubature::DynamicFactory cf(SI<Shape_>::cub()); String cname(SI<Shape_>::cub());
    const Index nd = space.get_num_dofs();
    MT lap, mass, lap2, mass_job, lap_job;
    Assembly::SymbolicAssembler::assemble_matrix_std1(lap, space); mass = lap.clone(LAFEM::CloneMode::Layout); lap2 = lap.clone(LAFEM::CloneMode::Layout); mass_job = lap.clone(LAFEM::CloneMode::Layout); lap_job = lap.clone(LAFEM::CloneMode::Layout);
    H<DT>::fact("pattern: full coupling of the cell's dofs", lap.used_elements() == nd * nd && lap.rows() == nd && lap.columns() == nd, str(lap.used_elements()));
    { bool sorted = true; for(Index i = 0; i < nd; ++i) for(Index k = Index(lap.row_ptr()[i]) + 1; k < Index(lap.row_ptr()[i + 1]); ++k) sorted = sorted && lap.col_ind()[k - 1] < lap.col_ind()[k]; H<DT>::fact("pattern: rows sorted and duplicate-free", sorted); }
    lap.format(); mass.format(); lap2.format(); mass_job.format(); lap_job.format();
    Assembly::Common::LaplaceOperator lop; Assembly::Common::IdentityOperator iop;
    DT alpha = H<DT>::var("alpha", 0.75);
    if(h1) Assembly::BilinearOperatorAssembler::assemble_matrix1(lap, lop, space, cf);
    Assembly::BilinearOperatorAssembler::assemble_matrix1(mass, iop, space, cf);
    // scaled assembly onto existing values: lap2 = alpha * L, then += L
    if(h1) { Assembly::BilinearOperatorAssembler::assemble_matrix1(lap2, lop, space, cf, alpha); Assembly::BilinearOperatorAssembler::assemble_matrix1(lap2, lop, space, cf); }
    Assembly::DomainAssembler<TrafoT> da(trafo); da.set_max_worker_threads(0); da.compile_all_elements();
    Assembly::assemble_bilinear_operator_matrix_1(da, mass_job, iop, space, cname);
    if(h1) Assembly::assemble_bilinear_operator_matrix_1(da, lap_job, lop, space, cname);
    Dense<DT> L = csr_to_dense<DT>(lap), M = csr_to_dense<DT>(mass), L2 = csr_to_dense<DT>(lap2), Mj = csr_to_dense<DT>(mass_job), Lj = csr_to_dense<DT>(lap_job);
    // cubature rule data (double constants) for the oracle side
    Cubature::Rule<Shape_, DT, DT, Tiny::Vector<DT, dim>> rule; cf.create_throw(rule);
    // geometry by hand: x(xi) = sum_v N_v(xi) X_v with closed-form reference P1/Q1 shape functions
    auto& vs = mesh.get_vertex_set(); constexpr int nv = Shape::FaceTraits<Shape_, 0>::count;
    DT vol = DT(0); std::vector<DT> wdet; std::vector<std::vector<DT>> pv((size_t)rule.get_num_points()); std::vector<std::vector<std::array<DT, 3>>> pg((size_t)rule.get_num_points());
    for(int q = 0; q < rule.get_num_points(); ++q)
    {
      DT xi[3]; for(int d = 0; d < dim; ++d) xi[d] = rule.get_coord(q, d);
      DT val[8], grad[8][3]; RefL1<DT, Shape_>::eval(xi, val, grad);
      DT J[3][3]; for(int i = 0; i < dim; ++i) for(int j = 0; j < dim; ++j) { DT s = DT(0); for(int v = 0; v < nv; ++v) s += vs[Index(v)][i] * grad[v][j]; J[i][j] = s; }
      DT det = det3<DT>(J, dim); DT Ji[3][3]; inv3<DT>(J, dim, det, Ji);
      wdet.push_back(rule.get_weight(q) * det); vol += wdet.back();
      for(int v = 0; v < nv; ++v) { pv[size_t(q)].push_back(val[v]); std::array<DT, 3> g; for(int i = 0; i < dim; ++i) { DT s = DT(0); for(int j = 0; j < dim; ++j) s += grad[v][j] * Ji[j][i]; g[size_t(i)] = s; } pg[size_t(q)].push_back(g); }
    }
    // kernel / symmetry / volume identities
    DT msum = DT(0);
    for(Index i = 0; i < nd; ++i)
    {
      DT rs = DT(0);
      for(Index j = 0; j < nd; ++j)
      {
        msum += M[i][j]; rs += L[i][j];
        if(j > i) { H<DT>::eq("mass symmetric (" + str(i) + "," + str(j) + ")", M[i][j], M[j][i]); if(h1) H<DT>::eq("laplace symmetric (" + str(i) + "," + str(j) + ")", L[i][j], L[j][i]); }
        H<DT>::eq("mass: classic == job route (" + str(i) + "," + str(j) + ")", Mj[i][j], M[i][j]);
        if(h1) { H<DT>::eq("laplace: classic == job route (" + str(i) + "," + str(j) + ")", Lj[i][j], L[i][j]); H<DT>::eq("scaled + repeated assembly (" + str(i) + "," + str(j) + ")", L2[i][j], alpha * L[i][j] + L[i][j]); }
      }
      if(h1) H<DT>::eq("laplace annihilates constants: row " + str(i), rs, DT(0));
    }
    H<DT>::eq("sum of mass entries == sum_q w_q det J(x_q)", msum, vol);
    if(h1) H<DT>::witness("wrong identity refuted (L00 == L01)", L[0][0], L[0][nd > 1 ? 1 : 0] + DT(1));
    // independent entry oracle for Lagrange1 (local dof v == vertex v on a one-cell mesh)
    const bool entry_oracle = is_l1 && (g_level > 1 || SI<Shape_>::simplex || dim == 2);   // general/affine hexahedra entry oracle: thorough tier
    if(entry_oracle) for(Index i = 0; i < nd; ++i) for(Index j = i; j < nd; ++j)
    {
      DT em = DT(0), el = DT(0);
      for(size_t q = 0; q < wdet.size(); ++q) { em += wdet[q] * pv[q][i] * pv[q][j]; DT dp = DT(0); for(int d = 0; d < dim; ++d) dp += pg[q][i][size_t(d)] * pg[q][j][size_t(d)]; el += wdet[q] * dp; }
      H<DT>::eq("mass entry == independent cubature sum (" + str(i) + "," + str(j) + ")", M[i][j], em);
      H<DT>::eq("laplace entry == independent cubature sum (" + str(i) + "," + str(j) + ")", L[i][j], el);
    }
    // linear functional: force functional with a symbolic polynomial, classic vs job route, oracle for L1
    {
      DT c0 = H<DT>::var("f0", 0.5), c1 = H<DT>::var("f1", -0.375), c2 = H<DT>::var("f2", 0.25), c3 = H<DT>::var("f3", 0.625);
      VT v1(nd, DT(0)), v2(nd, DT(0));
      auto body = [&](auto func) {
        Assembly::Common::ForceFunctional<decltype(func)> ff(func);
        Assembly::LinearFunctionalAssembler::assemble_vector(v1, ff, space, cf);
        Assembly::assemble_linear_functional_vector(da, v2, ff, space, cname);
      };
      if constexpr(dim == 2) body(Analytic::create_lambda_function_scalar_2d([&](DT x, DT y) { return c0 + c1 * x + c2 * y + c3 * x * y; }));
      else body(Analytic::create_lambda_function_scalar_3d([&](DT x, DT y, DT z) { return c0 + c1 * x + c2 * y + c3 * x * z; }));
      for(Index i = 0; i < nd; ++i) H<DT>::eq("force vector: classic == job route [" + str(i) + "]", v2(i), v1(i));
      if(entry_oracle) for(Index i = 0; i < nd; ++i)
      {
        DT e = DT(0);
        for(size_t q = 0; q < wdet.size(); ++q) { DT x[3]; for(int d = 0; d < dim; ++d) { DT s = DT(0); for(int v = 0; v < nv; ++v) s += vs[Index(v)][d] * pv[q][size_t(v)]; x[d] = s; } DT fv = (dim == 2) ? DT(c0 + c1 * x[0] + c2 * x[1] + c3 * x[0] * x[1]) : DT(c0 + c1 * x[0] + c2 * x[1] + c3 * x[0] * x[2]); e += wdet[q] * fv * pv[q][i]; }
        H<DT>::eq("force entry == independent cubature sum [" + str(i) + "]", v1(i), e);
      }
    }
  });
  H<DT>::fact("completes", rc == 0, rc == 2 ? "memory fault" : "abort");
  H<DT>::end();
}

template<typename T> using L1 = Space::Lagrange1::Element<T>;
template<typename T> using L2 = Space::Lagrange2::Element<T>;
template<typename T> using CR = Space::CroRavRanTur::Element<T>;
template<typename T> using D1 = Space::Discontinuous::Element<T, Space::Discontinuous::Variant::StdPolyP<1>>;

template<typename DT, typename Shape_>
void run_shape(bool allow_general)
{
  for(int g = 0; g < 2; ++g)
  {
    bool general = (g == 0); if(general && !allow_general) continue;
    cell_cases<DT, Shape_, L1>("lagrange1", general, true, true);
    if(Shape_::dimension == 2 || g_level > 1) cell_cases<DT, Shape_, L2>("lagrange2", general, false, true);
    if(Shape_::dimension == 2 || g_level > 1) cell_cases<DT, Shape_, CR>("crouzeix-raviart/rannacher-turek", general, false, true);
  }
}

template<typename DT>
void run_all()
{
  run_shape<DT, Shape::Simplex<2>>(true); run_shape<DT, Shape::Hypercube<2>>(true);
  run_shape<DT, Shape::Simplex<3>>(true); run_shape<DT, Shape::Hypercube<3>>(g_level > 1);
}

int main(int argc, char** argv)
{
  int na = argc;
  for(int i = 1; i < argc; ++i) if(std::string(argv[i]) == "--bounds" && i + 1 < argc) { g_level = atoi(argv[i + 1]); na = i; }
  return vh::main_dispatch(na, argv, [&] { run_all<vsym::SymReal>(); }, [&] {
#ifdef VH_REPLAY
    run_all<double>();
#endif
  });
}
