// C07 (E2): (A) the stopping-criterion state machine of IterativeSolver driven with symbolic tolerances and symbolic defect
// sequences (scenarios = shadow points that reach every status); (B) the real Richardson / PCG / BiCGStab / PCR / FGMRES
// objects on symbolic 2x2 / 3x3 systems: reported final defect == true residual norm, rhs untouched, apply() ignores and
// correct() honours the start vector, repeated solves on one object agree.
#define VSYM_IMPLICIT_DOUBLE 1  // Statistics::add_solver_expression(ExpressionDefect(name, double, iter)) logs defects as double
#include "feat_helpers.hpp"
#include <kernel/lafem/none_filter.hpp>
#include <kernel/solver/iterative.hpp>
#include <kernel/solver/richardson.hpp>
#include <kernel/solver/pcg.hpp>
#include <kernel/solver/bicgstab.hpp>
#include <kernel/solver/pcr.hpp>
#include <kernel/solver/fgmres.hpp>
#include <kernel/solver/jacobi_precond.hpp>
#include <algorithm>
using namespace FEAT; using namespace vh;
static int g_level = 1;

// ------------------------------------------------------------------ (A) state machine
template<typename DT> struct NormVec { typedef DT DataType; DT nrm; DT norm2() const { return nrm; } };
template<typename DT>
class Probe : public Solver::IterativeSolver<NormVec<DT>>
{
public:
  typedef Solver::IterativeSolver<NormVec<DT>> Base;
  Probe() : Base("probe") {}
  virtual String name() const override { return "probe"; }
  virtual Solver::Status apply(NormVec<DT>&, const NormVec<DT>&) override { return Solver::Status::undefined; }
  virtual Solver::Status correct(NormVec<DT>&, const NormVec<DT>&) override { return Solver::Status::undefined; }
  Solver::Status init_def(DT d) { NormVec<DT> v; v.nrm = d; return this->_set_initial_defect(v, v); }
  Solver::Status upd(DT d) { return this->_update_defect(d); }
};
struct Scen { const char* name; int expect; double tol_rel, tol_abs, tol_abs_low, div_rel, div_abs, stag_rate; int min_iter, max_iter, min_stag; std::vector<double> defs; };

template<typename DT>
void state_machine()
{
  std::vector<Scen> sc = {
    {"converge-rel", 2, 1e-2, 1e6, 0.0, 1e3, 1e9, 0.95, 0, 10, 0, {8.0, 3.0, 0.5, 0.04}},
    {"converge-abs-low", 2, 1e-9, 1e6, 0.5, 1e3, 1e9, 0.95, 0, 10, 0, {8.0, 3.0, 0.25}},
    {"min-iter-delays-success", 2, 1e-1, 1e6, 0.0, 1e3, 1e9, 0.95, 3, 10, 0, {8.0, 0.5, 0.4, 0.3}},
    {"tol-abs-blocks-success", 5, 1e-1, 0.01, 0.0, 1e3, 1e9, 0.95, 0, 3, 0, {8.0, 0.5, 0.4, 0.3}},
    {"max-iter", 5, 1e-6, 1e6, 0.0, 1e3, 1e9, 0.95, 0, 3, 0, {8.0, 4.0, 2.0, 1.0}},
    {"diverge-rel", 4, 1e-6, 1e6, 0.0, 4.0, 1e9, 0.95, 0, 10, 0, {2.0, 3.0, 9.0}},
    {"diverge-abs", 4, 1e-6, 1e6, 0.0, 1e6, 20.0, 0.95, 0, 10, 0, {2.0, 3.0, 25.0}},
    {"stagnate", 6, 1e-6, 1e6, 0.0, 1e3, 1e9, 0.9, 0, 10, 2, {8.0, 4.0, 3.9, 3.8}},
    {"stagnation-interrupted", 5, 1e-6, 1e6, 0.0, 1e3, 1e9, 0.9, 0, 5, 2, {8.0, 7.9, 4.0, 3.9, 2.0, 1.9}},
    {"initial-below-abs-low", 2, 1e-6, 1e6, 1.0, 1e3, 1e9, 0.9, 0, 5, 0, {0.5}},
    {"initial-zero", 2, 1e-6, 1e6, 0.0, 1e3, 1e9, 0.9, 0, 5, 0, {0.0}},
    {"max-iter-zero-steps", 5, 1e-6, 1e6, 0.0, 1e3, 1e9, 0.95, 0, 1, 0, {8.0, 7.0}},
  };
  for(auto& s : sc)
  {
    std::string cn = std::string("state-machine ") + s.name; if(!H<DT>::want(cn)) continue;
    H<DT>::begin(cn, "{\"part\":\"state machine\"}");
    Probe<DT> P;
    std::string pf = std::string(s.name) + "_";   // variables are global by name: keep every scenario's shadow point its own
    DT tol_rel = H<DT>::var(pf + "tol_rel", s.tol_rel), tol_abs = H<DT>::var(pf + "tol_abs", s.tol_abs), tol_low = H<DT>::var(pf + "tol_abs_low", s.tol_abs_low), div_rel = H<DT>::var(pf + "div_rel", s.div_rel),
       div_abs = H<DT>::var(pf + "div_abs", s.div_abs), stag = H<DT>::var(pf + "stag_rate", s.stag_rate);
    P.set_tol_rel(tol_rel); P.set_tol_abs(tol_abs); P.set_tol_abs_low(tol_low); P.set_div_rel(div_rel); P.set_div_abs(div_abs); P.set_stag_rate(stag);
    P.set_min_iter(Index(s.min_iter)); P.set_max_iter(Index(s.max_iter)); P.set_min_stag_iter(Index(s.min_stag)); P.set_plot_mode(Solver::PlotMode::none);
    std::vector<DT> d; for(size_t k = 0; k < s.defs.size(); ++k) d.push_back(H<DT>::var(std::string(s.name) + "_d" + str(Index(k)), s.defs[k]));
    Solver::Status st = P.init_def(d[0]); size_t k = 0;
    while(st == Solver::Status::progress && k + 1 < d.size()) { ++k; st = P.upd(d[k]); }
    // counters
    H<DT>::fact("iteration count == number of updates", P.get_num_iter() == Index(k), str(P.get_num_iter()));
    H<DT>::eq("initial defect reported", P.get_def_initial(), d[0]); H<DT>::eq("final defect reported", P.get_def_final(), d[k]);
    DT dk = d[k], d0 = d[0];
    using Solver::Status;
    if(st == Status::success && k > 0)
    {
      H<DT>::fact("success only after min_iter", Index(k) >= Index(s.min_iter));
      H<DT>::le("success: d <= tol_abs", dk, tol_abs);
      // (d <= tol_rel*d0) or (d <= tol_abs_low): product form  min(d - tol_rel*d0, d - low) <= 0
      DT a = dk - tol_rel * d0, b = dk - tol_low; H<DT>::le("success: d <= tol_rel*d0 or d <= tol_abs_low", Math::min(a, b), DT(0));
      H<DT>::le("success: not diverged (abs)", dk, div_abs); H<DT>::le("success: not diverged (rel)", dk, div_rel * d0);
    }
    if(st == Status::max_iter)
    {
      H<DT>::fact("max_iter: iteration limit reached", Index(k) >= Index(s.max_iter));
      // not converged: d > tol_abs or (d > tol_rel*d0 and d > low)  <=>  max(d - tol_abs, min(d - tol_rel d0, d - low)) > 0
      DT nc = Math::max(dk - tol_abs, Math::min(dk - tol_rel * d0, dk - tol_low)); H<DT>::le("max_iter: not converged", DT(0), nc); H<DT>::witness("max_iter: strictly not converged", nc, DT(0));
    }
    if(st == Status::diverged) { DT dv = Math::max(dk - div_abs, dk - div_rel * d0); H<DT>::le("diverged: predicate holds", DT(0), dv); }
    if(st == Status::stagnated)
    {
      H<DT>::fact("stagnated: enabled and enough iterations", s.min_stag > 0 && int(k) >= s.min_stag);
      for(int j = 0; j < s.min_stag && int(k) - j >= 1; ++j) H<DT>::le("stagnated: step " + str(Index(k - size_t(j))) + " did stagnate", stag * d[k - size_t(j) - 1], d[k - size_t(j)]);
    }
    if(st == Status::progress)
    {
      H<DT>::fact("progress: below max_iter", Index(k) < Index(s.max_iter) || Index(k) < Index(s.min_iter));
      H<DT>::le("progress: not diverged (abs)", dk, div_abs); H<DT>::le("progress: not diverged (rel)", dk, div_rel * d0);
    }
    H<DT>::fact(std::string("scenario reaches the intended status: ") + s.name, int(st) == s.expect, stringify(st));
    H<DT>::end();
  }
}

// ------------------------------------------------------------------ (B) real Krylov / defect-correction solvers
template<typename DT> LAFEM::SparseMatrixCSR<DT, Index> spd(Index n, Dense<DT>& D)
{
  // A = L L^T + shift with symbolic lower-triangular L: symmetric positive definite for every real L with non-zero diagonal
  Dense<DT> L = dense_zero<DT>(n, n);
  for(Index i = 0; i < n; ++i) for(Index j = 0; j <= i; ++j) L[i][j] = H<DT>::var("l" + str(i) + str(j), i == j ? 1.5 + 0.25 * double(i) : 0.375 - 0.25 * double(i + j));
  Pattern p(n); for(Index i = 0; i < n; ++i) for(Index j = 0; j < n; ++j) p[i].push_back(j);
  LAFEM::SparseMatrixCSR<DT, Index> A = make_csr<DT>(n, n, p, "unused_spd", nullptr);
  D = dense_zero<DT>(n, n);
  for(Index i = 0; i < n; ++i) for(Index j = 0; j < n; ++j) { DT s = DT(0); for(Index k = 0; k < n; ++k) s += L[i][k] * L[j][k]; D[i][j] = s; A.val()[i * n + j] = s; }
  return A;
}
template<typename DT> LAFEM::SparseMatrixCSR<DT, Index> gen(Index n, Dense<DT>& D)
{
  Pattern p(n); for(Index i = 0; i < n; ++i) for(Index j = 0; j < n; ++j) p[i].push_back(j);
  LAFEM::SparseMatrixCSR<DT, Index> A = make_csr<DT>(n, n, p, "unused_gen", nullptr); D = dense_zero<DT>(n, n);
  for(Index i = 0; i < n; ++i) for(Index j = 0; j < n; ++j) { DT v = H<DT>::var("g" + str(i) + str(j), i == j ? 2.5 + 0.5 * double(i) : (i < j ? 0.625 : -0.375) + 0.125 * double(j)); D[i][j] = v; A.val()[i * n + j] = v; }
  return A;
}

template<typename DT, typename MK>
void solver_cases(const std::string& sname, Index n, bool spd_matrix, int max_iter, MK mk, double tol_shadow = 1e-8, int iter_slack = 0)
{
  typedef LAFEM::DenseVector<DT, Index> VT; typedef LAFEM::SparseMatrixCSR<DT, Index> MT; typedef LAFEM::NoneFilter<DT, Index> FT;
  for(int mode = 0; mode < 3; ++mode) // 0: apply (junk start vector A), 1: correct with symbolic start vector, 2: apply twice on one object
  {
    static const char* mn[] = {"apply", "correct", "apply-twice"};
    std::string cn = "solver " + sname + " n=" + str(n) + " " + mn[mode] + " max_iter=" + str(Index(max_iter)) + (tol_shadow > 1e-4 ? " loose-tolerance" : ""); if(!H<DT>::want(cn)) continue;
    H<DT>::begin(cn, "{\"part\":\"solver\",\"solver\":\"" + sname + "\"}");
    // probe: one complete solve on a fresh solver object must not read uninitialised work vectors
    bool clean = uninit_free<DT>([&]() -> bool {
      Dense<DT> D; MT A = spd_matrix ? spd<DT>(n, D) : gen<DT>(n, D); FT filt; VT b = make_vec<DT>(n, "b", 1.0, 0.4375), x(n);
      for(Index i = 0; i < n; ++i) x(i, DT(0));
      auto s = mk(A, filt); s->set_max_iter(Index(max_iter)); s->set_min_iter(Index(0)); s->set_tol_rel(DT(tol_shadow)); s->set_tol_abs(DT(1e30)); s->set_plot_mode(Solver::PlotMode::none);
      s->init(); s->apply(x, b); bool fin = true; for(Index i = 0; i < n; ++i) fin = fin && (H<DT>::sh(x(i)) == H<DT>::sh(x(i))); fin = fin && (H<DT>::sh(s->get_def_final()) == H<DT>::sh(s->get_def_final())); s->done(); return fin; });
    H<DT>::fact("a solve on a fresh solver object does not read uninitialised work vectors", clean, "an uninitialised work vector is read (0 * old value: NaN/Inf garbage propagates into the solution)");
    if(!clean) { H<DT>::end(); continue; }
    int rc = guarded([&] {
      Dense<DT> D; MT A = spd_matrix ? spd<DT>(n, D) : gen<DT>(n, D); FT filt;
      VT b = make_vec<DT>(n, "b", 1.0, 0.4375); auto bb = to_std(b);
      auto s = mk(A, filt);
      DT tolr = H<DT>::var(tol_shadow > 1e-4 ? "tol_loose" : "tol_tight", tol_shadow);
      s->set_max_iter(Index(max_iter)); s->set_min_iter(Index(0)); s->set_tol_rel(tolr); s->set_tol_abs(DT(1e30)); s->set_plot_mode(Solver::PlotMode::none);
      s->init();
      VT x(n);
      auto residual2 = [&](const VT& xx) { DT r2 = DT(0); for(Index i = 0; i < n; ++i) { DT r = bb[i]; for(Index j = 0; j < n; ++j) r = r - D[i][j] * xx(j); r2 += r * r; } return r2; };
      auto check = [&](const std::string& t, Solver::Status st, const VT& xx) {
        DT df = s->get_def_final();
        H<DT>::eq(t + " reported final defect^2 == |b - A x|^2", df * df, residual2(xx)); H<DT>::le(t + " final defect >= 0", DT(0), df);
        for(Index i = 0; i < n; ++i) H<DT>::eq(t + " rhs unchanged [" + str(i) + "]", b(i), bb[i]);
        if(st == Solver::Status::success) { H<DT>::le(t + " success: final <= tol_rel * initial (or abs)", Math::min(DT(df - tolr * s->get_def_initial()), DT(df - DT(0))), DT(0)); }
        H<DT>::fact(t + " iteration count within limit", s->get_num_iter() <= Index(max_iter + iter_slack), str(s->get_num_iter()));
        H<DT>::fact(t + " status is success or max_iter", st == Solver::Status::success || st == Solver::Status::max_iter, stringify(st));
        if(st == Solver::Status::max_iter) H<DT>::fact(t + " max_iter reported only at the limit", s->get_num_iter() >= Index(max_iter));
      };
      if(mode == 0)
      {
        for(Index i = 0; i < n; ++i) x(i, H<DT>::var("junkA" + str(i), 17.0 + double(i)));
        Solver::Status st = s->apply(x, b); check("apply", st, x);
        // same solve with a different junk start vector: apply must ignore it
        VT y(n); for(Index i = 0; i < n; ++i) y(i, H<DT>::var("junkB" + str(i), -5.0 - double(i)));
        Solver::Status st2 = s->apply(y, b); H<DT>::fact("apply ignores start vector: same status", st == st2);
        for(Index i = 0; i < n; ++i) H<DT>::eq("apply ignores start vector [" + str(i) + "]", y(i), x(i));
      }
      else if(mode == 1)
      {
        for(Index i = 0; i < n; ++i) x(i, H<DT>::var("x0_" + str(i), 0.25 - 0.5 * double(i)));
        DT r0 = residual2(x);
        Solver::Status st = s->correct(x, b); check("correct", st, x);
        DT di = s->get_def_initial(); H<DT>::eq("correct: initial defect^2 == |b - A x0|^2", di * di, r0);
      }
      else
      {
        for(Index i = 0; i < n; ++i) x(i, DT(0));
        Solver::Status st = s->apply(x, b); Index it1 = s->get_num_iter(); DT d1 = s->get_def_final();
        VT y(n); for(Index i = 0; i < n; ++i) y(i, DT(0));
        Solver::Status st2 = s->apply(y, b);
        H<DT>::fact("repeat: same status", st == st2, stringify(st) + " vs " + stringify(st2)); H<DT>::fact("repeat: same iteration count", it1 == s->get_num_iter(), str(it1) + " vs " + str(s->get_num_iter()));
        H<DT>::eq("repeat: same final defect", s->get_def_final(), d1);
        for(Index i = 0; i < n; ++i) H<DT>::eq("repeat: same solution [" + str(i) + "]", y(i), x(i));
      }
      s->done();
    });
    H<DT>::fact("completes", rc == 0, rc == 2 ? "memory fault" : "abort");
    H<DT>::end();
  }
}

// repeated solves with stagnation detection enabled (state carried between solves must be reset)
template<typename DT>
void repeat_stagnation()
{
  typedef LAFEM::DenseVector<DT, Index> VT; typedef LAFEM::SparseMatrixCSR<DT, Index> MT; typedef LAFEM::NoneFilter<DT, Index> FT;
  std::string cn = "solver richardson repeated solves with stagnation detection"; if(!H<DT>::want(cn)) return;
  H<DT>::begin(cn, "{\"part\":\"solver\"}");
  int rc = guarded([&] {
    Dense<DT> D; MT A = spd<DT>(2, D); FT filt; VT b = make_vec<DT>(2, "b", 1.0, 0.4375);
    auto s = Solver::new_richardson(A, filt, H<DT>::var("omega_r", 0.0078125)); // tiny damping: every step stagnates at rate 0.99
    s->set_plot_mode(Solver::PlotMode::none); s->set_max_iter(Index(3)); s->set_min_stag_iter(Index(4)); s->set_stag_rate(DT(0.5)); s->set_tol_rel(DT(1e-8)); s->init();
    VT x(2), y(2);
    Solver::Status st1 = s->apply(x, b); Index it1 = s->get_num_iter();
    Solver::Status st2 = s->apply(y, b); Index it2 = s->get_num_iter();
    H<DT>::fact("first solve ends with max_iter (3 stagnating steps < min_stag_iter 4)", st1 == Solver::Status::max_iter, stringify(st1));
    H<DT>::fact("second solve reports the same status", st2 == st1, stringify(st2)); H<DT>::fact("second solve performs the same number of iterations", it1 == it2, str(it1) + " vs " + str(it2));
    for(Index i = 0; i < 2; ++i) H<DT>::eq("same result [" + str(i) + "]", y(i), x(i));
    s->done();
  });
  H<DT>::fact("completes", rc == 0);
  H<DT>::end();
}

#ifndef C07_EXTRA_SOLVERS
template<typename DT>
void run_all()
{
  typedef LAFEM::SparseMatrixCSR<DT, Index> MT; typedef LAFEM::NoneFilter<DT, Index> FT; typedef LAFEM::DenseVector<DT, Index> VT;
  state_machine<DT>();
  // Krylov methods terminate exactly after n steps in real arithmetic (zero residual, degenerate comparisons): keep iteration limit < n
  for(int mi = 1; mi <= (g_level > 1 ? 3 : 2); ++mi)
  {
    solver_cases<DT>("richardson", 2, true, mi, [](const MT& A, const FT& f) { return Solver::new_richardson(A, f, DT(0.25)); });
    solver_cases<DT>("richardson+jacobi", 2, true, mi, [](const MT& A, const FT& f) { return Solver::new_richardson(A, f, DT(0.5), Solver::new_jacobi_precond(A, f)); });
  }
  for(Index n = 2; n <= Index(g_level > 1 ? 3 : 2); ++n) for(int mi = 1; mi < int(n); ++mi)
  {
    solver_cases<DT>("pcg", n, true, mi, [](const MT& A, const FT& f) { return Solver::new_pcg(A, f); });
    solver_cases<DT>("pcg+jacobi", n, true, mi, [](const MT& A, const FT& f) { return Solver::new_pcg(A, f, Solver::new_jacobi_precond(A, f)); });
    solver_cases<DT>("bicgstab", n, false, mi, [](const MT& A, const FT& f) { return Solver::new_bicgstab(A, f); });
    solver_cases<DT>("pcr", n, true, mi, [](const MT& A, const FT& f) { return Solver::new_pcr(A, f); });
    // loose relative tolerance: the early exits inside an iteration (e.g. BiCGStab's half step) are taken
    solver_cases<DT>("bicgstab", n, false, mi, [](const MT& A, const FT& f) { return Solver::new_bicgstab(A, f); }, 0.9);
    solver_cases<DT>("pcg", n, true, mi, [](const MT& A, const FT& f) { return Solver::new_pcg(A, f); }, 0.9);
    solver_cases<DT>("pcr", n, true, mi, [](const MT& A, const FT& f) { return Solver::new_pcr(A, f); }, 0.9);
  }
  solver_cases<DT>("richardson", 2, true, 3, [](const MT& A, const FT& f) { return Solver::new_richardson(A, f, DT(0.25)); }, 0.9);
  repeat_stagnation<DT>();
}
#endif // C07_EXTRA_SOLVERS

#ifndef C07_EXTRA_SOLVERS
int main(int argc, char** argv)
{
  int na = argc;
  for(int i = 1; i < argc; ++i) if(std::string(argv[i]) == "--bounds" && i + 1 < argc) { g_level = atoi(argv[i + 1]); na = i; }
  return vh::main_dispatch(na, argv, [&] { run_all<vsym::SymReal>(); }, [&] {
#ifdef VH_REPLAY
    run_all<double>();
#endif
  });
}
#endif
