// C02 (E2, meta-matrix slice): the meta matrices built as in c01_e2.cpp (PowerRow/Col/Diag/Full, SaddlePoint, TupleDiag, TupleMatrix over
// CSR blocks with symbolic values): conversion to one SparseMatrixCSR (generic convert through get_length_of_line / set_line) must give
// the same dense matrix with the same dimensions; scale_rows / scale_cols where the class offers them (SaddlePointMatrix::lump_rows /
// extract_diag act on block A only by design and are not compared with the dense formula).
#define C01_META_CASES_EXTERN 1
#include "feat_helpers.hpp"
#include <type_traits>
using namespace FEAT; using namespace vh;
template<typename DT, int FLAT, bool T_AXPY = true, typename MT> void meta_cases(const std::string& name, const MT& A, const Dense<DT>& D);
#include "c01_e2.cpp"

template<typename MT, typename = void> struct has_lump : std::false_type {};
template<typename MT> struct has_lump<MT, std::void_t<decltype(std::declval<const MT&>().lump_rows(std::declval<typename MT::VectorTypeL&>()))>> : std::true_type {};
template<typename MT, typename = void> struct has_scale_rows : std::false_type {};
template<typename MT> struct has_scale_rows<MT, std::void_t<decltype(std::declval<MT&>().scale_rows(std::declval<const MT&>(), std::declval<const typename MT::VectorTypeL&>()))>> : std::true_type {};

template<typename MT, typename = void> struct has_pod_rows : std::false_type {};
template<typename MT> struct has_pod_rows<MT, std::void_t<decltype(std::declval<const MT&>().template rows<LAFEM::Perspective::pod>())>> : std::true_type {};

template<typename DT, typename V> std::vector<DT> flat_of(const V& v) { std::vector<DT> f(v.template size<LAFEM::Perspective::pod>() + 1); v.set_vec(f.data()); f.resize(v.template size<LAFEM::Perspective::pod>()); return f; }

template<typename DT, int FLAT, bool T_AXPY, typename MT>
void meta_cases(const std::string& name, const MT& A, const Dense<DT>& D)
{
  typedef LAFEM::SparseMatrixCSR<DT, Index> CSR; typedef typename MT::VectorTypeL VL; typedef typename MT::VectorTypeR VR;
  const Index rows = Index(D.size()), cols = Index(D[0].size());
  if constexpr(has_pod_rows<MT>::value)
  { std::string cn = "meta->csr " + name; if(H<DT>::want(cn)) {
    H<DT>::begin(cn, "{\"part\":\"meta convert\"}");
    int rc = guarded([&] {
      CSR C; C.convert(A);
      H<DT>::fact("dimensions", C.rows() == rows && C.columns() == cols, str(C.rows()) + "x" + str(C.columns()));
      if(C.rows() == rows && C.columns() == cols) { Dense<DT> G = csr_to_dense<DT>(C); for(Index i = 0; i < rows; ++i) for(Index j = 0; j < cols; ++j) H<DT>::eq("converted (" + str(i) + "," + str(j) + ")", G[i][j], D[i][j]); }
      bool sorted = true; for(Index i = 0; i < C.rows(); ++i) for(Index k = C.row_ptr()[i]; k + 1 < C.row_ptr()[i + 1]; ++k) sorted = sorted && C.col_ind()[k] < C.col_ind()[k + 1];
      H<DT>::fact("converted layout sorted, duplicate free", sorted);
    });
    H<DT>::fact("completes", rc == 0, rc == 2 ? "memory fault" : "abort"); H<DT>::end(); } }
  if constexpr(has_scale_rows<MT>::value && has_pod_rows<MT>::value)
  { std::string cn = "meta scale_rows/cols " + name; if(H<DT>::want(cn)) {
    H<DT>::begin(cn, "{\"part\":\"meta algebra\"}");
    int rc = guarded([&] {
      VL sl = A.create_vector_l(); VR sr = A.create_vector_r(); std::vector<DT> lf, rf;
      { std::vector<DT> t(rows + 1); for(Index i = 0; i < rows; ++i) { t[i] = H<DT>::var("sl" + str(i), 0.5 + 0.375 * double(i)); lf.push_back(t[i]); } sl.set_vec_inv(t.data()); }
      { std::vector<DT> t(cols + 1); for(Index i = 0; i < cols; ++i) { t[i] = H<DT>::var("sr" + str(i), -1.25 + 0.3125 * double(i)); rf.push_back(t[i]); } sr.set_vec_inv(t.data()); }
      MT X = A.clone(LAFEM::CloneMode::Deep); X.scale_rows(A, sl); CSR CX; CX.convert(X); Dense<DT> GX = csr_to_dense<DT>(CX);
      for(Index i = 0; i < rows; ++i) for(Index j = 0; j < cols; ++j) H<DT>::eq("scale_rows (" + str(i) + "," + str(j) + ")", GX[i][j], lf[i] * D[i][j]);
      MT Y = A.clone(LAFEM::CloneMode::Deep); Y.scale_cols(A, sr); CSR CY; CY.convert(Y); Dense<DT> GY = csr_to_dense<DT>(CY);
      for(Index i = 0; i < rows; ++i) for(Index j = 0; j < cols; ++j) H<DT>::eq("scale_cols (" + str(i) + "," + str(j) + ")", GY[i][j], D[i][j] * rf[j]);
    });
    H<DT>::fact("completes", rc == 0, rc == 2 ? "memory fault" : "abort"); H<DT>::end(); } }
}

// square meta matrices: extract_diag == dense diagonal
template<typename DT>
void diag_cases()
{
  typedef LAFEM::SparseMatrixCSR<DT, Index> CSR;
  for(int v = 0; v < 3; ++v)
  {
    std::string vs = " v" + str(Index(v));
    auto check = [&](const std::string& nm, auto& M, const Dense<DT>& G) {
      std::string cn = "meta extract_diag " + nm + vs; if(!H<DT>::want(cn)) return;
      H<DT>::begin(cn, "{\"part\":\"meta algebra\"}");
      int rc = guarded([&] { auto d = M.create_vector_l(); M.extract_diag(d); auto f = flat_of<DT>(d); for(Index i = 0; i < Index(G.size()); ++i) H<DT>::eq("extract_diag [" + str(i) + "]", f[i], G[i][i]); });
      H<DT>::fact("completes", rc == 0, rc == 2 ? "memory fault" : "abort"); H<DT>::end(); };
    // blocks with stored diagonal: variant 0 (full) and 2 (diagonal-ish) have all diagonal entries; variant 1 (first row empty) lacks (0,0)
    if(v == 1) continue;
    { LAFEM::PowerDiagMatrix<CSR, 2> M; Dense<DT> D1, D2; M.template at<0, 0>() = blk<DT>("a", 2, 2, v, D1); M.template at<1, 1>() = blk<DT>("b", 1, 1, 0, D2);
      Dense<DT> G = dense_zero<DT>(3, 3); put(G, 0, 0, D1); put(G, 2, 2, D2); check("power-diag<csr,2> 2x2,1x1", M, G); }
    { LAFEM::PowerFullMatrix<CSR, 2, 2> M; Dense<DT> D[4]; Index rs[2] = {2, 1};
      M.template at<0, 0>() = blk<DT>("a", rs[0], rs[0], v, D[0]); M.template at<0, 1>() = blk<DT>("b", rs[0], rs[1], 0, D[1]); M.template at<1, 0>() = blk<DT>("c", rs[1], rs[0], 0, D[2]); M.template at<1, 1>() = blk<DT>("d", rs[1], rs[1], 0, D[3]);
      Dense<DT> G = dense_zero<DT>(3, 3); put(G, 0, 0, D[0]); put(G, 0, 2, D[1]); put(G, 2, 0, D[2]); put(G, 2, 2, D[3]); check("power-full<csr,2,2>", M, G); }
    { LAFEM::TupleDiagMatrix<CSR, CSR> M; Dense<DT> D1, D2; M.template at<0, 0>() = blk<DT>("a", 2, 2, v, D1); M.template at<1, 1>() = blk<DT>("b", 1, 1, 0, D2);
      Dense<DT> G = dense_zero<DT>(3, 3); put(G, 0, 0, D1); put(G, 2, 2, D2); check("tuple-diag<csr,csr>", M, G); }
  }
}

template<typename DT> void run_all() { run_meta<DT>(); diag_cases<DT>(); }

int main(int argc, char** argv)
{
  return vh::main_dispatch(argc, argv, [&] { run_all<vsym::SymReal>(); }, [&] {
#ifdef VH_REPLAY
    run_all<double>();
#endif
  });
}
