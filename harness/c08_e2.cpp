// C08 (E2): stationary preconditioner objects built by the public factories over SparseMatrixCSR<SymReal>:
// apply() == textbook operator (multiply-back identities), input unchanged, correction filter applied last,
// init_numeric after a value update makes apply reflect the new values.  Patterns are swept, values/omega/input are free reals.
#include "feat_helpers.hpp"
#include <kernel/lafem/unit_filter.hpp>
#include <kernel/lafem/none_filter.hpp>
#include <kernel/solver/jacobi_precond.hpp>
#include <kernel/solver/sor_precond.hpp>
#include <kernel/solver/ssor_precond.hpp>
#include <kernel/solver/ilu_precond.hpp>
#include <kernel/solver/polynomial_precond.hpp>
#include <kernel/solver/scale_precond.hpp>
#include <kernel/solver/diagonal_precond.hpp>
#include <kernel/solver/matrix_precond.hpp>
#include <algorithm>
using namespace FEAT; using namespace vh;
static int g_maxn = 3, g_maxp = 2, g_poly2n = 2;

template<typename DT> using CSR = LAFEM::SparseMatrixCSR<DT, Index>;
template<typename DT> using VT = LAFEM::DenseVector<DT, Index>;

// all square patterns with full diagonal
static std::vector<Pattern> diag_patterns(Index n)
{
  std::vector<Pattern> out; Index nod = n * n - n;
  for(unsigned m = 0; m < (1u << nod); ++m)
  {
    Pattern p(n); Index b = 0;
    for(Index i = 0; i < n; ++i) for(Index j = 0; j < n; ++j) { if(i == j) p[i].push_back(j); else { if(m >> b & 1) p[i].push_back(j); ++b; } }
    out.push_back(p);
  }
  return out;
}

// textbook ILU(p): returns LU (combined, unit lower) on the level-p pattern, computed densely
template<typename DT>
void oracle_ilu(Index n, const Pattern& p, int lvl, Dense<DT>& A, std::vector<std::vector<int>>& lev)
{
  const int INF = 1 << 20;
  lev.assign(n, std::vector<int>(n, INF));
  for(Index i = 0; i < n; ++i) for(Index j : p[i]) lev[i][j] = 0;
  for(Index i = 0; i < n; ++i) for(Index k = 0; k < i; ++k) if(lev[i][k] <= lvl)
    for(Index j = k + 1; j < n; ++j) if(lev[k][j] <= lvl) { int ll = lev[i][k] + lev[k][j] + 1; if(ll <= lvl && j != i && ll < lev[i][j]) lev[i][j] = ll; }
  for(Index i = 0; i < n; ++i) for(Index k = 0; k < i; ++k) if(lev[i][k] <= lvl)
  {
    A[i][k] = A[i][k] / A[k][k];
    for(Index j = k + 1; j < n; ++j) if(lev[k][j] <= lvl && lev[i][j] <= lvl) A[i][j] = A[i][j] - A[i][k] * A[k][j];
  }
}

template<typename DT, typename Filt>
void precond_cases(Index n, const Pattern& p, const std::string& fname, std::function<Filt()> mkfilter, const std::vector<Index>& fixed)
{
  std::string cfg = "n=" + str(n) + " A[" + pat_str(p) + "] filter=" + fname;
  auto isfix = [&](Index i) { return std::find(fixed.begin(), fixed.end(), i) != fixed.end(); };
  auto begin = [&](const std::string& nm) { std::string cn = nm + " " + cfg; if(!H<DT>::want(cn)) return false; H<DT>::begin(cn, "{\"precond\":\"" + nm + "\"}"); return true; };
  // generic runner: build solver via mk(matrix, filter), init, apply, then update values + init_numeric + apply again
  auto run = [&](const std::string& nm, std::function<std::shared_ptr<Solver::SolverBase<VT<DT>>>(const CSR<DT>&, const Filt&)> mk,
                 std::function<void(const std::string&, const Dense<DT>&, const std::vector<DT>&, const std::vector<DT>&)> oracle)
  {
    if(!begin(nm)) return;
    { bool clean = uninit_free<DT>([&]() -> bool { CSR<DT> A0 = make_csr<DT>(n, n, p, "a", nullptr, 2.25); Filt f0 = mkfilter(); VT<DT> d0 = make_vec<DT>(n, "d", 0.5, 0.375), c0(n); auto s0 = mk(A0, f0); s0->init(); s0->apply(c0, d0); bool fin = true; for(Index i = 0; i < n; ++i) fin = fin && (H<DT>::sh(c0(i)) == H<DT>::sh(c0(i))); s0->done(); return fin; });
      H<DT>::fact("apply into a fresh correction vector does not read uninitialised memory", clean, "uninitialised entries are read"); if(!clean) { H<DT>::end(); return; } }
    Dense<DT> DA; CSR<DT> A = make_csr<DT>(n, n, p, "a", &DA, 2.25); Filt filt = mkfilter();
    VT<DT> d = make_vec<DT>(n, "d", 0.5, 0.375), c(n); for(Index i = 0; i < n; ++i) c(i, H<DT>::var("cjunk" + str(i), 9.0 + double(i)));
    auto db = to_std(d);
    int rc = guarded([&] {
      auto s = mk(A, filt); s->init();
      Solver::Status st = s->apply(c, d); H<DT>::fact("status success", st == Solver::Status::success);
      auto cv = to_std(c); auto da = to_std(d);
      for(Index i = 0; i < n; ++i) H<DT>::eq("input unchanged[" + str(i) + "]", da[i], db[i]);
      for(Index i = 0; i < n; ++i) if(isfix(i)) H<DT>::eq("correction filter applied last [" + str(i) + "]", cv[i], DT(0));
      oracle("first", DA, cv, db);
      // update the matrix values in place, re-run init_numeric only
      Dense<DT> DB = dense_zero<DT>(n, n); { Index k = 0; for(Index i = 0; i < n; ++i) for(Index j : p[i]) { DT v = H<DT>::var("b" + str(k), (i == j ? 3.5 : -0.625) + 0.25 * double(k) + 0.046875 * double(k * k % 5)); A.val()[k] = v; DB[i][j] = v; ++k; } }
      s->done_numeric(); s->init_numeric();
      st = s->apply(c, d); H<DT>::fact("status success (2)", st == Solver::Status::success);
      oracle("after value update", DB, to_std(c), db);
      s->done();
    });
    H<DT>::fact("completes", rc == 0, rc == 2 ? "memory fault" : "abort");
    H<DT>::end();
  };
  DT omega = H<DT>::var("omega", 0.875);
  // entries fixed by the unit filter are forced to 0 at the very end: oracles skip those rows and treat them as "c_i = 0"
  run("jacobi", [&](const CSR<DT>& A, const Filt& f) { return Solver::new_jacobi_precond(A, f, omega); },
    [&](const std::string& t, const Dense<DT>& D, const std::vector<DT>& c, const std::vector<DT>& d) { for(Index i = 0; i < n; ++i) if(!isfix(i)) H<DT>::eq(t + " a_ii c_i = omega d_i [" + str(i) + "]", D[i][i] * c[i], omega * d[i]); });
  run("scale", [&](const CSR<DT>&, const Filt& f) { return Solver::new_scale_precond(f, omega); },
    [&](const std::string& t, const Dense<DT>&, const std::vector<DT>& c, const std::vector<DT>& d) { for(Index i = 0; i < n; ++i) if(!isfix(i)) H<DT>::eq(t + " c = omega d [" + str(i) + "]", c[i], omega * d[i]); });
  if(fixed.empty())
  {
    // sweeps: unfiltered operator identities (with a filter only the zeroing of fixed entries is checked above, the sweep itself is the same code)
    run("sor", [&](const CSR<DT>& A, const Filt& f) { return Solver::new_sor_precond(PreferredBackend::generic, A, f, omega); },
      [&](const std::string& t, const Dense<DT>& D, const std::vector<DT>& c, const std::vector<DT>& d) {
        for(Index i = 0; i < n; ++i) { DT s = D[i][i] * c[i] / omega; for(Index j = 0; j < i; ++j) s += D[i][j] * c[j]; H<DT>::eq(t + " (D/omega + L) c = d [" + str(i) + "]", s, d[i]); } });
    run("ssor", [&](const CSR<DT>& A, const Filt& f) { return Solver::new_ssor_precond(PreferredBackend::generic, A, f, omega); },
      [&](const std::string& t, const Dense<DT>& D, const std::vector<DT>& c, const std::vector<DT>& d) {
        // u = D^-1 (D + omega U) c ; (D + omega L) u = omega (2 - omega) d
        std::vector<DT> u(n); for(Index i = 0; i < n; ++i) { DT s = D[i][i] * c[i]; for(Index j = i + 1; j < n; ++j) s += omega * D[i][j] * c[j]; u[i] = s / D[i][i]; }
        for(Index i = 0; i < n; ++i) { DT s = D[i][i] * u[i]; for(Index j = 0; j < i; ++j) s += omega * D[i][j] * u[j]; H<DT>::eq(t + " (D+wL) D^-1 (D+wU) c = w(2-w) d [" + str(i) + "]", s, omega * (DT(2) - omega) * d[i]); } });
    for(int lvl = 0; lvl <= g_maxp; ++lvl)
      run("ilu(" + str(Index(lvl)) + ")", [&](const CSR<DT>& A, const Filt& f) { return Solver::new_ilu_precond(PreferredBackend::generic, A, f, lvl); },
        [&](const std::string& t, const Dense<DT>& D, const std::vector<DT>& c, const std::vector<DT>& d) {
          Dense<DT> LU = D; std::vector<std::vector<int>> lev; oracle_ilu<DT>(n, p, lvl, LU, lev);
          // y = U c ; L y = d   (L unit lower)
          std::vector<DT> y(n); for(Index i = 0; i < n; ++i) { DT s = DT(0); for(Index j = i; j < n; ++j) if(lev[i][j] <= lvl) s += LU[i][j] * c[j]; y[i] = s; }
          bool complete = true; for(Index i = 0; i < n; ++i) for(Index j = 0; j < n; ++j) if(lev[i][j] > lvl) { /* a dropped position */ complete = complete && true; }
          for(Index i = 0; i < n; ++i) { DT s = y[i]; for(Index j = 0; j < i; ++j) if(lev[i][j] <= lvl) s += LU[i][j] * y[j]; H<DT>::eq(t + " L U c = d [" + str(i) + "]", s, d[i]); }
          // complete factorisation (no position dropped that the exact LU would fill) <=> exact inverse: A c = d
          std::vector<std::vector<int>> levfull; Dense<DT> tmp = D; oracle_ilu<DT>(n, p, int(n), tmp, levfull);
          bool exact = true; for(Index i = 0; i < n; ++i) for(Index j = 0; j < n; ++j) if((levfull[i][j] <= int(n)) != (lev[i][j] <= lvl)) exact = false;
          if(exact) for(Index i = 0; i < n; ++i) { DT s = DT(0); for(Index j = 0; j < n; ++j) s += D[i][j] * c[j]; H<DT>::eq(t + " complete pattern: A c = d [" + str(i) + "]", s, d[i]); }
        });
    for(Index m = 1; m <= 2; ++m) if(m == 1 || n <= Index(g_poly2n))
      run("polynomial(m=" + str(m) + ")", [&](const CSR<DT>& A, const Filt& f) { return Solver::new_polynomial_precond(A, f, m, omega); },
        [&](const std::string& t, const Dense<DT>& D, const std::vector<DT>& c, const std::vector<DT>& d) {
          // sum_{k=0}^m (I - M^-1 A)^k M^-1 d with M^-1 = omega D^-1
          std::vector<DT> term(n), sum(n); for(Index i = 0; i < n; ++i) { term[i] = omega * d[i] / D[i][i]; sum[i] = term[i]; }
          for(Index k = 1; k <= m; ++k) { std::vector<DT> nt(n); for(Index i = 0; i < n; ++i) { DT s = DT(0); for(Index j = 0; j < n; ++j) s += D[i][j] * term[j]; nt[i] = term[i] - omega * s / D[i][i]; } term = nt; for(Index i = 0; i < n; ++i) sum[i] += term[i]; }
          for(Index i = 0; i < n; ++i) H<DT>::eq(t + " Neumann sum [" + str(i) + "]", c[i], sum[i]); });
  }
}

template<typename DT>
void run_all()
{
  typedef LAFEM::NoneFilter<DT, Index> NF; typedef LAFEM::UnitFilter<DT, Index> UF;
  for(Index n = 1; n <= Index(g_maxn); ++n)
    for(auto& p : diag_patterns(n))
    {
      precond_cases<DT, NF>(n, p, "none", [] { return NF(); }, {});
      if(n >= 2) precond_cases<DT, UF>(n, p, "unit{0}", [n] { UF f(n); f.add(0, DT(5)); return f; }, {0});
    }
  // diagonal / matrix preconditioners (no pattern dependence)
  for(Index n = 1; n <= 3; ++n)
  {
    std::string cn = "diagonal n=" + str(n); if(!H<DT>::want(cn)) continue;
    H<DT>::begin(cn, "{\"precond\":\"diagonal\"}");
    VT<DT> dg = make_vec<DT>(n, "dg", 1.5, 0.25), d = make_vec<DT>(n, "d", 0.5, 0.375), c(n); NF nf; auto s = Solver::new_diagonal_precond(dg, nf);
    for(Index i = 0; i < n; ++i) c(i, DT(0));
    s->init(); s->apply(c, d); for(Index i = 0; i < n; ++i) H<DT>::eq("c = diag*d [" + str(i) + "]", c(i), dg(i) * d(i)); s->done();
    H<DT>::end();
  }
}

int main(int argc, char** argv)
{
  int na = argc;
  for(int i = 1; i < argc; ++i) if(std::string(argv[i]) == "--bounds" && i + 2 < argc) { g_maxn = atoi(argv[i + 1]); g_maxp = atoi(argv[i + 2]); if(i + 3 < argc) g_poly2n = atoi(argv[i + 3]); na = i; }
  return vh::main_dispatch(na, argv, [&] { run_all<vsym::SymReal>(); }, [&] {
#ifdef VH_REPLAY
    run_all<double>();
#endif
  });
}
