// C08 (E2, blocked slice): SOR / SSOR / ILU(0) preconditioners built by the public factories over SparseMatrixBCSR<SymReal,Index,2,2>:
// apply() == block textbook operator (multiply-back identities on the dense expansion), input unchanged.
#include "feat_helpers.hpp"
#include <kernel/lafem/none_filter.hpp>
#include <kernel/lafem/sparse_matrix_bcsr.hpp>
#include <kernel/lafem/dense_vector_blocked.hpp>
#include <kernel/solver/jacobi_precond.hpp>
#include <kernel/solver/sor_precond.hpp>
#include <kernel/solver/ssor_precond.hpp>
#include <kernel/solver/ilu_precond.hpp>
#include <algorithm>
using namespace FEAT; using namespace vh;
static int g_maxn = 2;
constexpr int B = 2;
template<typename DT> using BM = LAFEM::SparseMatrixBCSR<DT, Index, B, B>;
template<typename DT> using BV = LAFEM::DenseVectorBlocked<DT, Index, B>;

static std::vector<Pattern> diag_patterns(Index n)
{
  std::vector<Pattern> out; Index nod = n * n - n;
  for(unsigned m = 0; m < (1u << nod); ++m)
  {
    Pattern p(n); Index b = 0;
    for(Index i = 0; i < n; ++i) for(Index j = 0; j < n; ++j) { if(i == j) p[i].push_back(j); else { if(m >> b & 1) p[i].push_back(j); ++b; } }
    out.push_back(p);
  }
  return out;
}

// dense helpers on the expanded (n*B) x (n*B) matrix; blk(i,j) is the B x B block
template<typename DT> struct Blk
{
  const Dense<DT>& D; explicit Blk(const Dense<DT>& d) : D(d) {}
  // r += A_ij * x_j  (block row i, block col j)
  void madd(std::vector<DT>& r, Index i, Index j, const std::vector<DT>& x, DT scale) const { for(int a = 0; a < B; ++a) { DT s = DT(0); for(int b = 0; b < B; ++b) s += D[i * B + Index(a)][j * B + Index(b)] * x[j * B + Index(b)]; r[i * B + Index(a)] += scale * s; } }
};

template<typename DT>
void blocked_cases(Index n, const Pattern& p)
{
  typedef LAFEM::NoneFilterBlocked<DT, Index, B> NF;
  std::string cfg = "blocked n=" + str(n) + " A[" + pat_str(p) + "]";
  DT omega = H<DT>::var("omega", 0.875);
  auto run = [&](const std::string& nm, std::function<std::shared_ptr<Solver::SolverBase<BV<DT>>>(const BM<DT>&, const NF&)> mk,
                 std::function<void(const Dense<DT>&, const std::vector<DT>&, const std::vector<DT>&)> oracle)
  {
    std::string cn = nm + " " + cfg; if(!H<DT>::want(cn)) return;
    H<DT>::begin(cn, "{\"precond\":\"" + nm + "\"}");
    { bool clean = uninit_free<DT>([&]() -> bool { BM<DT> A0 = make_bcsr<DT, Index, B, B, BM<DT>>(n, n, p, "a", nullptr); NF f0; BV<DT> d0(n), c0(n); for(Index i = 0; i < n * B; ++i) d0.template elements<LAFEM::Perspective::pod>()[i] = H<DT>::var("d" + str(i), 0.5 + 0.375 * double(i));
        for(Index i = 0; i < n; ++i) for(Index k = A0.row_ptr()[i]; k < A0.row_ptr()[i + 1]; ++k) if(A0.col_ind()[k] == i) for(int a = 0; a < B; ++a) A0.val()[k](a, a) = H<DT>::var("ad" + str(i) + "_" + str(Index(a)), 3.25 + 0.4375 * double(i * B + Index(a)));
        auto s0 = mk(A0, f0); s0->init(); s0->apply(c0, d0); bool fin = true; for(Index i = 0; i < n * B; ++i) { double x = H<DT>::sh(c0.template elements<LAFEM::Perspective::pod>()[i]); fin = fin && (x == x); } s0->done(); return fin; });
      H<DT>::fact("apply into a fresh correction vector does not read uninitialised memory", clean, "uninitialised entries are read"); if(!clean) { H<DT>::end(); return; } }
    Dense<DT> DA; BM<DT> A = make_bcsr<DT, Index, B, B, BM<DT>>(n, n, p, "a", &DA); NF filt;
    // make the diagonal blocks dominant at the shadow point (values stay free symbols)
    for(Index i = 0; i < n; ++i) for(Index k = A.row_ptr()[i]; k < A.row_ptr()[i + 1]; ++k) if(A.col_ind()[k] == i)
      for(int a = 0; a < B; ++a) { DT v = H<DT>::var("ad" + str(i) + "_" + str(Index(a)), 3.25 + 0.4375 * double(i * B + Index(a))); A.val()[k](a, a) = v; DA[i * B + Index(a)][i * B + Index(a)] = v; }
    BV<DT> d(n), c(n); std::vector<DT> db;
    for(Index i = 0; i < n * B; ++i) { DT x = H<DT>::var("d" + str(i), 0.5 + 0.375 * double(i)); d.template elements<LAFEM::Perspective::pod>()[i] = x; db.push_back(x); c.template elements<LAFEM::Perspective::pod>()[i] = H<DT>::var("cjunk" + str(i), 9.0 + double(i)); }
    int rc = guarded([&] {
      auto s = mk(A, filt); s->init();
      Solver::Status st = s->apply(c, d); H<DT>::fact("status success", st == Solver::Status::success);
      std::vector<DT> cv, da; for(Index i = 0; i < n * B; ++i) { cv.push_back(c.template elements<LAFEM::Perspective::pod>()[i]); da.push_back(d.template elements<LAFEM::Perspective::pod>()[i]); }
      for(Index i = 0; i < n * B; ++i) H<DT>::eq("input unchanged[" + str(i) + "]", da[i], db[i]);
      oracle(DA, cv, db);
      s->done();
    });
    H<DT>::fact("completes", rc == 0, rc == 2 ? "memory fault" : "abort");
    H<DT>::end();
  };
  // (pointwise) Jacobi on the blocked matrix: a_ii c_i = omega d_i for every scalar row i
  run("jacobi", [&](const BM<DT>& A, const NF& f) { return Solver::new_jacobi_precond(A, f, omega); },
    [&](const Dense<DT>& D, const std::vector<DT>& c, const std::vector<DT>& d) { for(Index i = 0; i < n * B; ++i) H<DT>::eq("a_ii c_i = omega d_i [" + str(i) + "]", D[i][i] * c[i], omega * d[i]); });
  // block SOR: (D/omega + L) c = d
  run("sor", [&](const BM<DT>& A, const NF& f) { return Solver::new_sor_precond(PreferredBackend::generic, A, f, omega); },
    [&](const Dense<DT>& D, const std::vector<DT>& c, const std::vector<DT>& d) {
      Blk<DT> K(D); std::vector<DT> r(n * B, DT(0));
      for(Index i = 0; i < n; ++i) { K.madd(r, i, i, c, DT(1) / omega); for(Index j = 0; j < i; ++j) K.madd(r, i, j, c, DT(1)); }
      for(Index i = 0; i < n * B; ++i) H<DT>::eq("(D/omega + L) c = d [" + str(i) + "]", r[i], d[i]); });
  // block SSOR: (D + wL) D^-1 (D + wU) c = w (2 - w) d ; with u := D^-1 (D + wU) c  <=>  D u = (D + wU) c
  run("ssor", [&](const BM<DT>& A, const NF& f) { return Solver::new_ssor_precond(PreferredBackend::generic, A, f, omega); },
    [&](const Dense<DT>& D, const std::vector<DT>& c, const std::vector<DT>& d) {
      Blk<DT> K(D); std::vector<DT> t(n * B, DT(0));   // t = (D + wU) c
      for(Index i = 0; i < n; ++i) { K.madd(t, i, i, c, DT(1)); for(Index j = i + 1; j < n; ++j) K.madd(t, i, j, c, omega); }
      // u = D^-1 t, block-wise by Cramer (2x2)
      std::vector<DT> u(n * B);
      for(Index i = 0; i < n; ++i) { DT a = D[2 * i][2 * i], b = D[2 * i][2 * i + 1], cc = D[2 * i + 1][2 * i], dd = D[2 * i + 1][2 * i + 1]; DT det = a * dd - b * cc; u[2 * i] = (dd * t[2 * i] - b * t[2 * i + 1]) / det; u[2 * i + 1] = (a * t[2 * i + 1] - cc * t[2 * i]) / det; }
      std::vector<DT> r(n * B, DT(0));
      for(Index i = 0; i < n; ++i) { K.madd(r, i, i, u, DT(1)); for(Index j = 0; j < i; ++j) K.madd(r, i, j, u, omega); }
      for(Index i = 0; i < n * B; ++i) H<DT>::eq("(D+wL) D^-1 (D+wU) c = w(2-w) d [" + str(i) + "]", r[i], omega * (DT(2) - omega) * d[i]); });
  // block ILU(0) on a pattern for which ILU(0) is the exact block LU (no fill dropped): A c = d
  bool exact = true; { std::vector<std::vector<int>> has(n, std::vector<int>(n, 0)); for(Index i = 0; i < n; ++i) for(Index j : p[i]) has[i][j] = 1; for(Index k = 0; k < n; ++k) for(Index i = k + 1; i < n; ++i) if(has[i][k]) for(Index j = k + 1; j < n; ++j) if(has[k][j] && !has[i][j]) exact = false; }
  if(exact)
    run("ilu(0)", [&](const BM<DT>& A, const NF& f) { return Solver::new_ilu_precond(PreferredBackend::generic, A, f, 0); },
      [&](const Dense<DT>& D, const std::vector<DT>& c, const std::vector<DT>& d) {
        for(Index i = 0; i < n * B; ++i) { DT s = DT(0); for(Index j = 0; j < n * B; ++j) s += D[i][j] * c[j]; H<DT>::eq("complete pattern: A c = d [" + str(i) + "]", s, d[i]); } });
}

template<typename DT>
void run_all()
{
  for(Index n = 1; n <= Index(g_maxn); ++n) for(auto& p : diag_patterns(n)) blocked_cases<DT>(n, p);
}

int main(int argc, char** argv)
{
  int na = argc;
  for(int i = 1; i < argc; ++i) if(std::string(argv[i]) == "--bounds" && i + 1 < argc) { g_maxn = atoi(argv[i + 1]); na = i; }
  return vh::main_dispatch(na, argv, [&] { run_all<vsym::SymReal>(); }, [&] {
#ifdef VH_REPLAY
    run_all<double>();
#endif
  });
}
