// C16 (E2, Burgers slice): the real BurgersAssembler on a once-refined reference cell (4 cells, concrete rational geometry) with symbolic
// convection field, primal vector and operator parameters.  No closed form is used; the oracles are route identities:
//  (I1) assemble_matrix(convect) * primal == assemble_vector(convect, primal)      (gradient and deformation tensor, reaction, convection)
//  (I2) blocked matrix without deformation tensor == scalar matrix on the block diagonal, off-diagonal blocks zero, WITH streamline diffusion,
//       for a convection field that vanishes at the barycentre of one of the later cells (local delta must not leak between cells)
//  (I3) matrix depends linearly on `scale`, second assembly adds onto the first
#include "feat_helpers.hpp"
#include <kernel/geometry/conformal_mesh.hpp>
#include <kernel/geometry/reference_cell_factory.hpp>
#include <kernel/trafo/standard/mapping.hpp>
#include <kernel/space/lagrange1/element.hpp>
#include <kernel/space/lagrange2/element.hpp>
#include <kernel/cubature/dynamic_factory.hpp>
#include <kernel/assembly/symbolic_assembler.hpp>
#include <kernel/assembly/burgers_assembler.hpp>
#include <kernel/lafem/sparse_matrix_bcsr.hpp>
#include <kernel/lafem/dense_vector_blocked.hpp>
using namespace FEAT; using namespace vh;
static int g_level = 1;

template<typename DT, typename Shape_>
void burgers_cases(const std::string& sname, const char* cub, bool route_identity, bool sd_identity)
{
  constexpr int dim = 2;
  typedef Geometry::ConformalMesh<Shape_, dim, DT> Mesh; typedef Trafo::Standard::Mapping<Mesh> TrafoT; typedef Space::Lagrange1::Element<TrafoT> SpaceT;
  typedef LAFEM::SparseMatrixBCSR<DT, Index, dim, dim> BM; typedef LAFEM::SparseMatrixCSR<DT, Index> SM; typedef LAFEM::DenseVectorBlocked<DT, Index, dim> BV;
  auto setup = [&](Mesh*& fine_out, std::unique_ptr<Mesh>& coarse, std::unique_ptr<Mesh>& fine) {
    Geometry::ReferenceCellFactory<Shape_, DT> fac; coarse.reset(new Mesh(fac)); Geometry::StandardRefinery<Mesh> ref(*coarse); fine.reset(new Mesh(ref)); fine_out = fine.get(); };
  auto bvec = [&](Index n, const std::string& nm, double base, double step, std::vector<DT>& flat) { BV v(n); for(Index i = 0; i < n * dim; ++i) { DT x = H<DT>::var(nm + str(i), base + step * double(i) * ((i % 3 == 2) ? -1.0 : 1.0)); v.template elements<LAFEM::Perspective::pod>()[i] = x; flat.push_back(x); } return v; };
  auto bdense = [&](const BM& A) { Dense<DT> D = dense_zero<DT>(A.rows() * dim, A.columns() * dim); for(Index i = 0; i < A.rows(); ++i) for(Index k = A.row_ptr()[i]; k < A.row_ptr()[i + 1]; ++k) for(int a = 0; a < dim; ++a) for(int b = 0; b < dim; ++b) D[i * dim + Index(a)][A.col_ind()[k] * dim + Index(b)] += A.val()[k](a, b); return D; };
  for(int defo = 0; defo < 2 && route_identity; ++defo)
  {
    std::string cn = "burgers matrix*primal == vector, " + sname + (defo ? " deformation tensor" : " gradient tensor"); if(!H<DT>::want(cn)) continue;
    H<DT>::begin(cn, "{\"part\":\"burgers\"}");
    int rc = guarded([&] {
      Mesh* mesh; std::unique_ptr<Mesh> c, f; setup(mesh, c, f); TrafoT trafo(*mesh); SpaceT space(trafo); Cubature::DynamicFactory cf(cub);
      const Index n = space.get_num_dofs();
      BM A; Assembly::SymbolicAssembler::assemble_matrix_std1(A, space); A.format();
      std::vector<DT> cvf, prf; BV conv = bvec(n, "w", 0.375, 0.21875, cvf), prim = bvec(n, "u", -0.5, 0.3125, prf), vec(n);
      for(Index i = 0; i < n * dim; ++i) vec.template elements<LAFEM::Perspective::pod>()[i] = DT(0);
      Assembly::BurgersAssembler<DT, Index, dim> ba; ba.deformation = (defo != 0); ba.nu = H<DT>::var("nu", 0.625); ba.beta = H<DT>::var("beta", 1.25); ba.theta = H<DT>::var("theta", 0.875);
      ba.assemble_matrix(A, conv, space, cf); ba.assemble_vector(vec, conv, prim, space, cf);
      Dense<DT> D = bdense(A);
      for(Index i = 0; i < n * dim; ++i) { DT s = DT(0); for(Index j = 0; j < n * dim; ++j) s += D[i][j] * prf[j]; H<DT>::eq("(A u)[" + str(i) + "] == assembled defect vector", s, vec.template elements<LAFEM::Perspective::pod>()[i]); }
      // scale / accumulation
      DT sc = H<DT>::var("scale", -0.75); BM A2; Assembly::SymbolicAssembler::assemble_matrix_std1(A2, space); A2.format();
      ba.assemble_matrix(A2, conv, space, cf, sc); ba.assemble_matrix(A2, conv, space, cf); Dense<DT> D2 = bdense(A2);
      for(Index i = 0; i < 2 * dim; ++i) for(Index j = 0; j < n * dim; ++j) H<DT>::eq("scaled + unscaled assembly accumulate (" + str(i) + "," + str(j) + ")", D2[i][j], (sc + DT(1)) * D[i][j]);
    });
    H<DT>::fact("completes", rc == 0, rc == 2 ? "memory fault" : "abort");
    H<DT>::end();
  }
  {
    std::string cn = "burgers blocked == scalar with streamline diffusion, " + sname; if(sd_identity && H<DT>::want(cn)) {
    H<DT>::begin(cn, "{\"part\":\"burgers\"}");
    int rc = guarded([&] {
      Mesh* mesh; std::unique_ptr<Mesh> c, f; setup(mesh, c, f); TrafoT trafo(*mesh); SpaceT space(trafo); Cubature::DynamicFactory cf(cub);
      const Index n = space.get_num_dofs(); const Index nc = mesh->get_num_entities(dim);
      BM A; Assembly::SymbolicAssembler::assemble_matrix_std1(A, space); A.format();
      SM S; Assembly::SymbolicAssembler::assemble_matrix_std1(S, space); S.format();
      std::vector<DT> cvf; BV conv = bvec(n, "w", 0.375, 0.21875, cvf);
      // make the convection field vanish at the barycentre of the LAST cell: the value at its last vertex is minus the sum of the others (P1/Q1: barycentre value = mean of the vertex values)
      {
        auto& vc = mesh->template get_index_set<dim, 0>(); const int nvc = vc.get_num_indices(); const Index cell = nc - 1;
        for(int d = 0; d < dim; ++d) { DT s = DT(0); for(int k = 0; k + 1 < nvc; ++k) s += conv.template elements<LAFEM::Perspective::pod>()[vc(cell, k) * dim + Index(d)]; conv.template elements<LAFEM::Perspective::pod>()[vc(cell, nvc - 1) * dim + Index(d)] = DT(0) - s; }
      }
      Assembly::BurgersAssembler<DT, Index, dim> ba; ba.nu = H<DT>::var("nu", 0.625); ba.beta = H<DT>::var("beta", 1.25); ba.theta = H<DT>::var("theta", 0.875);
      ba.sd_delta = H<DT>::var("sd_delta", 0.5); ba.sd_nu = H<DT>::var("sd_nu", 0.75); ba.sd_v_norm = H<DT>::var("sd_v_norm", 1.5);
      H<DT>::assume_lt(DT(0), ba.sd_nu); H<DT>::assume_lt(DT(0), ba.sd_v_norm);
      ba.assemble_matrix(A, conv, space, cf); ba.assemble_scalar_matrix(S, conv, space, cf);
      Dense<DT> D = bdense(A), DS = csr_to_dense<DT>(S);
      for(Index i = 0; i < n; ++i) for(Index j = 0; j < n; ++j) for(int a = 0; a < dim; ++a) for(int b = 0; b < dim; ++b)
        H<DT>::eq("block (" + str(i) + "," + str(j) + ")[" + str(Index(a)) + str(Index(b)) + "] == " + (a == b ? "scalar matrix entry" : "0"), D[i * dim + Index(a)][j * dim + Index(b)], a == b ? DS[i][j] : DT(0));
    });
    H<DT>::fact("completes", rc == 0, rc == 2 ? "memory fault" : "abort");
    H<DT>::end(); }
  }
}

template<typename DT>
void run_all()
{
  // the streamline-diffusion identity needs a convection field that vanishes EXACTLY (also in the double shadow) at a cell barycentre: Q1 (basis values 1/4), not P1 (1/3)
  burgers_cases<DT, Shape::Simplex<2>>("P1 on 4 triangles", "auto-degree:3", true, false);
  burgers_cases<DT, Shape::Hypercube<2>>("Q1 on 4 quadrilaterals", "gauss-legendre:2", g_level > 1, true);
}

int main(int argc, char** argv)
{
  int na = argc;
  for(int i = 1; i < argc; ++i) if(std::string(argv[i]) == "--bounds" && i + 1 < argc) { g_level = atoi(argv[i + 1]); na = i; }
  return vh::main_dispatch(na, argv, [&] { run_all<vsym::SymReal>(); }, [&] {
#ifdef VH_REPLAY
    run_all<double>();
#endif
  });
}
