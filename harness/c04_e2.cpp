// C04 (E2): vector operations of every LAFEM vector kind == element-wise definition on the flattened data,
// for every aliasing pattern the API permits.  Sizes/kinds/aliasings are swept; all values and scalars are free reals.
#include "feat_helpers.hpp"
#include <kernel/lafem/tuple_vector.hpp>
#include <kernel/lafem/power_vector.hpp>
#include <algorithm>
using namespace FEAT; using namespace vh;

static int g_maxn = 3;

template<typename DT, typename VT> std::vector<DT> flat(const VT& v, Index nflat) { std::vector<DT> f(nflat + 1, DT(0)); if(nflat) v.set_vec(f.data()); f.resize(nflat); return f; }
template<typename DT, typename VT> void fill(VT& v, Index nflat, const std::string& name, double base, double step)
{
  std::vector<DT> f; for(Index i = 0; i < nflat; ++i) f.push_back(H<DT>::var(name + str(i), base + step * double(i) * ((i % 2) ? -1.0 : 1.0)));
  f.push_back(DT(0)); if(nflat) v.set_vec_inv(f.data());
}

template<typename DT, typename VT, typename MK>
void ops(const std::string& kind, Index n, Index nf, MK mk)
{
  std::string cfg = kind + " n=" + str(n);
  auto begin = [&](const std::string& op) { std::string cn = cfg + " " + op; if(!H<DT>::want(cn)) return false; H<DT>::begin(cn, "{\"kind\":\"" + kind + "\",\"n\":" + str(n) + "}"); return true; };
  DT alpha = H<DT>::var("alpha", 0.75);
  // ---- axpy: this += alpha x; aliasing this==x
  for(int alias = 0; alias < 2; ++alias) if(begin(std::string("axpy") + (alias ? " this==x" : "")))
  {
    VT r = mk(), x = mk(); fill<DT>(r, nf, "r", 0.5, 0.375); fill<DT>(x, nf, "x", -0.25, 0.625);
    auto rb = flat<DT>(r, nf), xb = flat<DT>(x, nf);
    bool ab = aborted([&] { if(alias) r.axpy(r, alpha); else r.axpy(x, alpha); });
    H<DT>::fact("no abort", !ab);
    if(!ab) { auto g = flat<DT>(r, nf); for(Index i = 0; i < nf; ++i) H<DT>::eq("r[" + str(i) + "]", g[i], rb[i] + alpha * (alias ? rb[i] : xb[i]));
      if(!alias) { auto xa = flat<DT>(x, nf); for(Index i = 0; i < nf; ++i) H<DT>::eq("x unchanged[" + str(i) + "]", xa[i], xb[i]); } }
    H<DT>::end();
  }
  // ---- scale
  for(int alias = 0; alias < 2; ++alias) if(begin(std::string("scale") + (alias ? " this==x" : "")))
  {
    VT r = mk(), x = mk(); fill<DT>(r, nf, "r", 0.5, 0.375); fill<DT>(x, nf, "x", -0.25, 0.625);
    auto rb = flat<DT>(r, nf), xb = flat<DT>(x, nf);
    bool ab = aborted([&] { if(alias) r.scale(r, alpha); else r.scale(x, alpha); });
    H<DT>::fact("no abort", !ab);
    if(!ab) { auto g = flat<DT>(r, nf); for(Index i = 0; i < nf; ++i) H<DT>::eq("r[" + str(i) + "]", g[i], alpha * (alias ? rb[i] : xb[i])); }
    H<DT>::end();
  }
  // ---- component_product r = x*y; aliasings: none, r==x, r==y, x==y, all
  for(int al = 0; al < 5; ++al) if(begin("component_product alias" + str(Index(al))))
  {
    VT r = mk(), x = mk(), y = mk(); fill<DT>(r, nf, "r", 0.5, 0.375); fill<DT>(x, nf, "x", -0.25, 0.625); fill<DT>(y, nf, "y", 1.5, 0.25);
    auto rb = flat<DT>(r, nf), xb = flat<DT>(x, nf), yb = flat<DT>(y, nf);
    const VT& X = (al == 1 || al == 4) ? r : x; const VT& Y = (al == 2 || al == 4) ? r : (al == 3 ? x : y);
    const auto& XB = (al == 1 || al == 4) ? rb : xb; const auto& YB = (al == 2 || al == 4) ? rb : (al == 3 ? xb : yb);
    bool ab = aborted([&] { r.component_product(X, Y); });
    H<DT>::fact("no abort", !ab);
    if(!ab) { auto g = flat<DT>(r, nf); for(Index i = 0; i < nf; ++i) H<DT>::eq("r[" + str(i) + "]", g[i], XB[i] * YB[i]); }
    H<DT>::end();
  }
  // ---- component_invert r = alpha / x
  for(int alias = 0; alias < 2; ++alias) if(begin(std::string("component_invert") + (alias ? " this==x" : "")))
  {
    VT r = mk(), x = mk(); fill<DT>(r, nf, "r", 0.5, 0.375); fill<DT>(x, nf, "x", -0.25, 0.625);
    auto rb = flat<DT>(r, nf), xb = flat<DT>(x, nf);
    bool ab = aborted([&] { if(alias) r.component_invert(r, alpha); else r.component_invert(x, alpha); });
    H<DT>::fact("no abort", !ab);
    if(!ab) { auto g = flat<DT>(r, nf); for(Index i = 0; i < nf; ++i) H<DT>::eq("r[" + str(i) + "]", g[i] * (alias ? rb[i] : xb[i]), alpha); }
    H<DT>::end();
  }
  // ---- dot / triple_dot / norms
  if(begin("dot,triple_dot,norm"))
  {
    VT r = mk(), x = mk(), y = mk(); fill<DT>(r, nf, "r", 0.5, 0.375); fill<DT>(x, nf, "x", -0.25, 0.625); fill<DT>(y, nf, "y", 1.5, 0.25);
    auto rb = flat<DT>(r, nf), xb = flat<DT>(x, nf), yb = flat<DT>(y, nf);
    DT d = DT(0), dd = DT(0), t = DT(0), trr = DT(0), trx = DT(0), txx = DT(0);
    for(Index i = 0; i < nf; ++i) { d += rb[i] * xb[i]; dd += rb[i] * rb[i]; t += rb[i] * xb[i] * yb[i]; trr += rb[i] * rb[i] * rb[i]; trx += rb[i] * rb[i] * xb[i]; txx += rb[i] * xb[i] * xb[i]; }
    H<DT>::eq("dot(x)", r.dot(x), d); H<DT>::eq("dot(this)", r.dot(r), dd);
    H<DT>::eq("triple_dot(x,y)", r.triple_dot(x, y), t); H<DT>::eq("triple_dot(this,this)", r.triple_dot(r, r), trr);
    H<DT>::eq("triple_dot(this,x)", r.triple_dot(r, x), trx); H<DT>::eq("triple_dot(x,this)", r.triple_dot(x, r), trx); H<DT>::eq("triple_dot(x,x)", r.triple_dot(x, x), txx);
    H<DT>::eq("norm2sqr", r.norm2sqr(), dd);
    DT nn = r.norm2(); H<DT>::eq("norm2^2", nn * nn, dd); H<DT>::le("norm2>=0", DT(0), nn);
    auto ra = flat<DT>(r, nf), xa = flat<DT>(x, nf);
    for(Index i = 0; i < nf; ++i) { H<DT>::eq("r unchanged[" + str(i) + "]", ra[i], rb[i]); H<DT>::eq("x unchanged[" + str(i) + "]", xa[i], xb[i]); }
    H<DT>::end();
  }
  // ---- copy / format
  if(begin("copy,format"))
  {
    VT r = mk(), x = mk(); fill<DT>(r, nf, "r", 0.5, 0.375); fill<DT>(x, nf, "x", -0.25, 0.625); auto xb = flat<DT>(x, nf);
    r.copy(x); auto g = flat<DT>(r, nf); for(Index i = 0; i < nf; ++i) H<DT>::eq("copy[" + str(i) + "]", g[i], xb[i]);
    r.format(alpha); g = flat<DT>(r, nf); for(Index i = 0; i < nf; ++i) H<DT>::eq("format[" + str(i) + "]", g[i], alpha);
    auto xa = flat<DT>(x, nf); for(Index i = 0; i < nf; ++i) H<DT>::eq("x unchanged[" + str(i) + "]", xa[i], xb[i]);
    H<DT>::end();
  }
  // ---- min/max (abs) element: every ordering of the values is a separate concolic path (defined for non-empty vectors only)
  if(nf >= 1 && nf <= 4)
  {
    std::vector<int> perm; for(Index i = 0; i < nf; ++i) perm.push_back(int(i));
    int pid = 0;
    do
    {
      for(int sgn = 0; sgn < 2; ++sgn)
      {
        std::string pn = "p" + str(Index(pid)) + (sgn ? "m" : "p");
        if(begin("minmax " + pn))
        {
          VT r = mk(); std::vector<DT> f;
          for(Index i = 0; i < nf; ++i) { double shv = (1.0 + double(perm[i]) * 0.75) * ((sgn && (perm[i] % 2 == 0)) ? -1.0 : 1.0); f.push_back(H<DT>::var(pn + "_v" + str(i), shv)); }
          f.push_back(DT(0)); r.set_vec_inv(f.data());
          DT mx = r.max_element(), mn = r.min_element(), mxa = r.max_abs_element(), mna = r.min_abs_element();
          // results are bounds ...
          for(Index i = 0; i < nf; ++i)
          {
            H<DT>::le("max>=v" + str(i), f[i], mx); H<DT>::le("min<=v" + str(i), mn, f[i]);
            H<DT>::le("maxabs>=v" + str(i), f[i], mxa); H<DT>::le("maxabs>=-v" + str(i), -f[i], mxa);
          }
          // ... and attained: product over (result - candidate) vanishes
          DT pmx = DT(1), pmn = DT(1), pmxa = DT(1), pmna = DT(1);
          for(Index i = 0; i < nf; ++i) { pmx = pmx * (mx - f[i]); pmn = pmn * (mn - f[i]); pmxa = pmxa * (mxa - f[i]) * (mxa + f[i]); pmna = pmna * (mna - f[i]) * (mna + f[i]); }
          H<DT>::eq("max attained", pmx, DT(0)); H<DT>::eq("min attained", pmn, DT(0)); H<DT>::eq("maxabs attained", pmxa, DT(0)); H<DT>::eq("minabs attained", pmna, DT(0));
          H<DT>::le("minabs>=0", DT(0), mna);
          for(Index i = 0; i < nf; ++i) H<DT>::le("minabs^2<=v^2 " + str(i), mna * mna, f[i] * f[i]);
          H<DT>::end();
        }
      }
      ++pid;
    } while(std::next_permutation(perm.begin(), perm.end()) && pid < 24);
  }
}

template<typename DT>
void run_all()
{
  typedef LAFEM::DenseVector<DT, Index> DV; typedef LAFEM::DenseVectorBlocked<DT, Index, 2> DVB2; typedef LAFEM::DenseVectorBlocked<DT, Index, 3> DVB3;
  typedef LAFEM::TupleVector<DV, DVB2> TV; typedef LAFEM::PowerVector<DV, 2> PV; typedef LAFEM::PowerVector<DVB2, 2> PVB;
  for(Index n = 0; n <= Index(g_maxn); ++n)
  {
    ops<DT, DV>("dense", n, n, [&] { return DV(n); });
    if(n <= 2) ops<DT, DVB2>("blocked2", n, 2 * n, [&] { return DVB2(n); });
    if(n <= 1 || g_maxn > 3) ops<DT, DVB3>("blocked3", n, 3 * n, [&] { return DVB3(n); });
    if(n <= 1 || g_maxn > 3) ops<DT, TV>("tuple<dense,blocked2>", n, 3 * n, [&] { return TV(DV(n), DVB2(n)); });
    if(n <= 2) ops<DT, PV>("power<dense,2>", n, 2 * n, [&] { return PV(n); });
    if(n <= 1) ops<DT, PVB>("power<blocked2,2>", n, 4 * n, [&] { return PVB(n); });
  }
  // tuple with different sub-sizes (non-multiples of any internal stride)
  ops<DT, TV>("tuple<dense3,blocked2x1>", 99, 5, [&] { return TV(DV(3), DVB2(1)); });
}

int main(int argc, char** argv)
{
  int na = argc;
  for(int i = 1; i < argc; ++i) if(std::string(argv[i]) == "--bounds" && i + 1 < argc) { g_maxn = atoi(argv[i + 1]); na = i; }
  return vh::main_dispatch(na, argv, [&] { run_all<vsym::SymReal>(); }, [&] {
#ifdef VH_REPLAY
    run_all<double>();
#endif
  });
}
