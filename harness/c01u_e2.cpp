// C01/C03/C04 (E2, result-independence slice): operations that OVERWRITE their result object must not read its previous content.
// The result object is freshly constructed (uninitialised memory); symbolic build: a read of an uninitialised SymReal is fatal (probed in a
// forked child); double build (replay): malloc fills blocks with NaN bytes, the results must be finite.
#include "feat_helpers.hpp"
#include <kernel/lafem/sparse_matrix_csr.hpp>
#include <kernel/lafem/sparse_matrix_bcsr.hpp>
#include <kernel/lafem/sparse_matrix_cscr.hpp>
#include <kernel/lafem/sparse_matrix_banded.hpp>
#include <kernel/lafem/dense_matrix.hpp>
#include <kernel/lafem/dense_vector_blocked.hpp>
using namespace FEAT; using namespace vh;
static int g_level = 1;
template<typename DT> using VT = LAFEM::DenseVector<DT, Index>;

template<typename DT> bool finite_vec(const VT<DT>& v) { bool ok = true; for(Index i = 0; i < v.size(); ++i) ok = ok && (H<DT>::sh(v(i)) == H<DT>::sh(v(i))); return ok; }
template<typename DT, int BS> bool finite_bvec(const LAFEM::DenseVectorBlocked<DT, Index, BS>& v) { bool ok = true; for(Index i = 0; i < v.size() * BS; ++i) { double s = H<DT>::sh(v.template elements<LAFEM::Perspective::pod>()[i]); ok = ok && (s == s); } return ok; }

template<typename DT, typename F> void probe(const std::string& cn, F f)
{
  if(!H<DT>::want(cn)) return;
  H<DT>::begin(cn, "{\"part\":\"fresh result\"}");
  bool clean = uninit_free<DT>(f);
  H<DT>::fact("the result does not depend on the previous content of the (freshly constructed) result object", clean, "uninitialised entries of the result object are read");
  H<DT>::end();
}

template<typename DT>
void run_all()
{
  typedef LAFEM::SparseMatrixCSR<DT, Index> CSR; typedef LAFEM::SparseMatrixCSCR<DT, Index> CSCR; typedef LAFEM::SparseMatrixBanded<DT, Index> BAND; typedef LAFEM::DenseMatrix<DT, Index> DM;
  typedef LAFEM::SparseMatrixBCSR<DT, Index, 2, 3> BCSR;
  Pattern p(3); p[0] = {0, 1}; p[2] = {1};   // 3x2, row 1 empty
  Pattern pb(2); pb[0] = {0}; pb[1] = {0, 1};
  // --- matrix-vector products into fresh vectors
  probe<DT>("csr apply into a fresh vector", [&] { CSR A = make_csr<DT>(3, 2, p, "a"); VT<DT> x = make_vec<DT>(2, "x"), r(3); A.apply(r, x); return finite_vec<DT>(r); });
  probe<DT>("csr apply_transposed into a fresh vector", [&] { CSR A = make_csr<DT>(3, 2, p, "a"); VT<DT> x = make_vec<DT>(3, "x"), r(2); A.apply_transposed(r, x); return finite_vec<DT>(r); });
  probe<DT>("cscr apply into a fresh vector", [&] { CSCR A = make_cscr<DT, Index, CSCR>(3, 2, p, "a", nullptr); VT<DT> x = make_vec<DT>(2, "x"), r(3); A.apply(r, x); return finite_vec<DT>(r); });
  probe<DT>("cscr apply_transposed into a fresh vector", [&] { CSCR A = make_cscr<DT, Index, CSCR>(3, 2, p, "a", nullptr); VT<DT> x = make_vec<DT>(3, "x"), r(2); A.apply_transposed(r, x); return finite_vec<DT>(r); });
  probe<DT>("banded apply into a fresh vector", [&] { BAND A = make_banded<DT, Index, BAND>(3, 2, {1, 3}, "a", nullptr); VT<DT> x = make_vec<DT>(2, "x"), r(3); A.apply(r, x); return finite_vec<DT>(r); });
  probe<DT>("dense apply into a fresh vector", [&] { DM A(3, 2); for(Index i = 0; i < 3; ++i) for(Index j = 0; j < 2; ++j) A(i, j, H<DT>::var("a" + str(i * 2 + j), 1.25 + 0.5 * double(i * 2 + j))); VT<DT> x = make_vec<DT>(2, "x"), r(3); A.apply(r, x); return finite_vec<DT>(r); });
  probe<DT>("dense apply_transposed into a fresh vector", [&] { DM A(3, 2); for(Index i = 0; i < 3; ++i) for(Index j = 0; j < 2; ++j) A(i, j, H<DT>::var("a" + str(i * 2 + j), 1.25 + 0.5 * double(i * 2 + j))); VT<DT> x = make_vec<DT>(3, "x"), r(2); A.apply_transposed(r, x); return finite_vec<DT>(r); });
  probe<DT>("bcsr apply into a fresh blocked vector", [&] { BCSR A = make_bcsr<DT, Index, 2, 3, BCSR>(2, 2, pb, "a", nullptr); LAFEM::DenseVectorBlocked<DT, Index, 3> x(2); for(Index i = 0; i < 6; ++i) x.template elements<LAFEM::Perspective::pod>()[i] = H<DT>::var("x" + str(i), 0.5 + 0.25 * double(i)); LAFEM::DenseVectorBlocked<DT, Index, 2> r(2); A.apply(r, x); return finite_bvec<DT, 2>(r); });
  probe<DT>("bcsr apply_transposed into a fresh blocked vector", [&] { BCSR A = make_bcsr<DT, Index, 2, 3, BCSR>(2, 2, pb, "a", nullptr); LAFEM::DenseVectorBlocked<DT, Index, 2> x(2); for(Index i = 0; i < 4; ++i) x.template elements<LAFEM::Perspective::pod>()[i] = H<DT>::var("x" + str(i), 0.5 + 0.25 * double(i)); LAFEM::DenseVectorBlocked<DT, Index, 3> r(2); A.apply_transposed(r, x); return finite_bvec<DT, 3>(r); });
  // --- matrix -> vector extractions into fresh vectors
  Pattern ps(2); ps[0] = {0, 1}; ps[1] = {1};
  probe<DT>("csr extract_diag / lump_rows / row norms into fresh vectors", [&] { CSR A = make_csr<DT>(2, 2, ps, "a"); VT<DT> d(2), l(2), n2(2), n2s(2), n2ss(2), sc = make_vec<DT>(2, "s"); A.extract_diag(d); A.lump_rows(l); A.row_norm2(n2); A.row_norm2sqr(n2s); A.row_norm2sqr(n2ss, sc); return finite_vec<DT>(d) && finite_vec<DT>(l) && finite_vec<DT>(n2) && finite_vec<DT>(n2s) && finite_vec<DT>(n2ss); });
  probe<DT>("bcsr lump_rows / row norms into fresh vectors", [&] { BCSR A = make_bcsr<DT, Index, 2, 3, BCSR>(2, 2, pb, "a", nullptr); LAFEM::DenseVectorBlocked<DT, Index, 2> l(2), n2(2), n2s(2); A.lump_rows(l); A.row_norm2(n2); A.row_norm2sqr(n2s); return finite_bvec<DT, 2>(l) && finite_bvec<DT, 2>(n2) && finite_bvec<DT, 2>(n2s); });
  // --- matrix -> matrix operations into fresh (layout-only) matrices
  probe<DT>("csr scale / scale_rows / scale_cols into a layout clone", [&] { CSR A = make_csr<DT>(2, 2, ps, "a"); VT<DT> s = make_vec<DT>(2, "s"); CSR X = A.clone(LAFEM::CloneMode::Layout), Y = A.clone(LAFEM::CloneMode::Layout), Z = A.clone(LAFEM::CloneMode::Layout);
    X.scale(A, H<DT>::var("alpha", 0.75)); Y.scale_rows(A, s); Z.scale_cols(A, s); bool ok = true; for(Index k = 0; k < A.used_elements(); ++k) { double a = H<DT>::sh(X.val()[k]), b = H<DT>::sh(Y.val()[k]), c = H<DT>::sh(Z.val()[k]); ok = ok && a == a && b == b && c == c; } return ok; });
  probe<DT>("csr transpose into a fresh matrix", [&] { CSR A = make_csr<DT>(3, 2, p, "a"); CSR T; T.transpose(A); bool ok = true; for(Index k = 0; k < T.used_elements(); ++k) { double a = H<DT>::sh(T.val()[k]); ok = ok && a == a; } return ok; });
  // --- vector operations into fresh vectors
  probe<DT>("vector copy / scale / component_product / component_invert into fresh vectors", [&] { VT<DT> x = make_vec<DT>(3, "x"), y = make_vec<DT>(3, "y", 1.5, 0.25), a(3), b(3), c(3), d(3);
    a.copy(x); b.scale(x, H<DT>::var("alpha", 0.75)); c.component_product(x, y); d.component_invert(y, H<DT>::var("alpha", 0.75)); return finite_vec<DT>(a) && finite_vec<DT>(b) && finite_vec<DT>(c) && finite_vec<DT>(d); });
  probe<DT>("vector axpy with three operands into a fresh vector", [&] { VT<DT> x = make_vec<DT>(3, "x"), y = make_vec<DT>(3, "y", 1.5, 0.25), r(3); r.copy(y); r.axpy(x, H<DT>::var("alpha", 0.75)); return finite_vec<DT>(r); });
  // --- four-argument apply: r = y + alpha A x with fresh r
  probe<DT>("csr apply(r, x, y, alpha) into a fresh vector", [&] { CSR A = make_csr<DT>(3, 2, p, "a"); VT<DT> x = make_vec<DT>(2, "x"), y = make_vec<DT>(3, "y", 1.5, 0.25), r(3); A.apply(r, x, y, H<DT>::var("alpha", 0.75)); return finite_vec<DT>(r); });
  probe<DT>("banded apply(r, x, y, alpha) into a fresh vector", [&] { BAND A = make_banded<DT, Index, BAND>(3, 2, {1, 3}, "a", nullptr); VT<DT> x = make_vec<DT>(2, "x"), y = make_vec<DT>(3, "y", 1.5, 0.25), r(3); A.apply(r, x, y, H<DT>::var("alpha", 0.75)); return finite_vec<DT>(r); });
  probe<DT>("dense apply(r, x, y, alpha) into a fresh vector", [&] { DM A(3, 2); for(Index i = 0; i < 3; ++i) for(Index j = 0; j < 2; ++j) A(i, j, H<DT>::var("a" + str(i * 2 + j), 1.25 + 0.5 * double(i * 2 + j))); VT<DT> x = make_vec<DT>(2, "x"), y = make_vec<DT>(3, "y", 1.5, 0.25), r(3); A.apply(r, x, y, H<DT>::var("alpha", 0.75)); return finite_vec<DT>(r); });
}

int main(int argc, char** argv)
{
  int na = argc;
  for(int i = 1; i < argc; ++i) if(std::string(argv[i]) == "--bounds" && i + 1 < argc) { g_level = atoi(argv[i + 1]); na = i; }
  return vh::main_dispatch(na, argv, [&] { run_all<vsym::SymReal>(); }, [&] {
#ifdef VH_REPLAY
    run_all<double>();
#endif
  });
}
