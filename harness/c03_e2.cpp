// C03 (E2): matrix algebra on SparseMatrixCSR (and BCSR where offered) == textbook formula on dense copies,
// restricted to the output pattern where the API drops missing entries; required-pattern violations must abort.
#include "feat_helpers.hpp"
#include <kernel/lafem/sparse_matrix_bcsr.hpp>
#include <algorithm>
using namespace FEAT; using namespace vh;
static int g_maxdim = 2, g_maxnnz = 3;

template<typename DT> using CSR = LAFEM::SparseMatrixCSR<DT, Index>;
template<typename DT> using DV = LAFEM::DenseVector<DT, Index>;

static bool has(const Pattern& p, Index i, Index j) { return std::find(p[i].begin(), p[i].end(), j) != p[i].end(); }

template<typename DT>
void unary_ops(Index rows, Index cols, const Pattern& p)
{
  std::string cfg = str(rows) + "x" + str(cols) + " [" + pat_str(p) + "]";
  Index nz = nnz(p);
  auto begin = [&](const std::string& op) { std::string cn = "csr " + cfg + " " + op; if(!H<DT>::want(cn)) return false; H<DT>::begin(cn, "{\"op\":\"" + op + "\"}"); return true; };
  DT alpha = H<DT>::var("alpha", 0.75);
  // axpy / scale (same layout), with and without aliasing this == x
  for(int alias = 0; alias < 2; ++alias)
  {
    if(begin(std::string("axpy") + (alias ? " this==x" : "")))
    {
      Dense<DT> DA, DX; auto A = make_csr<DT>(rows, cols, p, "a", &DA); auto X = make_csr<DT>(rows, cols, p, "x", &DX, -0.75);
      int rc = guarded([&] { if(alias) A.axpy(A, alpha); else A.axpy(X, alpha); });
      H<DT>::fact("completes", rc == 0, rc == 2 ? "memory fault" : "abort");
      if(rc == 0) { auto G = csr_to_dense<DT>(A); for(Index i = 0; i < rows; ++i) for(Index j = 0; j < cols; ++j) H<DT>::eq("A[" + str(i) + "," + str(j) + "]", G[i][j], DA[i][j] + alpha * (alias ? DA[i][j] : DX[i][j])); }
      H<DT>::end();
    }
    if(begin(std::string("scale") + (alias ? " this==x" : "")))
    {
      Dense<DT> DA, DX; auto A = make_csr<DT>(rows, cols, p, "a", &DA); auto X = make_csr<DT>(rows, cols, p, "x", &DX, -0.75);
      int rc = guarded([&] { if(alias) A.scale(A, alpha); else A.scale(X, alpha); });
      H<DT>::fact("completes", rc == 0, rc == 2 ? "memory fault" : "abort");
      if(rc == 0) { auto G = csr_to_dense<DT>(A); for(Index i = 0; i < rows; ++i) for(Index j = 0; j < cols; ++j) H<DT>::eq("A[" + str(i) + "," + str(j) + "]", G[i][j], alpha * (alias ? DA[i][j] : DX[i][j])); }
      H<DT>::end();
    }
    if(begin(std::string("scale_rows,scale_cols") + (alias ? " this==x" : "")))
    {
      Dense<DT> DA, DX; auto A = make_csr<DT>(rows, cols, p, "a", &DA); auto X = make_csr<DT>(rows, cols, p, "x", &DX, -0.75);
      auto sr = make_vec<DT>(rows, "sr", 1.5, 0.25); auto sc = make_vec<DT>(cols, "sc", -1.25, 0.5);
      int rc = guarded([&] { if(alias) A.scale_rows(A, sr); else A.scale_rows(X, sr); });
      H<DT>::fact("scale_rows completes", rc == 0, rc == 2 ? "memory fault" : "abort");
      if(rc == 0) { auto G = csr_to_dense<DT>(A); for(Index i = 0; i < rows; ++i) for(Index j = 0; j < cols; ++j) H<DT>::eq("rows[" + str(i) + "," + str(j) + "]", G[i][j], sr(i) * (alias ? DA[i][j] : DX[i][j])); }
      auto B = make_csr<DT>(rows, cols, p, "b", &DA);
      rc = guarded([&] { if(alias) B.scale_cols(B, sc); else B.scale_cols(X, sc); });
      H<DT>::fact("scale_cols completes", rc == 0, rc == 2 ? "memory fault" : "abort");
      if(rc == 0) { auto G = csr_to_dense<DT>(B); for(Index i = 0; i < rows; ++i) for(Index j = 0; j < cols; ++j) H<DT>::eq("cols[" + str(i) + "," + str(j) + "]", G[i][j], sc(j) * (alias ? DA[i][j] : DX[i][j])); }
      H<DT>::end();
    }
  }
  if(nz > 0 && begin("lump,diag,rownorm,frobenius"))
  {
    Dense<DT> DA; auto A = make_csr<DT>(rows, cols, p, "a", &DA);
    DV<DT> l(rows), n2(rows), n2s(rows), n2ss(rows); auto sc = make_vec<DT>(rows, "sc", 1.25, 0.5);
    int rc = guarded([&] { A.lump_rows(l); A.row_norm2sqr(n2s); A.row_norm2(n2); A.row_norm2sqr(n2ss, sc); });
    H<DT>::fact("completes", rc == 0, rc == 2 ? "memory fault" : "abort");
    if(rc == 0)
    {
      DT fro = DT(0);
      for(Index i = 0; i < rows; ++i)
      {
        DT s = DT(0), q = DT(0); for(Index j = 0; j < cols; ++j) { s += DA[i][j]; q += DA[i][j] * DA[i][j]; } fro += q;
        H<DT>::eq("lump[" + str(i) + "]", l(i), s); H<DT>::eq("norm2sqr[" + str(i) + "]", n2s(i), q); H<DT>::eq("norm2^2[" + str(i) + "]", n2(i) * n2(i), q); H<DT>::le("norm2>=0[" + str(i) + "]", DT(0), n2(i));
        H<DT>::eq("scaled norm2sqr[" + str(i) + "]", n2ss(i), sc(i) * q);
      }
      DT f = A.norm_frobenius(); H<DT>::eq("frobenius^2", f * f, fro); H<DT>::le("frobenius>=0", DT(0), f);
      if(rows == cols)
      {
        DV<DT> d(rows); int rc2 = guarded([&] { A.extract_diag(d); });
        H<DT>::fact("extract_diag completes", rc2 == 0);
        if(rc2 == 0) for(Index i = 0; i < rows; ++i) H<DT>::eq("diag[" + str(i) + "]", d(i), DA[i][i]);
      }
      auto G = csr_to_dense<DT>(A); for(Index i = 0; i < rows; ++i) for(Index j = 0; j < cols; ++j) H<DT>::eq("A unchanged[" + str(i) + "," + str(j) + "]", G[i][j], DA[i][j]);
    }
    H<DT>::end();
  }
  // min/max (abs) element over the stored entries: every ordering for nz <= 3
  if(nz >= 1 && nz <= 3)
  {
    std::vector<int> perm; for(Index i = 0; i < nz; ++i) perm.push_back(int(i));
    int pid = 0;
    do
    {
      for(int sgn = 0; sgn < 2; ++sgn)
      {
        std::string pn = "p" + str(Index(pid)) + (sgn ? "m" : "p");
        if(begin("minmax " + pn))
        {
          CSR<DT> A = make_csr<DT>(rows, cols, p, "tmp");
          std::vector<DT> f; for(Index k = 0; k < nz; ++k) { double shv = (1.0 + double(perm[k]) * 0.75) * ((sgn && (perm[k] % 2 == 0)) ? -1.0 : 1.0); DT v = H<DT>::var(pn + "_v" + str(k), shv); f.push_back(v); A.val()[k] = v; }
          DT mx = A.max_element(), mn = A.min_element(), mxa = A.max_abs_element(), mna = A.min_abs_element();
          DT pmx = DT(1), pmn = DT(1), pmxa = DT(1), pmna = DT(1);
          for(Index k = 0; k < nz; ++k)
          {
            H<DT>::le("max>=v" + str(k), f[k], mx); H<DT>::le("min<=v" + str(k), mn, f[k]); H<DT>::le("maxabs>=v" + str(k), f[k], mxa); H<DT>::le("maxabs>=-v" + str(k), -f[k], mxa);
            H<DT>::le("minabs^2<=v^2 " + str(k), mna * mna, f[k] * f[k]);
            pmx = pmx * (mx - f[k]); pmn = pmn * (mn - f[k]); pmxa = pmxa * (mxa - f[k]) * (mxa + f[k]); pmna = pmna * (mna - f[k]) * (mna + f[k]);
          }
          H<DT>::eq("max attained", pmx, DT(0)); H<DT>::eq("min attained", pmn, DT(0)); H<DT>::eq("maxabs attained", pmxa, DT(0)); H<DT>::eq("minabs attained", pmna, DT(0)); H<DT>::le("minabs>=0", DT(0), mna);
          H<DT>::end();
        }
      }
      ++pid;
    } while(std::next_permutation(perm.begin(), perm.end()));
  }
  // shrink(eps): drops entries with |v| < eps; every subset of kept entries is one concolic path (nz <= 3)
  if(nz >= 1 && nz <= 3) for(unsigned keep = 0; keep < (1u << nz); ++keep)
  {
    if(begin("shrink keep" + str(Index(keep))))
    {
      std::string pn = "k" + str(Index(keep));
      CSR<DT> A = make_csr<DT>(rows, cols, p, "tmp"); Dense<DT> E = dense_zero<DT>(rows, cols);
      DT eps = H<DT>::var("eps", 1.0);
      Index k = 0; Index kept = 0;
      for(Index i = 0; i < rows; ++i) for(Index j : p[i]) { bool kp = (keep >> k) & 1; double shv = (kp ? 2.0 + double(k) : 0.25 + 0.125 * double(k)) * ((k % 2) ? -1.0 : 1.0); DT v = H<DT>::var(pn + "_v" + str(k), shv); A.val()[k] = v; if(kp) { E[i][j] = v; ++kept; } ++k; }
      int rc = guarded([&] { A.shrink(eps); });
      H<DT>::fact("completes", rc == 0, rc == 2 ? "memory fault" : "abort");
      if(rc == 0)
      {
        H<DT>::fact("dimensions kept", A.rows() == rows && A.columns() == cols);
        H<DT>::fact("used elements == kept", A.used_elements() == kept, "used=" + str(A.used_elements()) + " kept=" + str(kept));
        auto G = csr_to_dense<DT>(A); for(Index i = 0; i < rows; ++i) for(Index j = 0; j < cols; ++j) H<DT>::eq("A[" + str(i) + "," + str(j) + "]", G[i][j], E[i][j]);
      }
      H<DT>::end();
    }
  }
}

// X += alpha * D * B (and D * A * B, D * diag(a) * B) on a prescribed pattern of X
template<typename DT>
void products(Index m, Index l, Index n)
{
  Index mx = Index(g_maxnnz);
  auto PD = all_patterns(m, l, mx), PB = all_patterns(l, n, mx), PX = all_patterns(m, n, 4);
  for(auto& pd : PD) for(auto& pb : PB)
  {
    if(nnz(pd) == 0 || nnz(pb) == 0) continue; // product kernels walk row_ptr of all operands; entry-free operands have no arrays (see C02/C20 for those)
    // structural product pattern
    std::vector<std::vector<char>> prod(m, std::vector<char>(n, 0));
    for(Index i = 0; i < m; ++i) for(Index k : pd[i]) for(Index j : pb[k]) prod[i][j] = 1;
    for(auto& px : PX)
    {
      if(nnz(px) == 0) continue;
      bool complete = true; for(Index i = 0; i < m; ++i) for(Index j = 0; j < n; ++j) if(prod[i][j] && !has(px, i, j)) complete = false;
      for(int allow = 0; allow < 2; ++allow) for(int kind = 0; kind < 2; ++kind) // kind 0: D*B, 1: D*diag(a)*B
      {
        std::string cn = std::string(kind ? "add_double_mat_product(diag)" : "add_mat_mat_product") + " " + str(m) + "x" + str(l) + "x" + str(n) + " D[" + pat_str(pd) + "] B[" + pat_str(pb) + "] X[" + pat_str(px) + "] allow" + str(Index(allow));
        if(!H<DT>::want(cn)) continue;
        H<DT>::begin(cn, "{\"complete\":" + str(Index(complete)) + "}");
        Dense<DT> DD, DB, DX; auto D = make_csr<DT>(m, l, pd, "d", &DD); auto B = make_csr<DT>(l, n, pb, "b", &DB, -0.75); auto X = make_csr<DT>(m, n, px, "x", &DX, 2.5);
        auto a = make_vec<DT>(l, "a", 1.5, 0.25); DT alpha = H<DT>::var("alpha", 0.75);
        int rc = guarded([&] { if(kind) X.add_double_mat_product(D, a, B, alpha, allow != 0); else X.add_mat_mat_product(D, B, alpha, allow != 0); });
        if(!complete && !allow) H<DT>::fact("incomplete pattern is rejected", rc == 1, rc == 0 ? "returned silently" : "memory fault");
        else
        {
          H<DT>::fact("completes", rc == 0, rc == 2 ? "memory fault" : "abort on permitted input");
          if(rc == 0)
          {
            auto G = csr_to_dense<DT>(X);
            for(Index i = 0; i < m; ++i) for(Index j = 0; j < n; ++j)
            {
              DT s = DT(0); for(Index k = 0; k < l; ++k) s += kind ? DT(DD[i][k] * a(k) * DB[k][j]) : DT(DD[i][k] * DB[k][j]);
              DT e = has(px, i, j) ? DT(DX[i][j] + alpha * s) : DT(0);
              H<DT>::eq("X[" + str(i) + "," + str(j) + "]", G[i][j], e);
            }
            auto GD = csr_to_dense<DT>(D), GB = csr_to_dense<DT>(B);
            for(Index i = 0; i < m; ++i) for(Index k = 0; k < l; ++k) H<DT>::eq("D unchanged[" + str(i) + "," + str(k) + "]", GD[i][k], DD[i][k]);
            for(Index k = 0; k < l; ++k) for(Index j = 0; j < n; ++j) H<DT>::eq("B unchanged[" + str(k) + "," + str(j) + "]", GB[k][j], DB[k][j]);
          }
        }
        H<DT>::end();
      }
    }
  }
}

// D * A * B with a sparse middle matrix: only a reduced sweep (patterns of A full / diagonal / single entry)
template<typename DT>
void triple_products(Index m, Index k, Index l, Index n)
{
  auto PD = all_patterns(m, k, 2), PB = all_patterns(l, n, 2), PA = all_patterns(k, l, 4);
  Pattern full(m); for(Index i = 0; i < m; ++i) for(Index j = 0; j < n; ++j) full[i].push_back(j);
  for(auto& pd : PD) for(auto& pa : PA) for(auto& pb : PB)
  {
    if(nnz(pd) == 0 || nnz(pb) == 0 || nnz(pa) == 0) continue;
    std::string cn = "add_double_mat_product(sparse) " + str(m) + "x" + str(k) + "x" + str(l) + "x" + str(n) + " D[" + pat_str(pd) + "] A[" + pat_str(pa) + "] B[" + pat_str(pb) + "]";
    if(!H<DT>::want(cn)) continue;
    H<DT>::begin(cn);
    Dense<DT> DD, DA, DB, DX; auto D = make_csr<DT>(m, k, pd, "d", &DD); auto A = make_csr<DT>(k, l, pa, "a", &DA, 1.75); auto B = make_csr<DT>(l, n, pb, "b", &DB, -0.75); auto X = make_csr<DT>(m, n, full, "x", &DX, 2.5);
    DT alpha = H<DT>::var("alpha", 0.75);
    int rc = guarded([&] { X.add_double_mat_product(D, A, B, alpha, false); });
    H<DT>::fact("completes", rc == 0, rc == 2 ? "memory fault" : "abort on complete pattern");
    if(rc == 0)
    {
      auto G = csr_to_dense<DT>(X);
      for(Index i = 0; i < m; ++i) for(Index j = 0; j < n; ++j)
      {
        DT s = DT(0); for(Index p = 0; p < k; ++p) for(Index q = 0; q < l; ++q) s += DD[i][p] * DA[p][q] * DB[q][j];
        H<DT>::eq("X[" + str(i) + "," + str(j) + "]", G[i][j], DX[i][j] + alpha * s);
      }
    }
    H<DT>::end();
  }
}

template<typename DT>
void run_all()
{
  for(Index rows = 1; rows <= Index(g_maxdim); ++rows) for(Index cols = 1; cols <= Index(g_maxdim); ++cols)
    for(auto& p : all_patterns(rows, cols, Index(g_maxnnz))) unary_ops<DT>(rows, cols, p);
  for(Index m = 1; m <= 2; ++m) for(Index l = 1; l <= 2; ++l) for(Index n = 1; n <= 2; ++n) products<DT>(m, l, n);
  triple_products<DT>(2, 2, 2, 2); triple_products<DT>(1, 2, 1, 2);
  if(g_maxdim > 2) { products<DT>(3, 2, 2); products<DT>(2, 3, 2); products<DT>(2, 2, 3); }
}

int main(int argc, char** argv)
{
  int na = argc;
  for(int i = 1; i < argc; ++i) if(std::string(argv[i]) == "--bounds" && i + 2 < argc) { g_maxdim = atoi(argv[i + 1]); g_maxnnz = atoi(argv[i + 2]); na = i; }
  return vh::main_dispatch(na, argv, [&] { run_all<vsym::SymReal>(); }, [&] {
#ifdef VH_REPLAY
    run_all<double>();
#endif
  });
}
