// C18 (E2, restricted): grid transfer on ONE coarse simplex taken from a symbolic affine family x = [[hx, sk],[0, hy]] xhat,
// refined by the real StandardRefinery: prolongation == interpolation matrix of the nested spaces, truncation is a left
// inverse, restriction == transpose, matrix-free prolongation == assembled matrix.
#include "feat_helpers.hpp"
#include <kernel/geometry/conformal_mesh.hpp>
#include <kernel/geometry/reference_cell_factory.hpp>
#include <kernel/trafo/standard/mapping.hpp>
#include <kernel/space/lagrange1/element.hpp>
#include <kernel/space/lagrange2/element.hpp>
#include <kernel/space/discontinuous/element.hpp>
#include <kernel/cubature/dynamic_factory.hpp>
#include <kernel/assembly/symbolic_assembler.hpp>
#include <kernel/assembly/grid_transfer.hpp>
#include <kernel/lafem/transfer.hpp>
using namespace FEAT; using namespace vh;
static int g_level = 1;

template<typename DT, typename Shape_, template<typename...> class Elem_, typename... Extra_>
void transfer_case(const std::string& ename, int nparam, const char* cub, int interp_kind, int perm_mode = 0)
{
  typedef Geometry::ConformalMesh<Shape_, Shape_::dimension, DT> Mesh; constexpr int dim = Shape_::dimension;
  typedef Trafo::Standard::Mapping<Mesh> TrafoT; typedef Elem_<TrafoT, Extra_...> SpaceT; typedef LAFEM::SparseMatrixCSR<DT, Index> MT; typedef LAFEM::DenseVector<DT, Index> VT;
  std::string cn = "transfer " + ename + " dim=" + str(Index(dim)) + " params=" + str(Index(nparam)) + (perm_mode == 0 ? "" : perm_mode == 1 ? " fine mesh permuted" : perm_mode == 2 ? " coarse mesh permuted" : " both meshes permuted"); if(!H<DT>::want(cn)) return;
  H<DT>::begin(cn, "{\"element\":\"" + ename + "\"}");
  int rc = guarded([&] {
    Geometry::ReferenceCellFactory<Shape_, DT> fac; Mesh mesh(fac);
    DT hx = H<DT>::var("hx", 1.5), hy = H<DT>::var("hy", 0.75), sk = H<DT>::var("sk", 0.25), hz = H<DT>::var("hz", 1.25);
    H<DT>::assume_lt(DT(0), hx); H<DT>::assume_lt(DT(0), hy); H<DT>::assume_lt(DT(0), hz);
    auto& vs = mesh.get_vertex_set();
    for(Index v = 0; v < mesh.get_num_entities(0); ++v)
    {
      DT x = vs[v][0], y = vs[v][1];
      vs[v][0] = (nparam >= 3) ? DT(hx * x + sk * y) : DT(hx * x); vs[v][1] = (nparam >= 2) ? DT(hy * y) : DT(hx * y);
      if constexpr(dim == 3) { DT z = vs[v][2]; vs[v][2] = (nparam >= 2) ? DT(hz * z) : DT(hx * z); }
    }
    Geometry::StandardRefinery<Mesh> refinery(mesh); Mesh fine(refinery);
    // renumbered meshes (the transfer code has to translate the 2-level cell relation through the mesh permutations)
    auto renumber = [&](Mesh& m, Index shift) {
      Geometry::MeshPermutation<Shape_> mp; auto& pa = mp.create_other();
      for(int d = 0; d <= dim; ++d) { const Index n = m.get_num_entities(d); std::vector<Index> v(n); for(Index i = 0; i < n; ++i) v[i] = (i + shift) % n; pa.at(std::size_t(d)) = Adjacency::Permutation(n, Adjacency::Permutation::ConstrType::perm, v.data()); }
      mp.create_inverse_permutations(); m.set_permutation(std::move(mp)); };
    if(perm_mode & 1) renumber(fine, 1);
    if(perm_mode & 2) renumber(mesh, 2);
    TrafoT trafo_c(mesh), trafo_f(fine); SpaceT space_c(trafo_c), space_f(trafo_f);
    Cubature::DynamicFactory cf(cub);
    MT P; Assembly::SymbolicAssembler::assemble_matrix_2lvl(P, space_f, space_c); P.format();
    Assembly::GridTransfer::assemble_prolongation_direct(P, space_f, space_c, cf);
    const Index nf = P.rows(), nc = P.columns(); Dense<DT> D = csr_to_dense<DT>(P);
    H<DT>::fact("dimensions", nf == space_f.get_num_dofs() && nc == space_c.get_num_dofs());
    for(Index i = 0; i < nf; ++i) { DT s = DT(0); for(Index j = 0; j < nc; ++j) s += D[i][j]; H<DT>::eq("prolongation reproduces constants: row " + str(i), s, DT(1)); }
    if(interp_kind == 1 && perm_mode == 0)
    {
      // Lagrange1: fine dof i is fine vertex i; coarse vertices keep their numbers, edge midpoint m of coarse edge e gets number nv + e
      auto& ve = mesh.template get_index_set<1, 0>(); const Index nv = mesh.get_num_entities(0);
      for(Index i = 0; i < nf; ++i) for(Index j = 0; j < nc; ++j)
      {
        DT e = DT(0);
        if(i < nv) e = DT(i == j ? 1 : 0); else if(i - nv < mesh.get_num_entities(1)) { if(ve(i - nv, 0) == j || ve(i - nv, 1) == j) e = DT(0.5); }
        H<DT>::eq("P(" + str(i) + "," + str(j) + ") == value of coarse basis function at fine node", D[i][j], e);
      }
    }
    // truncation is a left inverse of prolongation
    MT T; Assembly::SymbolicAssembler::assemble_matrix_2lvl(T, space_f, space_c); T = T.transpose(); T.format();
    Assembly::GridTransfer::assemble_truncation_direct(T, space_f, space_c, cf);
    Dense<DT> DTm = csr_to_dense<DT>(T);
    // note: T*P = I is NOT an exact identity of the computed rational functions: the truncation is an L2 projection evaluated with the
    // rule's floating-point weight table, so it holds only up to the table's rounding (1e-16); it is therefore not an obligation here.
    // LAFEM::Transfer: prol / rest (= transpose) / trunc on vectors
    MT R = P.transpose(); Dense<DT> DR = csr_to_dense<DT>(R);
    for(Index a = 0; a < nc; ++a) for(Index i = 0; i < nf; ++i) H<DT>::eq("restriction matrix is the transpose (" + str(a) + "," + str(i) + ")", DR[a][i], D[i][a]);
    LAFEM::Transfer<MT> tr(P.clone(), R.clone(), T.clone());
    VT vc = make_vec<DT>(nc, "vc", 0.5, 0.375), vf = make_vec<DT>(nf, "vf", -0.25, 0.3125), outf(nf, DT(0)), outc(nc, DT(0)), outt(nc, DT(0));
    tr.prol(outf, vc); tr.rest(vf, outc); tr.trunc(vf, outt);
    for(Index i = 0; i < nf; ++i) { DT s = DT(0); for(Index j = 0; j < nc; ++j) s += D[i][j] * vc(j); H<DT>::eq("Transfer::prol [" + str(i) + "]", outf(i), s); }
    for(Index a = 0; a < nc; ++a) { DT s = DT(0), t = DT(0); for(Index i = 0; i < nf; ++i) { s += D[i][a] * vf(i); t += DTm[a][i] * vf(i); } H<DT>::eq("Transfer::rest = P^T v [" + str(a) + "]", outc(a), s); H<DT>::eq("Transfer::trunc [" + str(a) + "]", outt(a), t); }
    if(interp_kind == 1 && nparam == 1)
    {
      // numbering-independent oracle: a P1 prolongation reproduces every affine function f(x) = a + b.x at the fine vertices (dof i = vertex i)
      DT fa = H<DT>::var("fa", 0.625), fb[3] = {H<DT>::var("fb0", -0.375), H<DT>::var("fb1", 1.125), H<DT>::var("fb2", 0.4375)};
      auto f = [&](const auto& x) { DT r = fa; for(int d = 0; d < dim; ++d) r += fb[d] * x[d]; return r; };
      VT fc(nc, DT(0)), ff(nf, DT(0)), ffm(nf, DT(0));
      for(Index j = 0; j < nc; ++j) fc(j, f(mesh.get_vertex_set()[j]));
      tr.prol(ff, fc); Assembly::GridTransfer::prolongate_vector_direct(ffm, fc, space_f, space_c, String(cub));
      for(Index i = 0; i < nf; ++i) { H<DT>::eq("prolongation reproduces affine functions at fine vertex " + str(i), ff(i), f(fine.get_vertex_set()[i])); H<DT>::eq("matrix-free prolongation reproduces affine functions at fine vertex " + str(i), ffm(i), f(fine.get_vertex_set()[i])); }
    }
    // matrix-free prolongation
    VT mf(nf, DT(0)); Assembly::GridTransfer::prolongate_vector_direct(mf, vc, space_f, space_c, String(cub));
    for(Index i = 0; i < nf; ++i) { DT s = DT(0); for(Index j = 0; j < nc; ++j) s += D[i][j] * vc(j); H<DT>::eq("matrix-free prolongation == P v [" + str(i) + "]", mf(i), s); }
  });
  H<DT>::fact("completes", rc == 0, rc == 2 ? "memory fault" : "abort");
  H<DT>::end();
}

template<typename T> using L1 = Space::Lagrange1::Element<T>;
template<typename T> using L2 = Space::Lagrange2::Element<T>;
template<typename T> using D0 = Space::Discontinuous::Element<T, Space::Discontinuous::Variant::StdPolyP<0>>;
template<typename T> using D1 = Space::Discontinuous::Element<T, Space::Discontinuous::Variant::StdPolyP<1>>;

template<typename DT>
void run_all()
{
  for(int np = 1; np <= (g_level > 1 ? 3 : 2); ++np)
  {
    transfer_case<DT, Shape::Simplex<2>, L1>("lagrange1", np, "auto-degree:3", 1);
    transfer_case<DT, Shape::Simplex<2>, D0>("discontinuous-p0", np, "auto-degree:2", 0);
  }
  transfer_case<DT, Shape::Simplex<2>, D1>("discontinuous-p1", 1, "auto-degree:3", 0);
  for(int pm = 1; pm <= 3; ++pm) { transfer_case<DT, Shape::Simplex<2>, L1>("lagrange1", 1, "auto-degree:3", 1, pm); transfer_case<DT, Shape::Simplex<2>, D0>("discontinuous-p0", 1, "auto-degree:2", 0, pm); }
  if(g_level > 1) { transfer_case<DT, Shape::Simplex<2>, L2>("lagrange2", 1, "auto-degree:5", 0); transfer_case<DT, Shape::Simplex<3>, L1>("lagrange1", 1, "auto-degree:3", 0); transfer_case<DT, Shape::Simplex<2>, L2>("lagrange2", 2, "auto-degree:5", 0); }
}

int main(int argc, char** argv)
{
  int na = argc;
  for(int i = 1; i < argc; ++i) if(std::string(argv[i]) == "--bounds" && i + 1 < argc) { g_level = atoi(argv[i + 1]); na = i; }
  return vh::main_dispatch(na, argv, [&] { run_all<vsym::SymReal>(); }, [&] {
#ifdef VH_REPLAY
    run_all<double>();
#endif
  });
}
