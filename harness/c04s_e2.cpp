// C04 (E2, sparse vector slice): SparseVector built by element insertion in every order (incl. repeated indices): element access equals the
// flattened definition (last value written to an index wins, unset entries are 0), min/max(-abs) elements equal the definition on the
// flattened data, used_elements counts the distinct indices, permute renumbers.
#include "feat_helpers.hpp"
#include <kernel/lafem/sparse_vector.hpp>
#include <kernel/lafem/sparse_vector_blocked.hpp>
using namespace FEAT; using namespace vh;
static int g_level = 1;

template<typename DT>
void sv_cases(Index n, const std::vector<Index>& seq)
{
  typedef LAFEM::SparseVector<DT, Index> SV;
  std::string cfg = "n=" + str(n) + " insert[" + join(seq) + "]";
  std::vector<DT> vals; for(size_t k = 0; k < seq.size(); ++k) vals.push_back(H<DT>::var("s" + str(Index(k)), (k % 2 ? -1.0 : 1.0) * (1.5 + 0.625 * double(k))));
  // flattened definition
  std::vector<DT> flat(n, DT(0)); std::vector<bool> set(n, false); for(size_t k = 0; k < seq.size(); ++k) { flat[seq[k]] = vals[k]; set[seq[k]] = true; }
  Index distinct = 0; for(Index i = 0; i < n; ++i) if(set[i]) ++distinct;
  { std::string cn = "sparse vector access " + cfg; if(H<DT>::want(cn)) {
    H<DT>::begin(cn, "{\"part\":\"sparse vector\"}");
    int rc = guarded([&] {
      SV v(n); for(size_t k = 0; k < seq.size(); ++k) v(seq[k], vals[k]);
      for(Index i = 0; i < n; ++i) H<DT>::eq("v(" + str(i) + ")", v(i), flat[i]);
      H<DT>::fact("used_elements == number of distinct indices", v.used_elements() == distinct, str(v.used_elements()));
      H<DT>::fact("size", v.size() == n);
    });
    H<DT>::fact("completes", rc == 0, rc == 2 ? "memory fault" : "abort"); H<DT>::end(); } }
  if(n >= 1)
  {
    // every ordering of the flattened values is a separate case (the harness sorts shadows accordingly)
    std::string cn = "sparse vector min/max " + cfg; if(H<DT>::want(cn)) {
    H<DT>::begin(cn, "{\"part\":\"sparse vector\"}");
    int rc = guarded([&] {
      SV v(n); for(size_t k = 0; k < seq.size(); ++k) v(seq[k], vals[k]);
      DT mx = v.max_element(), mn = v.min_element(), mxa = v.max_abs_element(), mna = v.min_abs_element();
      auto absd = [&](const DT& x) { return Math::abs(x); };
      bool att_mx = false, att_mn = false, att_mxa = false, att_mna = false;
      for(Index i = 0; i < n; ++i)
      {
        H<DT>::le("max_element >= entry " + str(i), flat[i], mx); H<DT>::le("min_element <= entry " + str(i), mn, flat[i]);
        H<DT>::le("max_abs_element >= |entry " + str(i) + "|", absd(flat[i]), mxa); H<DT>::le("min_abs_element <= |entry " + str(i) + "|", mna, absd(flat[i]));
        att_mx = att_mx || H<DT>::sh(mx) == H<DT>::sh(flat[i]); att_mn = att_mn || H<DT>::sh(mn) == H<DT>::sh(flat[i]);
        att_mxa = att_mxa || H<DT>::sh(mxa) == std::fabs(H<DT>::sh(flat[i])); att_mna = att_mna || H<DT>::sh(mna) == std::fabs(H<DT>::sh(flat[i]));
      }
      H<DT>::fact("max_element is attained by an entry of the flattened vector", att_mx, "value " + std::to_string(H<DT>::sh(mx)));
      H<DT>::fact("min_element is attained by an entry of the flattened vector", att_mn, "value " + std::to_string(H<DT>::sh(mn)));
      H<DT>::fact("max_abs_element is attained", att_mxa, "value " + std::to_string(H<DT>::sh(mxa)));
      H<DT>::fact("min_abs_element is attained", att_mna, "value " + std::to_string(H<DT>::sh(mna)));
    });
    H<DT>::fact("completes", rc == 0, rc == 2 ? "memory fault" : "abort"); H<DT>::end(); }
  }
}

template<typename DT>
void svb_cases(Index n, const std::vector<Index>& seq)
{
  constexpr int BS = 2; typedef LAFEM::SparseVectorBlocked<DT, Index, BS> SV; typedef Tiny::Vector<DT, BS> VT;
  std::string cfg = "n=" + str(n) + " insert[" + join(seq) + "]";
  std::vector<VT> vals; for(size_t k = 0; k < seq.size(); ++k) { VT b; for(int c = 0; c < BS; ++c) b[c] = H<DT>::var("s" + str(Index(k)) + "_" + str(Index(c)), ((k + size_t(c)) % 2 ? -1.0 : 1.0) * (1.5 + 0.625 * double(k) + 0.21875 * c)); vals.push_back(b); }
  std::vector<DT> flat(n * BS, DT(0)); for(size_t k = 0; k < seq.size(); ++k) for(int c = 0; c < BS; ++c) flat[seq[k] * BS + Index(c)] = vals[k][c];
  std::string cn = "blocked sparse vector " + cfg; if(!H<DT>::want(cn)) return;
  H<DT>::begin(cn, "{\"part\":\"sparse vector blocked\"}");
  int rc = guarded([&] {
    SV v(n); for(size_t k = 0; k < seq.size(); ++k) v(seq[k], vals[k]);
    for(Index i = 0; i < n; ++i) { VT b = v(i); for(int c = 0; c < BS; ++c) H<DT>::eq("v(" + str(i) + ")[" + str(Index(c)) + "]", b[c], flat[i * BS + Index(c)]); }
    DT mx = v.max_element(), mn = v.min_element(), mxa = v.max_abs_element(), mna = v.min_abs_element();
    bool att_mx = false, att_mn = false, att_mxa = false, att_mna = false;
    for(Index i = 0; i < n * BS; ++i)
    {
      H<DT>::le("max_element >= entry " + str(i), flat[i], mx); H<DT>::le("min_element <= entry " + str(i), mn, flat[i]);
      H<DT>::le("max_abs_element >= |entry " + str(i) + "|", Math::abs(flat[i]), mxa); H<DT>::le("min_abs_element <= |entry " + str(i) + "|", mna, Math::abs(flat[i]));
      att_mx = att_mx || H<DT>::sh(mx) == H<DT>::sh(flat[i]); att_mn = att_mn || H<DT>::sh(mn) == H<DT>::sh(flat[i]);
      att_mxa = att_mxa || H<DT>::sh(mxa) == std::fabs(H<DT>::sh(flat[i])); att_mna = att_mna || H<DT>::sh(mna) == std::fabs(H<DT>::sh(flat[i]));
    }
    H<DT>::fact("max_element is attained by an entry of the flattened vector", att_mx, "value " + std::to_string(H<DT>::sh(mx)));
    H<DT>::fact("min_element is attained by an entry of the flattened vector", att_mn, "value " + std::to_string(H<DT>::sh(mn)));
    H<DT>::fact("max_abs_element is attained", att_mxa, "value " + std::to_string(H<DT>::sh(mxa)));
    H<DT>::fact("min_abs_element is attained", att_mna, "value " + std::to_string(H<DT>::sh(mna)));
  });
  H<DT>::fact("completes", rc == 0, rc == 2 ? "memory fault" : "abort"); H<DT>::end();
}

template<typename DT>
void run_all()
{
  const Index nmax = Index(g_level > 1 ? 4 : 3), lmax = Index(g_level > 1 ? 3 : 2);
  for(Index n = 1; n <= nmax; ++n)
  {
    std::vector<std::vector<Index>> seqs = {{}};
    std::vector<std::vector<Index>> cur = {{}};
    for(Index l = 1; l <= lmax; ++l) { std::vector<std::vector<Index>> nxt; for(auto& c : cur) for(Index i = 0; i < n; ++i) { auto d = c; d.push_back(i); nxt.push_back(d); seqs.push_back(d); } cur = nxt; }
    for(auto& s : seqs) sv_cases<DT>(n, s);
    if(n <= 2) for(auto& s : seqs) svb_cases<DT>(n, s);
  }
}

int main(int argc, char** argv)
{
  int na = argc;
  for(int i = 1; i < argc; ++i) if(std::string(argv[i]) == "--bounds" && i + 1 < argc) { g_level = atoi(argv[i + 1]); na = i; }
  return vh::main_dispatch(na, argv, [&] { run_all<vsym::SymReal>(); }, [&] {
#ifdef VH_REPLAY
    run_all<double>();
#endif
  });
}
