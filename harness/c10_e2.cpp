// C10 (E2 slice): geometry of one refinement step on ONE cell with symbolic vertex coordinates, through the real StandardRefinery
// (vertex refiner + vertices-at-cell index refiner): total volume unchanged, children positively oriented.
// Volumes by independent closed formulas (determinant for simplices, shoelace for straight-edged quadrilaterals, determinant for
// parallelepipeds); hexahedra are taken from the symbolic affine family x = A xi + b (a general trilinear hexahedron has no polynomial
// volume formula that is independent of the code under test at reasonable cost).
#include "feat_helpers.hpp"
#include <kernel/geometry/conformal_mesh.hpp>
#include <kernel/geometry/reference_cell_factory.hpp>
using namespace FEAT; using namespace vh;
static int g_level = 1;

template<typename DT, typename V> DT det2(const V& a, const V& b, const V& c) { return (b[0] - a[0]) * (c[1] - a[1]) - (b[1] - a[1]) * (c[0] - a[0]); }
template<typename DT, typename V> DT det3(const V& a, const V& b, const V& c, const V& d)
{
  DT u[3], v[3], w[3]; for(int i = 0; i < 3; ++i) { u[i] = b[i] - a[i]; v[i] = c[i] - a[i]; w[i] = d[i] - a[i]; }
  return u[0] * (v[1] * w[2] - v[2] * w[1]) - u[1] * (v[0] * w[2] - v[2] * w[0]) + u[2] * (v[0] * w[1] - v[1] * w[0]);
}

template<typename DT, typename Shape_>
void refine_case(const std::string& name, int mode)
{
  typedef Geometry::ConformalMesh<Shape_, Shape_::dimension, DT> Mesh; constexpr int dim = Shape_::dimension; constexpr bool cube = std::is_same<Shape_, Shape::Hypercube<dim>>::value;
  std::string cn = "refine " + name + (mode == 0 ? " general vertices" : " affine image"); if(!H<DT>::want(cn)) return;
  H<DT>::begin(cn, "{\"shape\":\"" + name + "\"}");
  int rc = guarded([&] {
    Geometry::ReferenceCellFactory<Shape_, DT> fac; Mesh mesh(fac);
    auto& vs = mesh.get_vertex_set(); const Index nv = mesh.get_num_entities(0);
    static const double sh[8][3] = {{0.0625, -0.125, 0.03125}, {1.25, 0.1875, -0.0625}, {-0.1875, 1.125, 0.09375}, {1.0625, 1.3125, 0.15625}, {0.125, 0.0625, 1.1875}, {1.3125, -0.09375, 1.0625}, {0.03125, 1.21875, 1.28125}, {1.15625, 1.09375, 1.34375}};
    if(mode == 0)
      for(Index v = 0; v < nv; ++v) for(int d = 0; d < dim; ++d) vs[v][d] = H<DT>::var("x" + str(v) + "_" + str(Index(d)), sh[v][d]);
    else
    {
      DT A[3][3], b[3]; static const double As[3][3] = {{1.25, 0.1875, -0.125}, {-0.0625, 0.875, 0.21875}, {0.15625, -0.09375, 1.125}};
      for(int i = 0; i < dim; ++i) { b[i] = H<DT>::var("b" + str(Index(i)), 0.125 * (i + 1)); for(int j = 0; j < dim; ++j) A[i][j] = H<DT>::var("A" + str(Index(i)) + str(Index(j)), As[i][j]); }
      for(Index v = 0; v < nv; ++v) { DT x[3]; for(int d = 0; d < dim; ++d) x[d] = vs[v][d]; for(int i = 0; i < dim; ++i) { DT r = b[i]; for(int j = 0; j < dim; ++j) r += A[i][j] * x[j]; vs[v][i] = r; } }
    }
    // signed measure of a cell from its vertex list (times a shape constant that is the same for parent and children)
    auto measure = [&](const Mesh& m, Index c) {
      auto& vc = m.template get_index_set<dim, 0>(); auto& xs = m.get_vertex_set();
      if constexpr(dim == 2 && !cube) return det2<DT>(xs[vc(c, 0)], xs[vc(c, 1)], xs[vc(c, 2)]);
      else if constexpr(dim == 2 && cube) return DT((xs[vc(c, 3)][0] - xs[vc(c, 0)][0]) * (xs[vc(c, 2)][1] - xs[vc(c, 1)][1]) - (xs[vc(c, 3)][1] - xs[vc(c, 0)][1]) * (xs[vc(c, 2)][0] - xs[vc(c, 1)][0]));   // shoelace: diagonals 0-3 and 1-2
      else if constexpr(dim == 3 && !cube) return det3<DT>(xs[vc(c, 0)], xs[vc(c, 1)], xs[vc(c, 2)], xs[vc(c, 3)]);
      else return det3<DT>(xs[vc(c, 0)], xs[vc(c, 1)], xs[vc(c, 2)], xs[vc(c, 4)]);   // parallelepiped (affine family only)
    };
    // positivity of the parent: all corner determinants for a quadrilateral (convex cell), the measure otherwise
    auto corner = [&](const Mesh& m, Index c, int k) {
      auto& vc = m.template get_index_set<dim, 0>(); auto& xs = m.get_vertex_set();
      static const int nb[4][2] = {{1, 2}, {3, 0}, {0, 3}, {2, 1}};   // tensor numbering: counter-clockwise neighbours of corner k
      return det2<DT>(xs[vc(c, k)], xs[vc(c, nb[k][0])], xs[vc(c, nb[k][1])]);
    };
    DT vol = measure(mesh, 0);
    if constexpr(dim == 2 && cube) { for(int k = 0; k < 4; ++k) H<DT>::assume_lt(DT(0), corner(mesh, 0, k)); }
    else H<DT>::assume_lt(DT(0), vol);
    Geometry::StandardRefinery<Mesh> refinery(mesh); Mesh fine(refinery);
    const Index nc = fine.get_num_entities(dim);
    DT sum = DT(0);
    for(Index c = 0; c < nc; ++c)
    {
      DT v = measure(fine, c); sum += v;
      if constexpr(dim == 2 && cube) { for(int k = 0; k < 4; ++k) H<DT>::le("child " + str(c) + " corner " + str(Index(k)) + " is not inverted", DT(0), corner(fine, c, k)); }
      else H<DT>::le("child " + str(c) + " keeps positive orientation (measure >= parent/16 > 0)", vol, DT(16) * v);
    }
    H<DT>::eq("children measures add up to the parent measure", sum, vol);
    // coarse vertices keep position and number
    for(Index v = 0; v < nv; ++v) for(int d = 0; d < dim; ++d) H<DT>::eq("coarse vertex " + str(v) + " coordinate " + str(Index(d)) + " unchanged", fine.get_vertex_set()[v][d], mesh.get_vertex_set()[v][d]);
  });
  H<DT>::fact("completes", rc == 0, rc == 2 ? "memory fault" : "abort");
  H<DT>::end();
}

template<typename DT>
void run_all()
{
  refine_case<DT, Shape::Simplex<2>>("triangle", 0);
  refine_case<DT, Shape::Hypercube<2>>("quadrilateral", 0);
  refine_case<DT, Shape::Simplex<3>>("tetrahedron", 0);
  refine_case<DT, Shape::Hypercube<3>>("hexahedron", 1);
  refine_case<DT, Shape::Hypercube<2>>("quadrilateral", 1);
}

int main(int argc, char** argv)
{
  int na = argc;
  for(int i = 1; i < argc; ++i) if(std::string(argv[i]) == "--bounds" && i + 1 < argc) { g_level = atoi(argv[i + 1]); na = i; }
  return vh::main_dispatch(na, argv, [&] { run_all<vsym::SymReal>(); }, [&] {
#ifdef VH_REPLAY
    run_all<double>();
#endif
  });
}
