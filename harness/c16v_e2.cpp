// C16 (E2, voxel slice): the real voxel Poisson cell kernel (kernel/voxel_assembly/poisson_assembler.hpp, host/device-shared template)
// on ONE quadrilateral / hexahedron with symbolic vertex coordinates, compared entry by entry with the classic
// BilinearOperatorAssembler (Laplace operator, Lagrange2, same cubature rule) on a one-cell mesh.
#include "feat_helpers.hpp"
#include <kernel/geometry/conformal_mesh.hpp>
#include <kernel/geometry/reference_cell_factory.hpp>
#include <kernel/trafo/standard/mapping.hpp>
#include <kernel/space/lagrange2/element.hpp>
#include <kernel/cubature/dynamic_factory.hpp>
#include <kernel/assembly/symbolic_assembler.hpp>
#include <kernel/assembly/bilinear_operator_assembler.hpp>
#include <kernel/assembly/common_operators.hpp>
#include <kernel/voxel_assembly/poisson_assembler.hpp>
using namespace FEAT; using namespace vh;
static int g_level = 1;

// free: number of symbolic vertices (the last `free` vertices of the cell are symbolic, the others keep fixed rational positions)
template<typename DT, int dim>
void voxel_poisson_case(int nfree, const char* cub)
{
  typedef Shape::Hypercube<dim> ShapeT; typedef Geometry::ConformalMesh<ShapeT, dim, DT> Mesh; typedef Trafo::Standard::Mapping<Mesh> TrafoT; typedef Space::Lagrange2::Element<TrafoT> SpaceT;
  typedef VoxelAssembly::Q2StandardFE<ShapeT> VSpace; typedef VoxelAssembly::SpaceHelper<VSpace, DT, Index> SH;
  std::string cn = "voxel poisson kernel dim=" + str(Index(dim)) + " symbolic vertices=" + str(Index(nfree)) + " cubature=" + cub; if(!H<DT>::want(cn)) return;
  H<DT>::begin(cn, "{\"part\":\"voxel\"}");
  int rc = guarded([&] {
    Geometry::ReferenceCellFactory<ShapeT, DT> fac; Mesh mesh(fac);
    auto& vs = mesh.get_vertex_set(); const Index nv = mesh.get_num_entities(0);
    for(Index v = 0; v < nv; ++v) for(int d = 0; d < dim; ++d)
    {
      double ref = double(vs[v][d]); double sh = ref * (1.0 + 0.125 * d) + 0.09375 * double((v * 7 + Index(d) * 3) % 5) - 0.0625 * double((v + Index(d)) % 3) + 0.3 * d;
      vs[v][d] = (v + Index(nfree) >= nv) ? H<DT>::var("v" + str(v) + "_" + str(Index(d)), sh) : DT(sh);
    }
    TrafoT trafo(mesh); SpaceT space(trafo);
    Cubature::DynamicFactory cf(cub);
    LAFEM::SparseMatrixCSR<DT, Index> lap; Assembly::SymbolicAssembler::assemble_matrix_std1(lap, space); lap.format();
    Assembly::Common::LaplaceOperator lop; Assembly::BilinearOperatorAssembler::assemble_matrix1(lap, lop, space, cf);
    Dense<DT> A = csr_to_dense<DT>(lap);
    // the voxel kernel on the same cell
    Cubature::Rule<ShapeT, DT, DT, Tiny::Vector<DT, dim>> rule; cf.create_throw(rule);
    std::vector<Tiny::Vector<DT, dim>> pts; std::vector<DT> wts;
    for(int q = 0; q < rule.get_num_points(); ++q) { pts.push_back(rule.get_point(q)); wts.push_back(rule.get_weight(q)); }
    constexpr int nld = SpaceT::DofMappingType::dof_count;
    std::vector<Index> c2d; for(int i = 0; i < nld; ++i) c2d.push_back(Index(i));
    VoxelAssembly::IndexSetWrapper<Index> isw(c2d.data(), Index(nld));
    std::vector<Tiny::Vector<DT, dim>> verts; for(Index v = 0; v < nv; ++v) verts.push_back(vs[v]);
    Tiny::Matrix<DT, dim, SH::num_verts> coeffs; SH::set_coefficients(coeffs, isw, verts.data(), Index(0));
    Tiny::Matrix<DT, nld, nld> loc;
    VoxelAssembly::Kernel::poisson_assembly_kernel<SH, Tiny::Matrix<DT, nld, nld>, dim, SH::num_verts>(loc, coeffs, pts.data(), wts.data(), int(pts.size()));
    typename SpaceT::DofMappingType dm(space); dm.prepare(Index(0));
    for(int i = 0; i < nld; ++i) for(int j = 0; j < nld; ++j)
      H<DT>::eq("voxel kernel entry (" + str(Index(i)) + "," + str(Index(j)) + ") == classic Laplace assembly", loc(i, j), A[dm.get_index(i)][dm.get_index(j)]);
    dm.finish();
    H<DT>::witness("kernel entries depend on the geometry", loc(0, 0), loc(1, 1));
  });
  H<DT>::fact("completes", rc == 0, rc == 2 ? "memory fault" : "abort");
  H<DT>::end();
}

template<typename DT>
void run_all()
{
  voxel_poisson_case<DT, 2>(1, "gauss-legendre:2");
  voxel_poisson_case<DT, 2>(2, "gauss-legendre:2");
  if(g_level > 1) { voxel_poisson_case<DT, 2>(4, "gauss-legendre:3"); voxel_poisson_case<DT, 3>(1, "gauss-legendre:2"); }
}

int main(int argc, char** argv)
{
  int na = argc;
  for(int i = 1; i < argc; ++i) if(std::string(argv[i]) == "--bounds" && i + 1 < argc) { g_level = atoi(argv[i + 1]); na = i; }
  return vh::main_dispatch(na, argv, [&] { run_all<vsym::SymReal>(); }, [&] {
#ifdef VH_REPLAY
    run_all<double>();
#endif
  });
}
