#!/bin/sh
# run every registered quick (or $1) check on the current tree; summary on stdout
cd "$(dirname "$0")/.." || exit 1
TIER="${1:-quick}"
for id in $(python3-vt -c "import json; print(' '.join(c['property_id'] for c in json.load(open('MANIFEST.json'))['checks']))"); do
  s=$(date +%s); ./check $id $TIER > /tmp/run_all_$id.log 2>&1; rc=$?; e=$(date +%s)
  echo "$id exit=$rc $((e-s))s $(tail -1 /tmp/run_all_$id.log | cut -c1-160)"
done
python3-vt tools/validate_evidence.py | grep -v "^ok" 
