#!/bin/sh
# tools/seed_matrix.sh [ID ...]: run every kept seeded change (seeded/<ID>-<N>/patch.diff) against the quick check of its property;
# writes seeded/caught.json and prints one line per seed.  /repo is restored after every run.
cd "$(dirname "$0")/.." || exit 1
python3-vt - "$@" <<'PY'
import json, os, subprocess, sys, re
V = os.getcwd(); only = sys.argv[1:]
res = {}
p = os.path.join(V, 'seeded', 'caught.json')
if os.path.exists(p):
    res = json.load(open(p))
for d in sorted(os.listdir(os.path.join(V, 'seeded'))):
    m = re.fullmatch(r'(C\d\d)-(\d)', d)
    if not m or (only and m.group(1) not in only):
        continue
    pid, n = m.groups(); patch = os.path.join(V, 'seeded', d, 'patch.diff')
    if subprocess.run(['git', '-C', '/repo', 'apply', '--check', patch]).returncode != 0:
        res['%s:%s' % (pid, n)] = 'patch does not apply to the current tree'; continue
    subprocess.run(['git', '-C', '/repo', 'apply', patch], check=True)
    try:
        r = subprocess.run(['./check', pid, 'quick'], capture_output=True, text=True)
    finally:
        subprocess.run(['git', '-C', '/repo', 'checkout', '--', '.'], check=True)
    viol = [l for l in r.stdout.split('\n') if l.startswith('  ') and '#' in l][:1]
    res['%s:%s' % (pid, n)] = ('caught by ./check %s quick (exit %d): %s' % (pid, r.returncode, viol[0].strip()[:300] if viol else 'VIOLATION lines printed')) if r.returncode == 1 else ('NOT caught by ./check %s quick (exit %d)' % (pid, r.returncode))
    print(pid, n, res['%s:%s' % (pid, n)][:200], flush=True)
    json.dump(res, open(p, 'w'), indent=1, sort_keys=True)
PY
