#!/usr/bin/env python3
"""builds /verif/seeded/<ID>-<N>/ for every seeded change whose confirmation (tools/confirm_seed.sh, scratch worktree) succeeded:
patch.diff, the demonstration (source + outputs of MY runs on the unchanged and on the changed tree), meta.json"""
import json, os, re, shutil, sys
V = os.path.dirname(os.path.dirname(os.path.abspath(__file__)))
MUT = '/tmp/mut'
S = json.load(open(os.path.join(MUT, 'summaries.json')))
BASE = {p: 'd3f9bfc95' for p in ('C01', 'C02', 'C04', 'C06', 'C08', 'C09', 'C19', 'C20')}   # first batch was confirmed earlier, on an older commit of the fix series
CAUGHT = json.load(open(os.path.join(V, 'seeded', 'caught.json'))) if os.path.exists(os.path.join(V, 'seeded', 'caught.json')) else {}


def parse_confirm(pid, n):
    f = os.path.join(MUT, 'confirm', '%s_mut%s.txt' % (pid, n))
    if not os.path.exists(f):
        return None
    t = open(f).read()
    r = {'log': t}
    m = re.search(r'demo on unchanged tree: exit (\d+)', t); r['demo_clean'] = int(m.group(1)) if m else None
    m = re.search(r'build with change: exit (\d+)', t); r['build'] = int(m.group(1)) if m else None
    m = re.search(r'ctest with change[^:]*: exit (\d+)', t); r['ctest'] = int(m.group(1)) if m else None
    m = re.search(r'ctest rerun of failed tests \(serial\): exit (\d+)', t); r['ctest_rerun'] = int(m.group(1)) if m else None
    m = re.search(r'demo with change: exit (\d+)', t); r['demo_mut'] = int(m.group(1)) if m else None
    r['suite_ok'] = (r['ctest'] == 0) or (r['ctest_rerun'] == 0)
    r['confirmed'] = r['demo_clean'] == 0 and r['build'] == 0 and r['suite_ok'] and r['demo_mut'] not in (None, 0) and 'done' in t
    return r


def main():
    out = []
    for key in sorted(S):
        pid, n = key.split(':')
        c = parse_confirm(pid, n)
        d = os.path.join(V, 'seeded', '%s-%s' % (pid, n))
        if c is None or not c['confirmed']:
            out.append((key, 'NOT confirmed' if c else 'no confirmation run', c and {k: c[k] for k in c if k != 'log'}))
            if os.path.isdir(d):
                shutil.rmtree(d)
            continue
        os.makedirs(d, exist_ok=True)
        src = os.path.join(MUT, pid + '_out')
        shutil.copy(os.path.join(src, 'mut%s.diff' % n), os.path.join(d, 'patch.diff'))
        demo = os.path.join(src, 'demo%s.cpp' % n)
        shutil.copy(demo, os.path.join(d, 'demo.cpp'))
        for extra in S[key].get('demo_files', []):
            p = os.path.join(src, extra)
            if os.path.isfile(p) and os.path.getsize(p) < 200000 and extra.endswith(('.hpp', '.h', '.sh')):
                shutil.copy(p, os.path.join(d, os.path.basename(extra)))
        for suffix, name in (('clean.txt', 'demo.unchanged_tree.out'), ('mut.txt', 'demo.with_change.out')):
            p = os.path.join(MUT, 'confirm', '%s_demo%s.%s' % (pid, n, suffix))
            if os.path.exists(p):
                open(os.path.join(d, name), 'w').write(open(p, errors='replace').read()[-20000:])
        meta = {
            'property': pid, 'change': int(n), 'files_changed': S[key]['files_changed'], 'what': S[key]['what'], 'breaks': S[key]['breaks'],
            'needs_to_manifest': S[key]['needs_to_manifest'],
            'author': 'fresh sub-agent that saw only the property text and a scratch worktree of the repository',
            'what_i_ran': {
                'script': 'tools/confirm_seed.sh %s %s (scratch git worktree of /repo under /tmp at commit %s, removed afterwards)' % (pid, n, BASE.get(pid, '8247a5f2d')),
                'steps': ['demo.cpp compiled against the kernel libraries of the unchanged tree and run: exit %s' % c['demo_clean'],
                          'git apply patch.diff; cmake --build: exit %s' % c['build'],
                          'full existing suite (ctest, 121 tests): %s' % ('all passed' if c['ctest'] == 0 else 'parallel run had failures caused by concurrent ninja invocations of the test wrappers; serial rerun of those: all passed'),
                          'demo.cpp rebuilt against the changed tree and run: exit %s (see demo.with_change.out)' % c['demo_mut']],
                'demo_build': 'g++ -std=c++17 -O1 -DNDEBUG -w -I<tree> -I<tree>/_build demo.cpp -Wl,--start-group <all kernel/thirdparty .a of the build> -Wl,--end-group -lpthread' + (' (plus -fopenmp: the voxel assembly library uses OpenMP)' if pid == 'C16' else ''),
            },
            'check_result': CAUGHT.get(key, 'see seeded/RESULTS.md'),
        }
        json.dump(meta, open(os.path.join(d, 'meta.json'), 'w'), indent=1)
        out.append((key, 'confirmed', None))
    for o in out:
        print(o)


main()
