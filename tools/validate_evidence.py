#!/usr/bin/env python3
import json, sys, glob, os, jsonschema
V = os.path.dirname(os.path.dirname(os.path.abspath(__file__)))
sch = json.load(open('/root/.vp/EVIDENCE.schema.json'))
for f in sorted(glob.glob(os.path.join(V, 'evidence', '*.json'))):
    try:
        jsonschema.validate(json.load(open(f)), sch); print('ok ', f)
    except Exception as e:
        print('BAD', f, str(e)[:300])
