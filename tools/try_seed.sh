#!/bin/sh
# tools/try_seed.sh <patch> <property id> [tier]   -- apply a seeded change to /repo, run the check, undo the change
P="$1"; ID="$2"; TIER="${3:-quick}"
cd /repo || exit 9
git apply --check "$P" || { echo "PATCH DOES NOT APPLY: $P"; exit 9; }
git apply "$P"
cd /verif && ./check "$ID" "$TIER" > /tmp/try_seed_$$.log 2>&1; RC=$?
git -C /repo checkout -- .
echo "== $P on $ID ($TIER): exit $RC"; grep -E "^VIOLATION|^KNOWN|^MACHINERY|tier=" /tmp/try_seed_$$.log | head -6 | cut -c1-300; grep -A1 "^VIOLATION" /tmp/try_seed_$$.log | grep -v "^VIOLATION\|^--" | head -2 | cut -c1-400
rm -f /tmp/try_seed_$$.log
exit $RC
