#!/usr/bin/env python3
"""regenerates /verif/MANIFEST.json from the table below and validates it against the schema"""
import json, os, sys
V = os.path.dirname(os.path.dirname(os.path.abspath(__file__)))
ALL = ['C%02d' % i for i in range(1, 21)]

CHECKS = {
    'C01': dict(cat='other', engine='E2',
                technique='bounded symbolic execution of the real templates over a symbolic real scalar; z3 (NRA) decides result == dense product for all values',
                text='For every shape/pattern/aliasing/alpha configuration inside the bound the real SparseMatrix*::apply code is executed symbolically and z3 decides, over all real values, equality with an independent dense oracle and operand immutability. Bounded (shapes, nnz); real arithmetic (no rounding).',
                note='Trusted: g++ instantiation with SymReal, term DAG printer (shadow cross-check), z3 5.1.0, dense oracle. Assumes x not aliasing r, real arithmetic. Outside: rounding, MKL/CUDA, larger shapes.',
                ref='3/C01'),
    'C02': dict(cat='other', engine='E2+E3',
                technique='bounded symbolic execution of the real transpose/clone/convert/permute code over a symbolic real scalar for every pattern, clone mode, index-type pair and permutation in the bound (dense-expansion identities + layout validity); CSR transpose/clone/permute additionally with symbolic column indices and permutation arrays in an LLVM-IR symbolic executor, z3 bit-vectors deciding entry-wise equality and layout validity on every path',
                text='Every pattern (incl. entry-free, empty rows), clone mode (same and other index type), conversion chain CSR<->CSCR/Banded/BCSR/other index type, row/column permutation and DenseMatrix transpose target shape inside the bound is executed on the real classes with symbolic values; results must represent the same (transposed / permuted) matrix for all values with correct dimensions and valid layout; clone aliasing by pointer identity and write-through.',
                note='Trusted: SymReal instantiation, DAG printer, z3 5.1.0. Index arrays are concrete per swept pattern in the E2 part (exhaustive within the bound); in the E3 structural slice the column indices and the permutations are symbolic (row lengths concrete per profile), trusting the clang-14 IR and my executor (co-executed against an ASan native build each run). Three defects fixed (transpose of entry-free matrix; CSCR conversion with empty rows; meta matrix -> CSR conversion with an entry-free block). Outside: data-type conversions, chains longer than 2 (BCSR transpose is covered in the blocked slice of C03, BCSR clone / permute / index-type conversion here).',
                ref='3/C02'),
    'C03': dict(cat='other', engine='E2',
                technique='bounded symbolic execution of the real SparseMatrixCSR algebra over a symbolic real scalar; z3 (NRA) decides equality with the dense formula; abort reachability for rejected patterns',
                text='Every pattern configuration (operands and output pattern) in the bound is executed symbolically; z3 decides over all real values that the result equals the dense textbook formula restricted to the output pattern; incomplete required patterns must reach the abort. Blocked slice: BCSR<2,3> / <2,2> scale, axpy, norms, row norms, lump_rows, scale_rows/cols, transpose, extract_diag, BCSR double products against the dense expansion; DenseMatrix algebra (multiply overloads, invert, transpose), Banded and CSCR scale/axpy/norm/access.',
                note='Trusted: SymReal instantiation, DAG printer, z3 5.1.0, dense oracle. Real arithmetic; sorted duplicate-free layouts; Three defects found and fixed (scale_rows/scale_cols on an entry-free matrix; BCSR row_norm2; DenseMatrix::multiply read the uninitialised result). Outside: rounding, sqrt accuracy, BCSR mat-mat products and min/max, larger shapes.',
                ref='3/C03'),
    'C04': dict(cat='other', engine='E2',
                technique='bounded symbolic execution of the real vector classes over a symbolic real scalar; z3 (NRA) decides element-wise definitions for every aliasing pattern',
                text='Every vector kind (dense, blocked, tuple, power), size and aliasing pattern in the bound is executed symbolically; z3 decides over all real values that each result component equals the element-wise definition on the flattened data; min/max via inequalities + attainment for every ordering. Sparse vector slice: SparseVector and SparseVectorBlocked<2> built by every insertion sequence (repeated indices included): element access and min/max against the flattened definition.',
                note='Trusted: SymReal instantiation, DAG printer, z3 5.1.0. Real arithmetic (no rounding, no overflow); min/max only on non-empty vectors; sqrt as algebraic unknown. Three defects found and fixed (SparseVector / SparseVectorBlocked min/max reductions, SparseVectorBlocked insertion with reallocation). Outside: lengths beyond the bound.',
                ref='3/C04'),
    'C05': dict(cat='model_checking', engine='E3',
                technique='own IR symbolic executor on the real Container::_serialize/_deserialize and CheckpointControl collect/load/restore code with every stored value and index an arbitrary symbolic 64-bit pattern (sizes concrete, incl. zero-sized arrays); z3 decides bit-identity of everything read back; executor checks the offset arithmetic for bounds',
                text='Partial (stated): BINARY modes only. For DenseVector, DenseVectorBlocked<2>, SparseVector, CSR, CSCR, BCSR<2,2>, Banded, DenseMatrix of sizes 0..4 (length 0, entry-free, arbitrary row pointers) serialize -> deserialize returns identical sizes, scalars, values (bit-identical) and index arrays, with 64-bit and with 32-bit index type in the stream (indices < 2^32). Checkpoints with up to three objects and identifier lengths 1..30 are restored to the right object in a different order, directly and through the BinaryStream image read by the real load(BinaryStream&).',
                note='Trusted: clang-14 IR, irsym executor (validated against an ASan native build each run), z3 5.1.0. One defect found and fixed (serialising / shallow-copying any container with a zero-sized array aborted). NOT covered: MatrixMarket / exponent text modes (libstdc++ stream formatting and parsing is not in the IR) - the seeded change in the DenseMatrix mtx reader is NOT detected, and the MatrixMarket empty-row defect mentioned in the property text is not examined; float<->double stream conversion, compression, DistFileIO.',
                ref='3/C05'),
    'C06': dict(cat='other', engine='E2+E3',
                technique='bounded symbolic execution of the real filter classes over a symbolic real scalar; z3 (NRA) decides constraint, complement-untouched and idempotence identities; UnitFilter additionally with a symbolic constrained index set and symbolic matrix column indices in an LLVM-IR symbolic executor (z3 bit-vectors)',
                text='Every index-set configuration (insertion orders included) in the bound is executed symbolically on the real UnitFilter/UnitFilterBlocked/SlipFilter/MeanFilter/MeanFilterBlocked/FilterChain/FilterSequence/TupleFilter classes; z3 decides over all real vectors, prescribed values, normals and weights that constraints hold exactly, unconstrained entries are unchanged, second application is the identity, filtered matrix rows are unit rows.',
                note='Trusted: SymReal instantiation, DAG printer, z3 5.1.0. Real arithmetic; non-zero normals, positive mean-filter weights; ignore_nans off. In the E2 part index sets are swept concretely; in the E3 structural slice (UnitFilter on vectors and CSR matrices) the index set and the column indices are symbolic, trusting the clang-14 IR and my executor (co-executed against an ASan native build each run). Outside: global (MPI) filters, rounding.',
                ref='3/C06'),
    'C07': dict(cat='other', engine='E2',
                technique='bounded symbolic execution of the real IterativeSolver stopping logic and of real Richardson/PCG/BiCGStab/PCR objects over a symbolic real scalar; z3 decides status => predicate implications and reported-defect == true-residual identities',
                text='Partial (stated): (A) 12 scenarios drive the real stopping-criterion state machine to every status with symbolic tolerances/defects; z3 decides that each returned status implies its documented predicate under the recorded path conditions. (B) real solver objects on symbolic 2x2 (thorough 3x3) systems: final defect == |b-Ax| of the returned vector, rhs untouched, apply ignores / correct honours the start vector, repeated solves coincide (incl. stagnation-counter reset); the same for FGMRES, GMRES, BiCGStab(l), IDR(s), RGCR, PMR, PSD, PCGNR, each solve probed for reads of uninitialised work vectors.',
                note='Trusted: SymReal, DAG printer, z3 5.1.0, sqrt as algebraic unknown. Exact real arithmetic; iteration limit < n for Krylov methods (exact termination is degenerate). One defect found and fixed (BiCGStab(l) read an uninitialised work vector). Outside: convergence to reference solutions, conditioning, Chebyshev, the pipelined CG / RBiCGStab variants (Global::Vector only), rounding drift of recurrence residuals.',
                ref='3/C07'),
    'C08': dict(cat='other', engine='E2',
                technique='bounded symbolic execution of the real preconditioner objects over a symbolic real scalar; z3 (NRA) decides multiply-back identities against textbook operators and an independent dense ILU(p)',
                text='For every square pattern with diagonal (n<=3), fill level and omega, the factory-built Jacobi/SOR/SSOR/ILU(p)/polynomial/scale/diagonal preconditioners are executed symbolically; z3 decides the defining operator identity over all real matrix values and inputs, input immutability, filter-last, and freshness after init_numeric. Blocked slice: block SOR / SSOR / ILU(0) on SparseMatrixBCSR<2,2> (1..2 block rows, every block pattern) against the block textbook operators.',
                note='Trusted: SymReal instantiation, DAG printer, z3 5.1.0, dense ILU(p) oracle. Real arithmetic, non-zero pivots. Dense 3x3 ILU queries may be inconclusive in quick tier (reported). Two defects found and fixed in the BCSR variants (SSOR scaling, block ILU multiplication side). Outside: BCSR with other block sizes / ILU(p>0) on blocks, Schwarz/Uzawa/Vanka, rounding.',
                ref='3/C08'),
    'C09': dict(cat='other', engine='E2',
                technique='bounded symbolic execution of the real MultiGrid code with symbolic non-commuting 2x2 mock operands; result term == textbook recursion term (DAG identity or z3), event log == reference',
                text='For every discrete configuration in the bound (levels, cycle, smoother presence, coarse solver, adaptive CGC, sub-range, repeated apply) the real MultiGrid::apply is executed on symbolic operands; its result must equal the independent recursive V/F/W definition as a function of all operator entries and the defect, and the operator-application order must equal the reference log.',
                note='Trusted: SymReal, DAG hash-consing, z3 5.1.0, hand-written recursion oracle. Mock operands (template is generic); no ghost/MPI transfers; convergence rates outside.',
                ref='3/C09'),
    'C11': dict(cat='model_checking', engine='E3',
                technique='own IR symbolic executor (z3 bit-vectors, region memory) on Graph::serialize / Graph(buffer); round-trip equality per path; arbitrary symbolic buffers must be rejected or parsed inside the buffer',
                text='Narrow slice (stated): binary graph serialisation only. For every degree sequence in the bound and all symbolic index values the serialised buffer has the documented header and deserialises to the same graph; for arbitrary buffers of 0..N words with symbolic header fields the constructor either aborts or performs only in-bounds accesses and accepts only self-consistent buffers.',
                note='Trusted: clang-14 IR, irsym executor (validated by concrete co-execution vs ASan native build), z3 5.1.0. One defect found and fixed (out-of-bounds read for inconsistent counts). NOT covered: XmlScanner, MeshFileReader/Writer, PropertyMap, chart/partition parsers (std::string / iostream code has no IR; mutations there are not detected).',
                ref='3/C11'),
    'C10': dict(cat='model_checking', engine='E3+E2',
                technique='own IR symbolic executor on the real index-representative / congruency kernels (arbitrary 64-bit indices, z3 + cvc5 integer encoding) and on the real StandardRefinery / MeshPart refinery / mesh permutation for 1- and 2-cell meshes of every shape with symbolic entity orientation, cell rotation and permutation (solver-guided forking, all-SAT per path); oracles from the definition of a conforming refinement',
                text='Partial (stated): (1) IndexRepresentative gives congruent numberings of one edge/triangle/quadrilateral the same key and non-congruent ones different keys, CongruencySampler/Mapping codes describe the vertex and edge correspondence, for ALL distinct 64-bit indices. (2) For 1- and 2-cell meshes of quad/tria/hexa/tetra with one (thorough: two) sub-entities numbered in any congruent way and/or the last cell in any orientation preserving numbering, the refined mesh has the formula counts, consistent local faces, unique entities, 1/2 cells per facet, the Euler characteristic, and exactly the pattern children per coarse entity (parents identified by generic-position coordinates); refined parts map one-to-one onto children of their parents and commute with topology; custom mesh permutations keep mesh and part targets consistent; BoundaryFactory == closure of the facets with exactly one adjacent cell, and the boundary part refined alongside == boundary computed on the refined mesh. (3) E2 slice: one refinement step on one cell with symbolic vertex coordinates keeps the total volume, keeps coarse vertices, and every child positively oriented (general triangles, convex quadrilaterals, tetrahedra; affine hexahedra).',
                note='Trusted: clang-14 IR, irsym executor (validated against ASan native build each run), z3 5.1.0, cvc5 1.0 (--solve-bv-as-int=sum, unsat answers only), FaceIndexMapping tables as definition. NOT covered: larger meshes and shipped mesh files, deeper refinement, volume of general trilinear hexahedra, MaskedBoundaryFactory, topology deduction from vertex lists (only its key function), MeshNode/charts/adapt, 3D cell parts with topology (documented as not implemented: loud abort).',
                ref='3/C10'),
    'C12': dict(cat='model_checking', engine='E3',
                technique='own IR symbolic executor on the real RootMeshNode::extract_patch / refine_unique for every rank of a symbolic cell-to-rank assignment (solver-guided forking over all assignments without empty patch), on the real PatchHaloSplitter with fully symbolic 64-bit target indices (z3 oracle from the definition), and on Parti2Lvl with symbolic rank count',
                text='Partial (stated): on small meshes of all four shapes (incl. disconnected patches, vertex-only contacts in 2D and 3D) and 1..3 (thorough 4) ranks: every cell in exactly one patch, injective patch maps that pull back the base mesh, neighbour lists = patches sharing a vertex (symmetric, complete), the two halos of each pair list the same shared base entities in the same order and exactly the shared ones, also after one joint refinement (entities identified by vertex coordinates). PatchHaloSplitter (two-layer partitioning): for all symbolic child / halo target sets within the size profiles the created child halo is exactly the ordered list of parent-halo entities contained in both children. Parti2Lvl: exactly the requested number of non-empty patches on the lowest sufficient level, or failure iff no two-level partition exists, for every rank count <= 48 (64).',
                note='Trusted: clang-14 IR, irsym executor (rb-tree model for std::map, atomics with single-thread semantics; validated against an ASan native build each run), z3 5.1.0. Outside: MPI distribution, PartiDomainControl glue (only compiled with MPI), PartiIterative and external partitioners, PatchMeshPartSplitter for boundary parts, more than one joint refinement, larger meshes.',
                ref='3/C12'),
    'C13': dict(cat='other', engine='E2',
                technique='bounded symbolic execution of the real VectorMirror / TupleMirror / Gate templates on symbolic vectors, buffers and scaling factors for every ordered index list within the bound; gather/scatter, frequency and emulated-synchronisation identities decided by z3',
                text='Partial (stated): process-local building blocks only. For every ordered index list on vectors of length <= 3 (thorough 4), scalar and blocked, with buffer offsets: gather copies exactly the mirrored entries, scatter_axpy adds alpha*buffer exactly there; TupleMirror (2, 3 components) uses consistent buffer ranges; Gate::compile frequencies are 1/(1+#mirrors containing the dof) for dofs shared by up to 3 (4) neighbours, weighted dot and from_1_to_0 follow; an emulated sync of three patches around a cross point sums each shared dof exactly once; MatrixMirror (CSR, BCSR<2,3>) gather / scatter_axpy == mirrored part of the matrix.',
                note='Trusted: SymReal, z3 5.1.0. Single process with the serial Dist::Comm: the real message exchange (SynchVectorTicket, MPI), Global::Vector/Matrix/Filter/Transfer on several ranks, Muxer/Splitter, AlgDofParti and result equality between different partitionings of a real mesh are outside.',
                ref='3/C13'),
    'C14': dict(cat='other', engine='table dump + z3 LRA',
                technique='rule tables produced by executing the real factory code for every advertised name; z3 (exact LRA) searches a polynomial of degree <= nominal degree that is integrated wrongly',
                text='Weak fit, stated: the cubature code has no input besides the rule name, so it is executed completely for every advertised name (incl. refine/auto-degree prefixes, aliases); the symbolic part is the integrand: z3 decides in exact rational arithmetic that no polynomial of total degree <= nominal degree (coefficients in [-1,1]) has an integration error above 1e-11*sum|w|; unknown/out-of-range names must be refused.',
                note='Trusted: g++ build of the real headers, exact monomial moments, nominal degree table (from driver docs / property text), z3 5.1.0. Rules whose (points x monomials) cost exceeds the tier bound are not decided (count reported). Four table defects were found and repaired by fix: commits.',
                ref='3/C14'),
    'C15': dict(cat='other', engine='E2+E3',
                technique='bounded symbolic execution of the real element / trafo evaluators on one cell with symbolic vertices and evaluation point; identities incl. symbolic differentiation of the returned value terms decided by z3; plus own IR symbolic executor on the real DofMapping + Lagrange2/3 evaluators on two cells with symbolic numbering (solver-guided forking over all admissible orientations), continuity oracle on the shared facet',
                text='Partial (stated): one cell per shape (tria, quad, tetra, hexa; general and affine geometry), elements Lagrange1/2, Discontinuous P1, CroRav/RanTur, Bernstein2: partition of unity, J = dx/dxi, hess_ten = dJ/dxi, J*Jinv = I, J^T grad = d value/d xi, second-order chain rule for Hessians, simplex jac_det, and reproduction of symbolic local polynomials by the real interpolator (node functionals + dof mapping). E3 part: for Lagrange2 and Lagrange3 on two cells of every shape sharing a facet, with the second cell / the shared facet / its edges numbered in any admissible way, every global basis function has the same value on the facet seen from either cell and outside dofs vanish there (evaluators in IEEE double at 3 asymmetric points, tolerance 1e-11).',
                note='Trusted: SymReal, DAG differentiation in the driver, z3 5.1.0, clang-14 IR + irsym executor (validated against an ASan native build). E2 claims hold under recorded path conditions (pivoting) and positive orientation. Some second-order obligations on non-affine cells are inconclusive in the quick tier (listed). Outside: pointwise identities of Lagrange3 (constexpr DataType), Hermite3/Argyris/BFS/..., inverse mapping, continuity beyond 3 sample points and on non-affine cells.',
                ref='3/C15'),
    'C16': dict(cat='other', engine='E2',
                technique='bounded symbolic execution of the real assemblers (classic and DomainAssembler job route) on one cell with symbolic vertex coordinates; entry-wise identities and an independent closed-form Lagrange1 oracle decided by z3',
                text='Partial (stated): on one symbolic cell per shape the real SymbolicAssembler / BilinearOperatorAssembler / LinearFunctionalAssembler / DomainAssembler jobs are executed; z3 decides classic == job route, Laplace row sums = 0, symmetry, sum of mass entries = sum_q w_q detJ(x_q), alpha-scaled repeated assembly, and for Lagrange1 that every entry equals an independent cubature sum of the textbook integrand. "Equals the integral" = this identity composed with C14 (rule exactness). Voxel slice: the shared host/device cell kernel of the voxel Poisson assembler (Q2) on one non-affine quadrilateral (thorough: hexahedron) equals the classic Laplace assembly entry by entry. Burgers slice: assemble_matrix(w)*u == assemble_vector(w,u) (gradient and deformation tensor), scaled/repeated assembly, and blocked == scalar matrix with streamline diffusion for a convection field vanishing at a cell barycentre, for all symbolic fields and parameters on a 4-cell mesh.',
                note='Trusted: SymReal, z3 5.1.0, hand-written reference P1/Q1 basis + adjugate Jacobian inverse in the oracle. Several rational-function identities on general cells time out in the quick tier (inconclusive, listed). Outside: multi-cell scatter, the voxel assembler drivers around the cell kernel and the other voxel kernels (Burgers, defo), the Frechet term of the Burgers assembler, threaded routes (C17).',
                ref='3/C16'),
    'C17': dict(cat='model_checking', engine='E3',
                technique='own IR symbolic executor on the real DomainAssembler compile step with symbolic threading strategy and worker count (solver-guided forking over every value); partition / adjacency / two-layers-per-worker oracles per path',
                text='Partial (stated): for small quadrilateral meshes (strips, grids, L shape, disconnected, corner contact; all cells or a subset) the real graph / layer / thread-layer / colour builders are executed for every strategy and every requested worker count 0..10: no abort, every selected cell listed once, vertex-adjacent cells in consecutive layers resp. different colours, every worker owns >= 2 consecutive layers.',
                note='Trusted: clang-14 IR, irsym executor (validated against ASan native build), z3 5.1.0. One defect found and fixed (out_of_range for meshes with < 3 layer entries). NOT covered: thread interleavings, fence handshake, race freedom at run time, result equality (seeded change "fences not reset on repeated jobs" is not detected), the known one-worker XASSERT in _work_single (needs real threads).',
                ref='3/C17'),
    'C18': dict(cat='other', engine='E2',
                technique='bounded symbolic execution of the real refinery + GridTransfer assembly on one coarse simplex from a 1-3 parameter symbolic affine family; z3 decides interpolation-matrix, transpose and matrix-free identities',
                text='Partial, restricted (stated): one coarse triangle (thorough: tetrahedron) refined by the real StandardRefinery; Lagrange1 / Discontinuous P0,P1 (thorough: Lagrange2): prolongation rows sum to 1, Lagrange1 entries equal the coarse basis values at fine nodes, restriction = transpose, LAFEM::Transfer prol/rest/trunc and matrix-free prolongation equal the assembled matrices for all vectors; with the fine and/or the coarse mesh renumbered by a mesh permutation the P1 prolongation (assembled and matrix-free) still reproduces every affine function at the fine vertices.',
                note='Trusted: SymReal, z3 5.1.0. Pivoted symbolic inversion limits the geometry to <= 3 free parameters; T*P = I is only true up to the rounding of the cubature tables and is not claimed. Outside: quadrilaterals/hexahedra, general vertices, multi-level / global / muxed transfer, the control-layer assembly (Control::Asm::asm_transfer*).',
                ref='3/C18'),
    'C19': dict(cat='model_checking', engine='E3',
                technique='own symbolic executor over the clang-14 LLVM IR of the real adjacency sources (z3 bit-vectors, region memory, path forking); set/multiset oracles decided by z3 per path; memory safety and leak checks by the executor',
                text='For every shape profile in the bound (domain/image sizes, degree sequence) all index values, permutation entries and orders are symbolic 64-bit values; the real Graph render (all 8 types, single and composite), sort, degree, permuted copy, Permutation (all representations, apply, inverse, concat), Coloring (+partition graph) and CuthillMcKee (all root/sort/reverse options) code is executed symbolically on every feasible path; each access is bounds/liveness checked, heap must be freed, and z3 decides the definition of the operation.',
                note='Trusted: clang-14 -O1 IR, irsym executor and memory model (concrete co-execution against an ASan native build each run), z3 5.1.0, oracles. Colouring/CM on symmetric relations. Four defects found and fixed (sort_indices on index-free graph, CM root selection x2, CM overwrite on multi-component graphs). Outside: sizes beyond the bound, DynamicGraph.',
                ref='3/C19'),
    'C20': dict(cat='model_checking', engine='E3',
                technique='own IR symbolic executor on the real MemoryPool / Container / DenseVector / SparseMatrixCSR / SparseLayout code with symbolic operation codes; region liveness checks + z3 reference-count oracle',
                text='Partial (stated): every bounded history of pool operations (allocate/increase/release), DenseVector lifetime operations (construct, clone in every mode, clear, move, range view, convert, write) and CSR/layout operations (share layout, move-construct / move-assign layout, clone, clear, move) is a path of the symbolic execution; each access is checked for bounds and liveness (use after free, double free, release of unknown address = abort), pool size follows the reference-count model after each step, and the pool is empty when all containers are gone.',
                note='Trusted: clang-14 IR, irsym executor, BST model of the 4 out-of-line rb-tree primitives of std::map, allocation-order address model, z3 5.1.0; interpreter validated against an ASan native build each run. API preconditions of range views are respected by the driver. One defect found and fixed (SparseLayout move assignment leak). Outside: other container kinds, conversions between data types, histories longer than the bound.',
                ref='3/C20'),
}
NA_REASON = {}


def main():
    checks = []
    for pid in ALL:
        if pid not in CHECKS:
            continue
        c = CHECKS[pid]
        checks.append({
            'property_id': pid,
            'quick_cmd': './check %s quick' % pid,
            'thorough_cmd': './check %s thorough' % pid,
            'evidence_file': 'evidence/%s.json' % pid,
            'replay_cmd_template': 'cat {path}',
            'engine': c['engine'],
            'level_claimed': {'category': c['cat'], 'text': c['text'], 'design_ref': 'DESIGN.md section ' + c['ref']},
            'level_note': c['note'],
            'technique': c['technique'],
        })
    na = [{'property_id': p, 'reason': NA_REASON.get(p, 'check not built yet in this session (planned, see DESIGN.md section 3); no claim is made')} for p in ALL if p not in CHECKS]
    m = {
        'version': 1,
        'setup_cmd': 'true',
        'hooks': {'guard': 'FEAT3_VERIF', 'enable': 'none needed: harnesses include /repo headers and compile /repo .cpp files directly with -DFEAT3_VERIF; no source hooks exist in /repo',
                  'baseline_off_cmd': 'cd /repo && cmake --build _build && ctest --test-dir _build -j8 --timeout 900', 'source_commits': [], 'add_only': True},
        'engines': [
            {'name': 'E2', 'path': 'e2/ vlib/e2.py', 'serves_properties': sorted(p for p in CHECKS if 'E2' in CHECKS[p]['engine']), 'kind_free_text': 'source-level symbolic execution over a symbolic real scalar (SymReal) + z3-new NRA'},
            {'name': 'E3', 'path': 'ir/', 'serves_properties': sorted(p for p in CHECKS if 'E3' in CHECKS[p]['engine']), 'kind_free_text': 'own symbolic executor over clang-14 LLVM IR with z3 bit-vectors and region memory'},
            {'name': 'E1', 'path': 'ir/', 'serves_properties': sorted(p for p in CHECKS if 'E1' in CHECKS[p]['engine']), 'kind_free_text': 'clang IR -> C (ll2c) -> CBMC 6.11 + cadical'},
        ],
        'checks': checks,
        'not_applicable': na,
        'notes': 'All checks are bounded solver-based checks of the real code regenerated from /repo on every run; see DESIGN.md. Exit 2 = machinery error (not a verdict).',
    }
    with open(os.path.join(V, 'MANIFEST.json'), 'w') as f:
        json.dump(m, f, indent=1)
    try:
        import jsonschema
        jsonschema.validate(m, json.load(open('/root/.vp/MANIFEST.schema.json')))
        print('MANIFEST.json valid,', len(checks), 'checks,', len(na), 'not applicable')
    except ImportError:
        print('jsonschema not available; not validated')


if __name__ == '__main__':
    main()
