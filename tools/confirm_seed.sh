#!/bin/sh
# tools/confirm_seed.sh <PID> <N>: confirm a seeded change in the scratch worktree /tmp/wt_base (never in /repo):
#  1. demo passes on the unchanged tree, 2. patch applies, everything affected rebuilds, the full existing suite passes,
#  3. demo fails with the patch.  Result summary in /tmp/mut/confirm/<PID>_mut<N>.txt
PID="$1"; N="$2"; WT="${WT:-/tmp/wt_base}"; OUT=/tmp/mut/confirm/${PID}_mut${N}.txt; D=/tmp/mut/${PID}_out
JOBS="${JOBS:-6}"
build_demo() { g++ -std=c++17 -O1 -DNDEBUG -w -I$WT -I$WT/_build $D/demo$N.cpp -Wl,--start-group $(find $WT/_build/kernel $WT/_build/thirdparty -name '*.a' 2>/dev/null) -Wl,--end-group -lpthread -o /tmp/mut/confirm/${PID}_demo$N 2>/tmp/mut/confirm/${PID}_demo$N.err; }
{
echo "seed $PID mut$N  $(date)"
cd $WT && git checkout -q -- . && git status --short | grep -v _build
build_demo && /tmp/mut/confirm/${PID}_demo$N > /tmp/mut/confirm/${PID}_demo$N.clean.txt 2>&1; echo "demo on unchanged tree: exit $?"
git apply $D/mut$N.diff || { echo "PATCH FAILED"; exit 1; }
cmake --build _build -j $JOBS > /tmp/mut/confirm/${PID}_mut$N.build.log 2>&1; echo "build with change: exit $?"
ctest --test-dir _build -j $JOBS --timeout 900 > /tmp/mut/confirm/${PID}_mut$N.ctest.log 2>&1; RC=$?; echo "ctest with change (parallel): exit $RC"; grep "tests passed\|tests failed" /tmp/mut/confirm/${PID}_mut$N.ctest.log
if [ $RC -ne 0 ]; then
  # the suite's tests call ninja at run time; parallel runs occasionally race on the ninja log: re-run the failed ones serially
  ctest --test-dir _build --rerun-failed --timeout 900 > /tmp/mut/confirm/${PID}_mut$N.ctest2.log 2>&1; echo "ctest rerun of failed tests (serial): exit $?"; grep "tests passed\|tests failed" /tmp/mut/confirm/${PID}_mut$N.ctest2.log
fi
build_demo && /tmp/mut/confirm/${PID}_demo$N > /tmp/mut/confirm/${PID}_demo$N.mut.txt 2>&1; echo "demo with change: exit $?"
tail -3 /tmp/mut/confirm/${PID}_demo$N.mut.txt
git checkout -q -- .
echo "done $(date)"
} > $OUT 2>&1
