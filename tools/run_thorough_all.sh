#!/bin/sh
# run every registered thorough check once on the current tree; summary on stdout (evidence files are overwritten: re-run tools/run_all.sh quick afterwards)
cd "$(dirname "$0")/.." || exit 1
exec tools/run_all.sh thorough
