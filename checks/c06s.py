"""C06 structural slice (E3): the real UnitFilter with SYMBOLIC constrained index sets"""
import itertools, os, struct
import z3
from vlib import common as C, e3
from ir import irsym
from checks.c19 import B64, sig

REPO_SRCS = ['kernel/util/memory_pool.cpp', 'kernel/backend.cpp']
NO = 16
SIGS = {
    'w_unit_vec': sig('w_unit_vec', [('i32', 'op'), ('u64', 'n'), ('u64', 'used'), ('in', 'fvals', 8), ('in', 'fidx', 8), ('in', 'vec', 8), ('out', 'out', NO, 8)]),
    'w_unit_mat': sig('w_unit_mat', [('i32', 'op'), ('u64', 'n'), ('u64', 'used'), ('in', 'fvals', 8), ('in', 'fidx', 8), ('u64', 'nnz'), ('in', 'rowptr', 8), ('in', 'colind', 8), ('in', 'vals', 8), ('out', 'out', NO, 8)]),
}
VOPS = {0: 'filter_rhs', 1: 'filter_sol', 2: 'filter_def', 3: 'filter_cor', 4: 'filter_rhs twice', 5: 'filter_def after filter_rhs'}
MOPS = {0: 'filter_mat', 1: 'filter_offdiag_row_mat', 2: 'filter_mat twice'}
ONE = struct.unpack('<Q', struct.pack('<d', 1.0))[0]


def cell(x):
    """output cell as a 64-bit term (a concrete floating-point cell is given by its IEEE bit pattern)"""
    return B64(struct.unpack('<Q', struct.pack('<d', x))[0]) if isinstance(x, float) else B64(x)


def vec_oracle(op, n, fidx, fvals, vec):
    def oracle(get, rv, st, ex):
        o = lambda i: cell(get('out', i))
        cs = []; un = []
        for p in range(n):
            hit = [fidx[k] == p for k in range(len(fidx))]
            want = B64(vec[p])
            for k in reversed(range(len(fidx))):
                want = z3.If(hit[k], (B64(fvals[k]) if op in (0, 1, 4) else z3.BitVecVal(0, 64)), want)
            isc = z3.Or(*hit) if hit else z3.BoolVal(False)
            cs.append(z3.Implies(isc, o(p) == want)); un.append(z3.Implies(z3.Not(isc), o(p) == B64(vec[p])))
        return [('every constrained entry holds the prescribed value (rhs/sol) resp. +0.0 (def/cor), for all index sets', z3.And(*cs) if cs else True),
                ('every unconstrained entry keeps its 64-bit pattern, for all index sets', z3.And(*un) if un else True)]
    return oracle


def mat_oracle(op, n, fidx, rp, ci, vals):
    nnz = len(ci)

    def oracle(get, rv, st, ex):
        o = lambda i: cell(get('out', i))
        cs = []; un = []; lay = []
        for i in range(n):
            isc = z3.Or(*[x == i for x in fidx]) if fidx else z3.BoolVal(False)
            for k in range(rp[i], rp[i + 1]):
                unit = z3.If(ci[k] == i, z3.BitVecVal(ONE, 64), z3.BitVecVal(0, 64)) if op != 1 else z3.BitVecVal(0, 64)
                cs.append(z3.Implies(isc, o(k) == unit)); un.append(z3.Implies(z3.Not(isc), o(k) == B64(vals[k])))
                lay.append(o(nnz + k) == B64(ci[k]))
        return [('constrained rows are unit rows (1.0 on the stored diagonal, +0.0 elsewhere) resp. null rows, for all index sets and column indices', z3.And(*cs) if cs else True),
                ('rows of unconstrained indices keep their 64-bit patterns', z3.And(*un) if un else True),
                ('the column index array is unchanged', z3.And(*lay) if lay else True)]
    return oracle


def filt(n, used):
    fidx = [z3.BitVec('fi%d' % k, 64) for k in range(used)]; fvals = [z3.BitVec('fv%d' % k, 64) for k in range(used)]
    base = [z3.ULT(x, n) for x in fidx] + [z3.ULT(fidx[k], fidx[k + 1]) for k in range(used - 1)]
    return fidx, fvals, base


def jobs(quick):
    js = []
    nmax = 4 if quick else 6
    for n in range(1, nmax + 1):
        for used in range(0, n + 1):
            fidx, fvals, base = filt(n, used)
            vec = [z3.BitVec('x%d' % i, 64) for i in range(n)]
            for op in VOPS:
                inp = {'op': op, 'n': n, 'used': used, 'fvals': fvals or [0], 'fidx': fidx or [0], 'vec': vec, 'out': NO}
                js.append(('unit filter %s, length %d, %d constrained entries with symbolic (sorted, distinct) indices' % (VOPS[op], n, used), 'w_unit_vec', inp, base, vec_oracle(op, n, fidx, fvals, vec), {}))
    for n in range(1, 4):
        maxnnz = 4 if quick else 6
        for lens in itertools.product(range(n + 1), repeat=n):
            nnz = sum(lens)
            if nnz == 0 or nnz > maxnnz:
                continue
            rp = [0]
            for l in lens:
                rp.append(rp[-1] + l)
            ci = [z3.BitVec('col%d' % k, 64) for k in range(nnz)]; vals = [z3.BitVec('a%d' % k, 64) for k in range(nnz)]
            cbase = [z3.ULT(x, n) for x in ci]
            for i in range(n):
                cbase += [z3.ULT(ci[k], ci[k + 1]) for k in range(rp[i], rp[i + 1] - 1)]
            for used in range(0, n + 1):
                fidx, fvals, base = filt(n, used)
                for op in MOPS:
                    inp = {'op': op, 'n': n, 'used': used, 'fvals': fvals or [0], 'fidx': fidx or [0], 'nnz': nnz, 'rowptr': rp, 'colind': ci, 'vals': vals, 'out': NO}
                    js.append(('unit filter %s, %dx%d CSR with row lengths %s (symbolic column indices, rows may lack the diagonal), %d constrained rows with symbolic indices' % (MOPS[op], n, n, list(lens), used),
                               'w_unit_mat', inp, base + cbase, mat_oracle(op, n, fidx, rp, ci, vals), {}))
    return js


def build(bdir):
    wrapper = os.path.join(C.VERIF, 'wrappers', 'c06_unit.cpp')
    mod, info = e3.build_ir('c06s', wrapper, REPO_SRCS, bdir)
    native = e3.Native('c06s', wrapper, REPO_SRCS, bdir, list(SIGS.values()))
    return mod, native, info
