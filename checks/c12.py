"""C12 (partial): RootMeshNode::extract_patch for every rank of a SYMBOLIC cell-to-rank assignment on small meshes, one joint refinement,
pairwise halo agreement; Parti2Lvl with symbolic rank count (E3: IR symbolic execution, z3)"""
import os, itertools
import z3
from vlib import common as C, e3, e3run
from ir import irsym
from checks.c19 import B64, sig
from checks.c10 import Topo, Tables, SHAPES, nverts, nfaces, unflatten, all_models, cval

REPO_SRCS = ['kernel/adjacency/graph.cpp', 'kernel/adjacency/permutation.cpp', 'kernel/adjacency/coloring.cpp', 'kernel/adjacency/cuthill_mckee.cpp']
MAXO = 9000
SIGS = {
    'w_tables': sig('w_tables', [('i32', 'shape'), ('out', 'out', 3 * 16 * 8, 8)]),
    'w_extract': sig('w_extract', [('i32', 'shape'), ('in', 'cnt', 8), ('in', 'data', 8), ('u64', 'nranks'), ('in', 'rank_of_elem', 8), ('out', 'out', MAXO, 8), ('out', 'out2', MAXO, 8)]),
    'w_halo_split': sig('w_halo_split', [('i32', 'shape'), ('in', 'cntP', 8), ('in', 'cntQ', 8), ('in', 'c1cnt', 8), ('in', 'c1trg', 8), ('in', 'c2cnt', 8), ('in', 'c2trg', 8), ('in', 'hcnt', 8), ('in', 'h1trg', 8), ('in', 'h2trg', 8),
                                         ('out', 'ocnt', 4, 8), ('out', 'otrg', 16, 8)]),
    'w_parti2lvl': sig('w_parti2lvl', [('i32', 'shape'), ('u64', 'ncells'), ('u64', 'nranks'), ('out', 'olvl', 1, 8), ('out', 'ond', 1, 8), ('out', 'oni', 1, 8), ('out', 'optr', 70, 8), ('out', 'oidx', 800, 8)]),
}
NONE = (1 << 64) - 1


def grid2(nx, ny):
    v = lambda a, b: b * (nx + 1) + a
    return [[v(i, j), v(i + 1, j), v(i, j + 1), v(i + 1, j + 1)] for j in range(ny) for i in range(nx)], (nx + 1) * (ny + 1)


def grid3(nx, ny, nz):
    v = lambda a, b, c: (c * (ny + 1) + b) * (nx + 1) + a
    return [[v(i + (q & 1), j + ((q >> 1) & 1), k + (q >> 2)) for q in range(8)] for k in range(nz) for j in range(ny) for i in range(nx)], (nx + 1) * (ny + 1) * (nz + 1)


def cubes(origins):
    ids = {}
    cells = []
    for (i, j, k) in origins:
        cells.append([ids.setdefault((i + (q & 1), j + ((q >> 1) & 1), k + (q >> 2)), len(ids)) for q in range(8)])
    return cells, len(ids)


def meshes(tab, quick):
    out = []
    c, n = grid2(2, 2); out.append(('2x2 quadrilaterals', Topo(0, c, n, tab)))
    c, n = grid2(3, 1); out.append(('3x1 quadrilaterals', Topo(0, c, n, tab)))
    out.append(('two quadrilaterals touching in one vertex plus a bridge cell', Topo(0, [[0, 1, 2, 3], [3, 4, 5, 6], [1, 7, 3, 4]], 8, tab)))
    out.append(('four triangles around a vertex', Topo(1, [[0, 1, 4], [1, 2, 4], [2, 3, 4], [3, 0, 4]], 5, tab)))
    c, n = grid3(2, 2, 1); out.append(('2x2x1 hexahedra', Topo(2, c, n, tab)))
    out.append(('three tetrahedra', Topo(3, [[0, 1, 2, 3], [1, 2, 3, 4], [2, 3, 4, 5]], 6, tab)))
    out.append(('three tetrahedra with a vertex-only contact', Topo(3, [[0, 1, 2, 3], [1, 2, 3, 4], [3, 4, 5, 6]], 7, tab)))
    c, n = cubes([(0, 0, 0), (1, 0, 0), (1, 1, 1)]); out.append(('three hexahedra with a vertex-only contact', Topo(2, c, n, tab)))
    if not quick:
        c, n = grid2(3, 2); out.append(('3x2 quadrilaterals', Topo(0, c, n, tab)))
        c, n = grid3(3, 2, 1); out.append(('3x2x1 hexahedra', Topo(2, c, n, tab)))
        out.append(('four tetrahedra', Topo(3, [[0, 1, 2, 3], [1, 2, 3, 4], [2, 3, 4, 5], [3, 4, 5, 6]], 7, tab)))
    return out


def closure(topo, cells):
    """entities (by dimension) that are sub-entities of the given cells"""
    D = topo.D
    cl = {D: sorted(cells)}
    for d in range(1, D):
        cl[d] = sorted(set(x for c in cells for x in topo.idx[(D, d)][c]))
    cl[0] = sorted(set(v for c in cells for v in topo.idx[(D, 0)][c]))
    return cl


class Stream:
    def __init__(self, get, nm, cv):
        self.get, self.nm, self.cv, self.p = get, nm, cv, 0

    def take(self, n=1):
        r = [self.cv(self.get(self.nm, self.p + k)) for k in range(n)]; self.p += n
        return r


def extract_report(topo, nranks, assign, S1, S2):
    """assign: list rank per cell (concrete); returns list of (label, bool)"""
    kind, D = topo.kind, topo.D
    P = []
    R = []
    for r in range(nranks):
        ncomm = S1.take()[0]
        if ncomm > nranks:
            return [('neighbour list is well formed', False)]
        comm = S1.take(ncomm)
        pmc = S1.take(D + 1); ppc = S1.take(D + 1)
        if pmc != ppc or any(x > topo.cnt[d] for d, x in enumerate(pmc)):
            return [('patch mesh and patch mesh part have the same entity counts', False)]
        T = [S1.take(ppc[d]) for d in range(D + 1)]
        total = sum(pmc[d2] * (nverts(kind, d2) if d1 == 0 else nfaces(kind, d2, d1)) for d2 in range(1, D + 1) for d1 in range(d2))
        pidx, _ = unflatten(kind, D, pmc, S1.take(total))
        co = S1.take(pmc[0])
        halos = {}
        for s in comm:
            hc = S1.take(D + 1)
            if hc[0] == NONE:
                S1.p -= D; halos[s] = None; continue
            if any(x > pmc[d] for d, x in enumerate(hc)):
                return [('halo counts are bounded by the patch', False)]
            halos[s] = [S1.take(hc[d]) for d in range(D + 1)]
        # stream 2
        fc = S2.take(D + 1)
        ftotal = sum(fc[d2] * (nverts(kind, d2) if d1 == 0 else nfaces(kind, d2, d1)) for d2 in range(1, D + 1) for d1 in range(d2))
        if ftotal > 20000:
            return [('fine patch counts are sane', False)]
        fidx, _ = unflatten(kind, D, fc, S2.take(ftotal))
        fco = S2.take(fc[0])
        fh = {}
        for s in comm:
            hc = S2.take(D + 1)
            if hc[0] == NONE:
                S2.p -= D; fh[s] = None; continue
            if any(x > fc[d] for d, x in enumerate(hc)):
                return [('fine halo counts are bounded by the fine patch', False)]
            fh[s] = [S2.take(hc[d]) for d in range(D + 1)]
        R.append(dict(comm=comm, cnt=pmc, T=T, idx=pidx, co=co, halos=halos, fc=fc, fidx=fidx, fco=fco, fh=fh))
    cells_of = [[c for c in range(topo.cnt[D]) if assign[c] == r] for r in range(nranks)]
    cl = [closure(topo, cells_of[r]) for r in range(nranks)]
    # A: every cell in exactly one patch
    allc = sorted(c for r in range(nranks) for c in R[r]['T'][D])
    P.append(('every cell of the base mesh belongs to exactly one patch', allc == list(range(topo.cnt[D]))))
    P.append(('patch r contains exactly the cells assigned to rank r', all(sorted(R[r]['T'][D]) == cells_of[r] for r in range(nranks))))
    # B: injective, closure
    P.append(('patch entities map injectively into the base mesh', all(len(set(R[r]['T'][d])) == len(R[r]['T'][d]) for r in range(nranks) for d in range(D + 1))))
    P.append(('patch entities are exactly the sub-entities of the patch cells', all(sorted(R[r]['T'][d]) == cl[r][d] for r in range(nranks) for d in range(D + 1))))
    okB = all(sorted(R[r]['T'][d]) == cl[r][d] for r in range(nranks) for d in range(D + 1))
    if not okB:
        return P
    # C: patch mesh is the base mesh pulled back
    okC = True
    for r in range(nranks):
        T = R[r]['T']
        for (d2, d1), rows in R[r]['idx'].items():
            for i, row in enumerate(rows):
                okC = okC and all(0 <= x < len(T[d1]) for x in row) and [T[d1][x] for x in row] == list(topo.idx[(d2, d1)][T[d2][i]])
        okC = okC and all(R[r]['co'][v] == 8 * (1 << T[0][v]) for v in range(len(T[0])))
    P.append(('patch mesh index sets and vertex coordinates are those of the base mesh under the patch map', okC))
    # D: neighbours
    okD = True
    for r in range(nranks):
        want = sorted(s for s in range(nranks) if s != r and set(cl[r][0]) & set(cl[s][0]))
        okD = okD and sorted(R[r]['comm']) == want and len(set(R[r]['comm'])) == len(R[r]['comm'])
    P.append(('neighbour ranks are exactly the patches sharing at least one vertex (symmetric, complete)', okD))
    if not okD or not okC:
        return P
    # E: halos
    okE1, okE2, okE3 = True, True, True
    for r in range(nranks):
        for s in R[r]['comm']:
            hr, hs = R[r]['halos'].get(s), R[s]['halos'].get(r)
            if hr is None or hs is None:
                okE1 = False; continue
            for d in range(D + 1):
                if any(t >= len(R[r]['T'][d]) for t in hr[d]) or any(t >= len(R[s]['T'][d]) for t in hs[d]):
                    okE1 = False; continue
                br = [R[r]['T'][d][t] for t in hr[d]]; bs = [R[s]['T'][d][t] for t in hs[d]]
                okE2 = okE2 and br == bs
                okE3 = okE3 and sorted(br) == sorted(set(cl[r][d]) & set(cl[s][d])) and len(set(br)) == len(br)
    P.append(('a halo exists for every neighbour and refers to patch entities', okE1))
    P.append(('the halos of r towards s and of s towards r list the same base entities in the same order', okE2))
    P.append(('a halo consists of exactly the entities shared by the two patches, each once', okE3))
    # F: after one joint refinement (fine entities identified by the coordinates of their vertices)
    okF1, okF2, okF3 = True, True, True
    keys = []
    for r in range(nranks):
        fr = R[r]
        k = {0: [frozenset([c]) for c in fr['fco']]}
        ok = len(set(fr['fco'])) == len(fr['fco'])
        for d in range(1, D + 1):
            if any(v >= fr['fc'][0] for row in fr['fidx'][(d, 0)] for v in row):
                ok = False; break
            k[d] = [frozenset(fr['fco'][v] for v in row) for row in fr['fidx'][(d, 0)]]
        okF1 = okF1 and ok
        keys.append(k)
    if okF1:
        for r in range(nranks):
            for s in R[r]['comm']:
                hr, hs = R[r]['fh'].get(s), R[s]['fh'].get(r)
                if hr is None or hs is None:
                    okF2 = False; continue
                for d in range(D + 1):
                    if any(t >= len(keys[r][d]) for t in hr[d]) or any(t >= len(keys[s][d]) for t in hs[d]):
                        okF2 = False; continue
                    gr = [keys[r][d][t] for t in hr[d]]; gs = [keys[s][d][t] for t in hs[d]]
                    okF2 = okF2 and gr == gs
                    okF3 = okF3 and set(gr) == (set(keys[r][d]) & set(keys[s][d])) and len(set(gr)) == len(gr)
    P.append(('refined patches have pairwise distinct vertices', okF1))
    P.append(('after joint refinement the two halos of a pair still list the same entities in the same order', okF2))
    P.append(('after joint refinement a halo is exactly the set of entities the two refined patches share', okF3))
    return P


def extract_oracle(topo, nranks, rvars):
    def oracle(get, rv, st, ex):
        symvars = [x for x in rvars if irsym.is_sym(x)]
        mods = all_models(ex, st, symvars)
        props = []
        for mdl in mods:
            tagp = z3.Not(z3.And(*[x == mdl.eval(x, model_completion=True) for x in symvars])) if (mdl is not None and symvars) else False
            cv = (lambda x: cval(x, mdl)) if mdl is not None else (lambda x: x)
            if mdl is not None or not symvars:
                assign = [cv(x) for x in rvars]
            else:
                assign = list(oracle.native_inputs['rank_of_elem'])
            try:
                rep = extract_report(topo, nranks, assign, Stream(get, 'out', cv), Stream(get, 'out2', cv))
            except IndexError:
                rep = [('output streams are well formed', False)]
            for lab, ok in rep:
                props.append((lab, True if ok else tagp))
        merged = {}
        for lab, pr in props:
            merged.setdefault(lab, []).append(pr)
        out = []
        for lab, prs in merged.items():
            bad = [q for q in prs if q is not True]
            out.append((lab, True if not bad else (bad[0] if len(bad) == 1 else z3.And(*[q if irsym.is_sym(q) else z3.BoolVal(bool(q)) for q in bad]))))
        return out
    oracle.native_inputs = None
    return oracle


def extract_jobs(tab, quick):
    jobs = []
    for (mname, topo) in meshes(tab, quick):
        nc = topo.cnt[topo.D]
        for nranks in range(1, min(nc, 3 if (quick or nc > 4) else 4) + 1):
            # split the assignment space: the ranks of the first cells are fixed per job, the rest is symbolic
            nfix = max(0, nc - (2 if quick else 3)) if nranks > 1 else nc
            for fixed in itertools.product(range(nranks), repeat=nfix):
                # canonical: ranks appear in order of first use among the fixed cells (the code does not depend on rank names? it does: keep all)
                rv = list(fixed) + [z3.BitVec('rank_of_cell_%d' % c, 64) for c in range(nfix, nc)]
                base = [z3.ULT(x, nranks) for x in rv if irsym.is_sym(x)]
                base += [z3.Or(*[B64(x) == r for x in rv]) for r in range(nranks)]   # valid input: no empty patch
                if not all(any((not irsym.is_sym(x) and x == r) or irsym.is_sym(x) for x in rv) for r in range(nranks)):
                    continue
                s = z3.Solver(); s.add(*base)
                if s.check() != z3.sat:
                    continue
                inp = {'shape': topo.shape, 'cnt': topo.cnt + [0] * (4 - len(topo.cnt)), 'data': [x for key in topo.layout() for r in topo.idx[key] for x in r], 'nranks': nranks, 'rank_of_elem': rv, 'out': MAXO, 'out2': MAXO}
                nm = 'extract %s: %d ranks, cells %s fixed to %s, rest symbolic' % (mname, nranks, list(range(nfix)), list(fixed))
                orc = extract_oracle(topo, nranks, rv)
                jobs.append((nm, 'w_extract', inp, base, orc, {'max_paths': 4000}))
    return jobs


def parti_jobs(quick):
    jobs = []
    FAC = {0: (2, 4), 1: (4, 4), 2: (2, 8), 3: (12, 12)}
    for shape in range(4):
        for ncells in range(1, 5 if quick else 8):
            nr = z3.BitVec('nranks', 64)
            base = [z3.UGE(nr, 1), z3.ULE(nr, 48 if quick else 64)]
            fac, rfac = FAC[shape]

            def oracle(get, rv, st, ex, ncells=ncells, fac=fac, rfac=rfac, nr=nr, shape=shape):
                rvv = irsym.simp(rv)
                symvars = [nr]
                mods = all_models(ex, st, symvars)
                props = []
                for mdl in mods:
                    n = cval(nr, mdl) if mdl is not None else oracle.native_inputs['nranks']
                    tagp = (nr != n) if mdl is not None else False
                    possible = any(ncells * fac ** k == n for k in range(12))
                    if rvv == 0:
                        props.append(('failure is reported only when no two-level partition exists', True if not possible else tagp)); continue
                    props.append(('success only when a two-level partition exists', True if possible else tagp))
                    cv = (lambda x: cval(x, mdl)) if mdl is not None else (lambda x: x)
                    lvl, nd, ni = cv(get('olvl', 0)), cv(get('ond', 0)), cv(get('oni', 0))
                    ok = nd == n and ni == ncells * rfac ** lvl and ni <= 800 and nd <= 64
                    if ok:
                        ptr = [cv(get('optr', i)) for i in range(nd + 1)]; idx = [cv(get('oidx', i)) for i in range(ni)]
                        ok = ptr[0] == 0 and ptr[-1] == ni and all(ptr[i] < ptr[i + 1] for i in range(nd)) and sorted(idx) == list(range(ni))
                        ok = ok and (lvl == 0 or ncells * rfac ** (lvl - 1) < n)
                    props.append(('exactly the requested number of non-empty patches covering every refined cell once, on the lowest sufficient level', True if ok else tagp))
                return props
            oracle.native_inputs = None
            jobs.append(('Parti2Lvl %s with %d cells, symbolic rank count' % (SHAPES[shape][0], ncells), 'w_parti2lvl', {'shape': shape, 'ncells': ncells, 'nranks': nr, 'olvl': 1, 'ond': 1, 'oni': 1, 'optr': 70, 'oidx': 800}, base, oracle, {'max_paths': 200}))
    return jobs


def halo_split_jobs(quick):
    """PatchHaloSplitter (two-layer partitioning): child/halo membership fully symbolic (64-bit target indices)"""
    jobs = []
    profs = [(0, [5, 5, 1], [2, 2, 1], [2, 2, 1], [2, 1, 0]), (0, [6, 6, 2], [3, 2, 1], [2, 2, 1], [3, 1, 0])]
    if not quick:
        profs += [(0, [6, 6, 2], [2, 1, 1], [3, 2, 1], [3, 2, 0]), (2, [6, 6, 4, 1], [2, 2, 1, 1], [2, 2, 2, 1], [2, 2, 1, 0])]
    for (shape, cntP, c1n, c2n, hn) in profs:
        D = len(cntP) - 1
        mk = lambda nm, ns: [[z3.BitVec('%s_%d_%d' % (nm, d, i), 64) for i in range(ns[d])] for d in range(D + 1)]
        C1, C2, H1, H2 = mk('c1', c1n), mk('c2', c2n), mk('h1', hn), mk('h2', hn)
        base = []
        for lst in (C1, H1, C2, H2):
            for d in range(D + 1):
                base += [z3.ULT(x, cntP[d]) for x in lst[d]] + ([z3.Distinct(*lst[d])] if len(lst[d]) > 1 else [])

        def oracle(get, rv, st, ex, C1=C1, C2=C2, H1=H1, H2=H2, D=D, hn=hn):
            one, zero = z3.BitVecVal(1, 64), z3.BitVecVal(0, 64)
            in1 = [[z3.Or(*[h == c for c in C1[d]]) if C1[d] else z3.BoolVal(False) for h in H1[d]] for d in range(D + 1)]
            in2 = [[z3.Or(*[h == c for c in C2[d]]) if C2[d] else z3.BoolVal(False) for h in H2[d]] for d in range(D + 1)]
            match = [[z3.And(a, b) for a, b in zip(in1[d], in2[d])] for d in range(D + 1)]
            t1 = z3.Or(*[x for d in range(D + 1) for x in in1[d]]); t2 = z3.Or(*[x for d in range(D + 1) for x in in2[d]]); anym = z3.Or(*[x for d in range(D + 1) for x in match[d]])
            rvv = irsym.simp(rv)
            if irsym.is_sym(rvv):
                return [('return code is determined on every path', False)]
            if rvv == 0:
                return [('"not adjacent" is reported only if one of the children does not touch the parent halo', z3.Not(z3.And(t1, t2)))]
            if rvv == 1:
                return [('"no common entity" is reported only if the children share no halo entity', z3.And(t1, t2, z3.Not(anym)))]
            props = [('a child halo is created only if the children share a halo entity', anym)]
            oc = [irsym.simp(get('ocnt', d)) for d in range(D + 1)]
            if any(irsym.is_sym(x) for x in oc):
                return props + [('halo sizes are determined on every path', False)]
            off = 0
            for d in range(D + 1):
                nm = z3.Sum([z3.If(m, one, zero) for m in match[d]] + [zero])
                props.append(('dimension %d: the child halo has one entry per halo entity contained in both children' % d, nm == oc[d]))
                for k in range(min(oc[d], hn[d])):
                    for i in range(hn[d]):
                        before = z3.Sum([z3.If(match[d][j], one, zero) for j in range(i)] + [zero])
                        loc = z3.Sum([z3.If(H1[d][i] == C1[d][j], z3.BitVecVal(j, 64), zero) for j in range(len(C1[d]))] + [zero])
                        props.append(('dimension %d: entry %d is the child-local index of the %d-th common halo entity (halo order kept)' % (d, k, k), z3.Implies(z3.And(match[d][i], before == k), B64(get('otrg', off + k)) == loc)))
                off += oc[d]
            # merge per label
            merged = {}
            for lab, pr in props:
                merged.setdefault(lab, []).append(pr)
            return [(lab, z3.And(*prs) if len(prs) > 1 else prs[0]) for lab, prs in merged.items()]
        pad = lambda l: l + [0] * (4 - len(l))
        flat = lambda L: [x for d in range(D + 1) for x in L[d]] or [0]
        inp = {'shape': shape, 'cntP': pad(cntP), 'cntQ': pad(cntP), 'c1cnt': pad(c1n), 'c1trg': flat(C1), 'c2cnt': pad(c2n), 'c2trg': flat(C2), 'hcnt': pad(hn), 'h1trg': flat(H1), 'h2trg': flat(H2), 'ocnt': 4, 'otrg': 16}
        jobs.append(('halo splitter (%dD): parent counts %s, children %s / %s entities, parent halo %s entities, all targets symbolic' % (D, cntP, c1n, c2n, hn), 'w_halo_split', inp, base, oracle, {'max_paths': 20000}))
    return jobs


def main():
    chk = C.Check('C12', level='model_checking')
    quick = chk.tier == 'quick'
    bdir = C.mkdir(os.path.join(C.BUILD, 'C12'))
    wrapper = os.path.join(C.VERIF, 'wrappers', 'c12_patch.cpp')
    mod, info = e3.build_ir('c12', wrapper, REPO_SRCS, bdir)
    native = e3.Native('c12', wrapper, REPO_SRCS, bdir, list(SIGS.values()))
    chk.extra['ir'] = info
    tab = Tables(native)
    jobs = extract_jobs(tab, quick) + parti_jobs(quick) + halo_split_jobs(quick)
    only = os.environ.get('C12_ONLY')
    if only:
        jobs = [j for j in jobs if only in j[0]]
    chk.bounds.append('E3: %d small meshes (quad grids 2x2 / 3x1, vertex-contact configuration, triangle fan, 2x2x1 hexahedra, tetrahedra chain%s); 1..%d ranks (at most 3 for meshes with more than 4 cells); EVERY cell-to-rank assignment without empty patch (symbolic, decided by solver-guided forking; incl. disconnected patches and patches touching in one vertex); one joint refinement; Parti2Lvl for 1..%d cells of every shape with symbolic rank count <= %d' % (len(meshes(tab, quick)), '' if quick else '; thorough: 3x2, 3x2x1, four tetrahedra', 3 if quick else 4, 4 if quick else 7, 48 if quick else 64))
    chk.assume('single process: every rank\'s extract_patch is executed in turn on its own copy of the base mesh node; MPI distribution of the base mesh, PartiDomainControl, PartiIterative / external partitioners, PatchHaloSplitter and PatchMeshPartSplitter (mesh parts other than halos), recursive (hierarchical) partitioning are outside',
               'fine entities are identified across patches by the coordinates of their vertices (x_v = 2^v, generic position)')
    return e3run.run_jobs(chk, mod, native, jobs, info, quick, SIGS, 'c12',
                          explanation='Partial (stated): the real RootMeshNode::extract_patch (PatchMeshPartFactory, target deduction, PatchMeshFactory, neighbour graph composition, PatchHaloFactory) and RootMeshNode::refine_unique are executed symbolically for every rank of a symbolic cell-to-rank assignment on small meshes of all four shapes; on every path memory safety / no abort is checked and the result must satisfy the definition: each cell in exactly one patch, injective patch maps that pull back the base mesh, neighbours = patches sharing a vertex, halo pairs listing the same shared base entities in the same order and exactly the shared ones, also after one joint refinement. Parti2Lvl returns exactly the requested number of non-empty patches or reports failure, for every requested rank count in the bound.')
