"""C07 (partial): iterative solver status truthfulness (E2)"""
from vlib import common as C, e2prop


def main():
    chk = C.Check('C07')
    quick = chk.tier == 'quick'
    lvl = '1' if quick else '2'
    chk.bounds.append('E2: (A) 12 scenarios of the stopping-criterion state machine (every status reached) with ALL tolerances and defects symbolic under the recorded path conditions; (B) Richardson(+Jacobi), PCG(+Jacobi), BiCGStab, PCR on symbolic 2x2 systems (SPD = L L^T with symbolic L; general for BiCGStab), iteration limits 1..%s, modes apply / correct / apply twice / repeated solve with stagnation detection' % ('2' if quick else '3'))
    chk.functions += ['Solver::IterativeSolver::{_set_initial_defect,_update_defect,_analyse_defect,is_converged,is_diverged,get_def_initial,get_def_final,get_num_iter}', 'Solver::Richardson / PCG / BiCGStab / PCR ::{apply,correct,_apply_intern} on SparseMatrixCSR<SymReal>', 'Solver::JacobiPrecond']
    chk.assume(*e2prop.E2_ASSUME)
    chk.assume('norms via sqrt modelled as algebraic unknowns (s >= 0, s*s = x)', 'exact real arithmetic: recurrence residual == true residual is an exact identity for these methods; rounding drift is outside',
               'convergence to the reference solution / rates are outside (only finite-step identities are decided)')
    e2prop.run_e2(chk, e2prop.e2_harness_path('c07_e2.cpp'), 'c07_e2', timeout=60 if quick else 300, harness_args=['--bounds', lvl], max_group=1)
    # further solver families with the same obligations
    chk.bounds.append('E2 further solver families: FGMRES(2), GMRES(2), BiCGStab(2) (3x3), IDR(2), RGCR, PMR, PSD, PCGNR on symbolic 2x2 (thorough 3x3) systems, iteration limit 1 (thorough 1..2), modes apply / correct / apply twice; every solve is first probed for reads of uninitialised work vectors')
    chk.functions += ['Solver::FGMRES / GMRES / BiCGStabL / IDRS / RGCR / PMR / PSD / PCGNR ::{apply,correct,_apply_intern}']
    chk.assume('restarted methods (GMRES, FGMRES) do not interrupt the last inner iteration of a cycle: their iteration count may exceed the limit by one (not claimed as a violation); PipePCG / GroppPCG / RBiCGStab need Global::Vector asynchronous dot products and are outside')
    e2prop.run_e2(chk, e2prop.e2_harness_path('c07b_e2.cpp'), 'c07b_e2', timeout=60 if quick else 300, harness_args=['--bounds', lvl], max_group=1)
    return chk.finish(
        explanation='Partial (stated): (A) the real IterativeSolver stopping logic is executed on symbolic tolerances and defect sequences; for each scenario z3 decides that the returned status implies its documented predicate (success => converged predicate, max_iter => limit reached and not converged, stagnated => the last min_stag_iter steps stagnated, ...). (B) the real Krylov/Richardson solver objects run on symbolic small systems; z3 decides that the reported final defect equals the true residual norm of the returned vector, the rhs is untouched, apply() ignores and correct() honours the start vector, and repeated solves on one object coincide.',
        rule=e2prop.E2_RULE, trusted=e2prop.E2_TRUSTED)
