"""C02 structural slice (E3): transpose / clone / permute of the real SparseMatrixCSR with SYMBOLIC column indices and permutations"""
import itertools, os
import z3
from vlib import common as C, e3
from ir import irsym
from checks.c19 import B64, sig

REPO_SRCS = ['kernel/util/memory_pool.cpp', 'kernel/backend.cpp', 'kernel/adjacency/permutation.cpp', 'kernel/adjacency/graph.cpp']
NO = 28
SIGS = {
    'w_struct': sig('w_struct', [('i32', 'op'), ('u64', 'rows'), ('u64', 'cols'), ('u64', 'used'), ('in', 'vals', 8), ('in', 'rowptr', 8), ('in', 'colind', 8), ('out', 'out', NO, 8)]),
    'w_permute': sig('w_permute', [('u64', 'rows'), ('u64', 'cols'), ('u64', 'used'), ('in', 'vals', 8), ('in', 'rowptr', 8), ('in', 'colind', 8), ('in', 'pr', 8), ('in', 'pc', 8), ('out', 'out', NO, 8)]),
}
OPS = {0: 't.transpose(a)', 1: 't = a.transpose()', 2: 'clone(Deep)', 3: 'clone(Shallow), original destroyed', 4: 'convert CSR -> CSCR -> CSR', 5: 'convert CSR -> Banded -> CSR', 6: 'layout rebuilt from Graph(as_is, matrix)'}


def entry(rp, ci, vals, r, c):
    """(present, value) of entry (r, c) of the CSR matrix (rp, ci, vals); any of the arguments may be symbolic"""
    conds = []
    R = len(rp) - 1
    for k in range(len(ci)):
        inrow = z3.Or(*[z3.And(B64(r) == i, z3.ULE(B64(rp[i]), k), z3.ULT(z3.BitVecVal(k, 64), B64(rp[i + 1]))) for i in range(R)]) if R else z3.BoolVal(False)
        conds.append(z3.And(inrow, B64(ci[k]) == B64(c)))
    present = z3.Or(*conds) if conds else z3.BoolVal(False)
    val = z3.BitVecVal(0, 64)
    for k in reversed(range(len(ci))):
        val = z3.If(conds[k], B64(vals[k]), val)
    return present, val


def valid_layout(rp, ci, ncols, used):
    R = len(rp) - 1
    cs = [B64(rp[0]) == 0, B64(rp[R]) == used] + [z3.ULE(B64(rp[i]), B64(rp[i + 1])) for i in range(R)] + [z3.ULT(B64(x), ncols) for x in ci]
    for k in range(len(ci) - 1):
        same_row = z3.Or(*[z3.And(z3.ULE(B64(rp[i]), k), z3.ULT(z3.BitVecVal(k + 1, 64), B64(rp[i + 1]))) for i in range(R)])
        cs.append(z3.Implies(same_row, z3.ULT(B64(ci[k]), B64(ci[k + 1]))))
    return z3.And(*cs)


def oracle_for(kind, rows, cols, rp, ci, vals, pr=None, pc=None):
    used = len(ci)
    R, Cn = (cols, rows) if kind == 'transpose' else (rows, cols)

    def oracle(get, rv, st, ex):
        o = lambda i: B64(get('out', i))
        ut = used
        if kind == 'banded':
            # the band format stores whole diagonals: the result may contain additional explicit zero entries
            ut = irsym.simp(get('out', 2))
            if irsym.is_sym(ut) or ut > R * Cn:
                return [('number of entries of the result is a definite value <= rows*cols on the path', False)]
            props = [('dimensions of the result; number of entries >= entries of the operand', o(0) == R and o(1) == Cn and ut >= used if not irsym.is_sym(o(0)) and not irsym.is_sym(o(1)) else z3.And(o(0) == R, o(1) == Cn, z3.BoolVal(ut >= used)))]
        else:
            props = [('dimensions and number of entries of the result', z3.And(o(0) == R, o(1) == Cn, o(2) == used))]
        if used == 0:
            return props
        trp = [o(3 + i) for i in range(R + 1)]; tci = [o(3 + R + 1 + k) for k in range(ut)]; tv = [o(3 + R + 1 + ut + k) for k in range(ut)]
        props.append(('layout of the result is valid (row pointers monotone from 0 to used, indices in range, rows strictly sorted)', valid_layout(trp, tci, Cn, ut)))
        eqs = []
        for i in range(R):
            for j in range(Cn):
                src = (j, i) if kind == 'transpose' else ((i, j) if kind in ('clone', 'banded') else (pr[i], pc[j]))
                pa, va = entry(rp, ci, vals, src[0], src[1])
                pt, vt = entry(trp, tci, tv, i, j)
                if kind == 'banded':
                    eqs.append(z3.And(z3.Implies(pa, z3.And(pt, va == vt)), z3.Implies(z3.And(pt, z3.Not(pa)), vt == 0)))
                else:
                    eqs.append(z3.And(pa == pt, z3.Implies(pa, va == vt)))
        props.append(('every entry of the result is the %s entry of the operand (presence and 64-bit value pattern), for all column indices' % {'transpose': 'transposed', 'clone': 'same', 'permute': 'permuted', 'banded': 'same (additional entries are +0.0)'}[kind], z3.And(*eqs)))
        return props
    return oracle


def profiles(quick):
    out = []
    maxused = 5 if quick else 6
    for rows, cols in itertools.product(range(1, 4), repeat=2):
        if rows * cols > 9:
            continue
        for lens in itertools.product(range(cols + 1), repeat=rows):
            if sum(lens) > maxused:
                continue
            out.append((rows, cols, lens))
    return out


def jobs(quick):
    js = []
    for (rows, cols, lens) in profiles(quick):
        used = sum(lens)
        rp = [0]
        for l in lens:
            rp.append(rp[-1] + l)
        vals = [z3.BitVec('val%d' % k, 64) for k in range(used)]; ci = [z3.BitVec('col%d' % k, 64) for k in range(used)]
        base = [z3.ULT(x, cols) for x in ci]
        for i in range(rows):
            for k in range(rp[i], rp[i + 1] - 1):
                base.append(z3.ULT(ci[k], ci[k + 1]))
        common = {'rows': rows, 'cols': cols, 'used': used, 'vals': vals or [0], 'rowptr': rp, 'colind': ci or [0], 'out': NO}
        shape = '%dx%d row lengths %s' % (rows, cols, list(lens))
        for op in OPS:
            if op == 5:
                continue   # SparseMatrixBanded::convert collects the offsets in a std::set with symbolic keys: pointer-valued selects in the inlined rb-tree descent are not modelled by the executor (covered with concrete patterns by the E2 part)
            if used == 0 and op >= 2 and rows * cols > 1:
                continue
            if used == 0 and op in (4, 6):
                continue   # the generic conversions reject entry-free input by an explicit precondition (XASSERT(used_elements > 0) in SparseMatrixCSR::convert(const MT_&), non-empty arrays in the CSCR constructor): not claimed, as in the E2 part
            inp = dict(common); inp['op'] = op
            js.append(('csr %s, %s, symbolic column indices' % (OPS[op], shape), 'w_struct', inp, base, oracle_for('transpose' if op < 2 else ('banded' if op == 5 else 'clone'), rows, cols, rp, ci, vals), {}))
        if used >= 1 and rows * cols <= (6 if quick else 9) and used <= (3 if quick else 4):
            pr = [z3.BitVec('pr%d' % i, 64) for i in range(rows)]; pc = [z3.BitVec('pc%d' % i, 64) for i in range(cols)]
            pb = [z3.ULT(x, rows) for x in pr] + [z3.ULT(x, cols) for x in pc] + ([z3.Distinct(*pr)] if rows > 1 else []) + ([z3.Distinct(*pc)] if cols > 1 else [])
            inp = dict(common); inp['pr'] = pr; inp['pc'] = pc
            js.append(('csr permute, %s, symbolic column indices and symbolic row / column permutations' % shape, 'w_permute', inp, base + pb, oracle_for('permute', rows, cols, rp, ci, vals, pr, pc), {}))
    return js


def build(bdir):
    wrapper = os.path.join(C.VERIF, 'wrappers', 'c02_struct.cpp')
    mod, info = e3.build_ir('c02s', wrapper, REPO_SRCS, bdir)
    native = e3.Native('c02s', wrapper, REPO_SRCS, bdir, list(SIGS.values()))
    return mod, native, info
