"""C11 (narrow slice): Graph binary serialisation round trip and rejection of inconsistent buffers (E3)"""
import os, itertools
import z3
from vlib import common as C, e3, e3run
from ir import irsym
from checks.c19 import profiles, B64, GOUT, sig, graph_out_sizes, count

REPO_SRCS = ['kernel/adjacency/graph.cpp']
MAGIC = 0x5052474A44413346
SIGS = {
    'w_graph_roundtrip': sig('w_graph_roundtrip', [('u64', 'nd'), ('u64', 'ni'), ('u64', 'nidx'), ('in', 'dp', 8), ('in', 'ii', 8), ('out', 'obuf', 0, 8), ('out', 'obytes', 1, 8)] + GOUT),
    'w_graph_deserialize': sig('w_graph_deserialize', [('u64', 'nwords'), ('in', 'words', 8)] + GOUT),
}


def roundtrip_oracle(dp, ii, nd, ni):
    nx = dp[-1]

    def oracle(get, rv, st, ex):
        nw = 5 + (nd + 1) + nx
        props = [('buffer byte size', B64(get('obytes', 0)) == 8 * nw), ('magic', B64(get('obuf', 0)) == MAGIC), ('size field == buffer size', B64(get('obuf', 1)) == 8 * nw),
                 ('domain count field', B64(get('obuf', 2)) == nd), ('image count field', B64(get('obuf', 3)) == ni), ('index count field', B64(get('obuf', 4)) == nx)]
        props += [('round trip: domain size', B64(get('ond', 0)) == nd), ('round trip: image size', B64(get('oni', 0)) == ni), ('round trip: index count', B64(get('onidx', 0)) == nx)]
        if nd > 0:
            props += [('round trip: ptr %d' % i, B64(get('odp', i)) == dp[i]) for i in range(nd + 1)]
            props += [('round trip: idx %d' % k, B64(get('oii', k)) == B64(ii[k])) for k in range(nx)]
        return props
    return oracle


def main():
    chk = C.Check('C11', level='model_checking')
    quick = chk.tier == 'quick'
    bdir = C.mkdir(os.path.join(C.BUILD, 'C11'))
    wrapper = os.path.join(C.VERIF, 'wrappers', 'c11_graph_io.cpp')
    mod, info = e3.build_ir('c11', wrapper, REPO_SRCS, bdir)
    native = e3.Native('c11', wrapper, REPO_SRCS, bdir, list(SIGS.values()))
    chk.extra['ir'] = info
    ND, NX = (3, 4) if quick else (5, 6)
    chk.bounds.append('E3: graphs with 0..%d domain nodes, <= %d indices (every degree sequence), image size 1..3, all index values symbolic; malformed buffers of 5..%d words with symbolic header fields and payload' % (ND, NX, 5 + ND + 1 + NX))
    chk.assume('only the binary Graph serialisation is covered; XML / mesh file / INI parsers are built on std::string/std::istream (no IR available) and are outside this check')
    jobs = []
    for nd in range(0, ND + 1):
        for dp in profiles(nd, NX):
            if quick and nd == 3 and dp[-1] > 3:
                continue
            nx = dp[-1]
            for ni in ((1, 3) if quick else (1, 2, 3)):
                ii = [z3.BitVec('ii%d' % k, 64) for k in range(nx)]; base = [z3.ULT(v, ni) for v in ii]
                inp = graph_out_sizes({'nd': nd, 'ni': ni, 'nidx': nx, 'dp': dp, 'ii': ii, 'obuf': 5 + nd + 1 + nx, 'obytes': 1}, nd, nx)
                jobs.append(('serialize/deserialize nd=%d ni=%d profile=%s' % (nd, ni, dp), 'w_graph_roundtrip', inp, base, roundtrip_oracle(dp, ii, nd, ni), {}))
    # malformed / arbitrary buffers: every header field and payload word symbolic; the constructor must either reject (abort) or build a graph
    # whose arrays were read from inside the buffer (memory-safety checks of the executor)
    for nwords in range(0, (9 if quick else 12)):
        words = [z3.BitVec('w%d' % k, 64) for k in range(nwords)]
        base = []
        if nwords >= 5:
            base = [z3.ULE(words[2], 6), z3.ULE(words[4], 6)]   # keep the declared counts small (allocation sizes are forked over)
        inp = graph_out_sizes({'nwords': nwords, 'words': words}, 8, 8)

        def orc(get, rv, st, ex, words=words, nwords=nwords):
            props = []
            if nwords >= 5:
                props.append(('accepted buffer has the magic number', words[0] == MAGIC)); props.append(('accepted buffer has a consistent size field', words[1] == 8 * nwords))
                need = z3.If(words[2] == 0, z3.BitVecVal(0, 64), words[2] + 1) + words[4]
                props.append(('declared counts fit into the buffer', z3.ULE(need + 5, nwords)))
            else:
                props.append(('buffers shorter than the header are rejected', False))
            return props
        jobs.append(('deserialize arbitrary buffer of %d words' % nwords, 'w_graph_deserialize', inp, base, orc, {'abort_ok': True}))
    return e3run.run_jobs(chk, mod, native, jobs, info, quick, SIGS, 'c11',
                          explanation='Narrow slice of C11 (stated): the binary Graph::serialize / Graph(buffer) pair of the real sources is executed symbolically (own IR executor, z3 bit-vectors): for every degree sequence in the bound and all index values the round trip reproduces the graph and writes correct header fields; for arbitrary buffers with symbolic header and payload the constructor must reject or stay inside the buffer (every access bounds-checked by the executor).')
