"""C09: multigrid cycles (E2 with mock operands)"""
from vlib import common as C, e2prop


def main():
    chk = C.Check('C09')
    quick = chk.tier == 'quick'
    L = '3'   # deeper hierarchies (4, 5 levels) were tried for the thorough tier: the exact-rational evaluation of the W-cycle terms needs more than an hour single-threaded, so both tiers use 3 levels
    chk.bounds.append('E2: hierarchies with 1..%s levels above the coarse level; cycles V/F/W; all 8 uniform pre/post/peak smoother masks x coarse solver present/absent, 2 level-dependent masks; adaptive CGC modes MinEnergy/MinDefect; every (top,coarse) sub-range; 2 consecutive applications for the full mask' % L)
    chk.functions += ['Solver::MultiGrid<MM,MF,MT>::{apply,_apply_cycle_v,_apply_cycle_f,_apply_cycle_w,_apply_rest,_apply_prol,_apply_smooth_peak,_apply_smooth_def,_apply_coarse,set_adapt_cgc,set_levels}', 'Solver::MultiGridHierarchy::{push_level,init,done}', 'Solver::MultiGridLevelStd']
    chk.assume(*e2prop.E2_ASSUME)
    chk.assume('operands are mocks: 2-vectors, symbolic 2x2 matrices per level and role, symbolic diagonal filters (the MultiGrid template is generic in its operand types)', 'no ghost (MPI) transfer operators')
    e2prop.run_e2(chk, e2prop.e2_harness_path('c09_e2.cpp'), 'c09_e2', timeout=60, harness_args=['--bounds', L], support=[C.os.path.join(C.VERIF, 'e2', 'feat_stubs.cpp'), 'kernel/util/statistics.cpp', 'kernel/util/kahan_summation.cpp', 'kernel/util/dist.cpp', 'kernel/backend.cpp', 'kernel/util/memory_pool.cpp'])
    return chk.finish(
        explanation='Bounded symbolic check: the real MultiGrid/MultiGridHierarchy code is executed with mock operands (symbolic, non-commuting 2x2 operators per level and role); for every discrete configuration in the bound z3 decides that the result equals the textbook recursive definition of the selected cycle as a map of the defect (all operator entries and the defect are free reals), the operator-application event log equals the reference log (coarse solves 1 / L / 2^L, peak order), and adaptive coarse-grid-correction step lengths equal the energy / defect minimiser quotient.',
        rule=e2prop.E2_RULE, trusted=e2prop.E2_TRUSTED)
