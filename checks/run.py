#!/usr/bin/env python3
"""entry point of every registered check:  python3-vt checks/run.py <property id> [quick|thorough]"""
import sys, os, importlib, traceback
sys.path.insert(0, os.path.dirname(os.path.dirname(os.path.abspath(__file__))))
from vlib import common as C


def main():
    pid = sys.argv[1]
    if len(sys.argv) > 2:
        os.environ['VERIF_TIER'] = sys.argv[2]
    mod = importlib.import_module('checks.' + pid.lower())
    try:
        rc = mod.main()
    except C.MachineryError as e:
        print('MACHINERY-ERROR: %s' % e)
        rc = 2
    except Exception:
        traceback.print_exc()
        rc = 2
    sys.exit(rc)


if __name__ == '__main__':
    main()
