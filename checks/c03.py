"""C03: matrix algebra (E2 class level)"""
from vlib import common as C, e2prop


def main():
    chk = C.Check('C03')
    quick = chk.tier == 'quick'
    b = ['2', '3'] if quick else ['3', '4']
    chk.bounds.append('E2: CSR matrices up to %sx%s with <= %s entries (all sorted duplicate-free patterns); products m,l,n in 1..2 (thorough: one dimension 3) with every pattern triple (D,B,X), allow_incomplete in {false,true}; D*A*B with sparse A on 2x2x2x2 reduced patterns; all orderings for min/max and all keep-sets for shrink with <= 3 entries' % (b[0], b[0], b[1]))
    chk.functions += ['LAFEM::SparseMatrixCSR<SymReal,Index>::{axpy,scale,scale_rows,scale_cols,lump_rows,extract_diag,row_norm2,row_norm2sqr(+scaled),norm_frobenius,max/min(_abs)_element,shrink,add_mat_mat_product,add_double_mat_product (both overloads)}',
                      'LAFEM::Arch::{ScaleRows,ScaleCols,Lumping,Diagonal,RowNorm,Axpy,Scale,Norm2,Max/Min(Abs)Index}::*_generic<SymReal,Index>']
    chk.assume(*e2prop.E2_ASSUME)
    chk.assume('operands of the row-walking kernels have at least one stored entry (entry-free matrices carry no arrays; their handling is checked under C02/C20)', 'rows sorted and duplicate-free (layout invariant)', 'sqrt modelled as s >= 0, s*s = x')
    e2prop.run_e2(chk, e2prop.e2_harness_path('c03_e2.cpp'), 'c03_e2', timeout=60, harness_args=['--bounds'] + b)
    # blocked slice: BCSR with non-square 2x3 blocks (and 2x2 for extract_diag)
    chk.bounds.append('E2 blocked slice: SparseMatrixBCSR<2,3> and <2,2> with 1..2 block rows/cols and every block pattern with 1..3 blocks; scale, axpy, norm_frobenius, row_norm2(sqr) plain and scaled, lump_rows, scale_rows, scale_cols, transpose, extract_diag')
    chk.functions += ['LAFEM::SparseMatrixBCSR<SymReal,Index,2,3>::{scale,axpy,norm_frobenius,row_norm2,row_norm2sqr(+scaled),lump_rows,scale_rows,scale_cols,transpose}', 'LAFEM::SparseMatrixBCSR<SymReal,Index,2,2>::extract_diag', 'LAFEM::Arch::{RowNorm,Lumping,ScaleRows,ScaleCols}::bcsr*_generic']
    e2prop.run_e2(chk, e2prop.e2_harness_path('c03b_e2.cpp'), 'c03b_e2', timeout=30 if quick else 300, harness_args=['--bounds', '2', '3' if quick else '4'])
    # other formats slice: DenseMatrix, Banded, CSCR
    chk.bounds.append('E2 other formats slice: DenseMatrix m x l x n in 1..%s (scale, axpy, norm, four multiply overloads incl. fresh result matrices, transpose, transpose_inplace, invert); SparseMatrixBanded (5 shapes/offset sets, zero padding) and SparseMatrixCSCR (1..3 x 2, every pattern): element access, scale, axpy, norm_frobenius, extract_diag' % ('2' if quick else '3'))
    chk.functions += ['LAFEM::DenseMatrix<SymReal,Index>::{scale,axpy,norm_frobenius,multiply (4 overloads),invert/inverse,transpose,transpose_inplace}', 'LAFEM::Arch::ProductMatMat::{dense_generic,dsd_generic}', 'Math::invert_matrix', 'LAFEM::SparseMatrixBanded::{operator(),scale,axpy,norm_frobenius,extract_diag}', 'LAFEM::SparseMatrixCSCR::{operator(),scale,axpy,norm_frobenius}']
    chk.assume('Banded: the parts of the virtual bands outside the matrix are zero (undocumented; norm_frobenius sums them)')
    e2prop.run_e2(chk, e2prop.e2_harness_path('c03c_e2.cpp'), 'c03c_e2', timeout=40 if quick else 300, harness_args=['--bounds', '1' if quick else '2'], max_group=1)
    return chk.finish(
        explanation='Bounded symbolic check: matrix-level operations of the real SparseMatrixCSR class run on a symbolic real scalar for every pattern configuration in the bound; z3 decides equality with the dense textbook formula restricted to the output pattern for ALL real values; with allow_incomplete=false and a missing output entry the abort must be reached.',
        rule=e2prop.E2_RULE, trusted=e2prop.E2_TRUSTED)
