"""C06: filters (E2 class level)"""
from vlib import common as C, e2prop


def main():
    chk = C.Check('C06')
    quick = chk.tier == 'quick'
    n = '3' if quick else '4'
    chk.bounds.append('E2: vector length 1..%s; every ordered selection of distinct constrained indices (insertion order included); block sizes 2 and 3; CSR/BCSR matrices with all patterns (n<=2) plus patterns with rows lacking a stored diagonal (n=3); chain<slip,unit>, sequence<unit,unit>, tuple<unit,unitblocked> compositions' % n)
    chk.functions += ['LAFEM::UnitFilter::{filter_rhs,sol,def,cor,filter_mat,filter_offdiag_row_mat,filter_weak_matrix_rows}', 'LAFEM::UnitFilterBlocked<2|3>::{filter_*, filter_mat(BCSR), filter_offdiag_row_mat(BCSR)}',
                      'LAFEM::SlipFilter<2|3>::{filter_rhs,filter_def}', 'LAFEM::MeanFilter::{filter_rhs,def,cor,sol}', 'LAFEM::FilterChain / FilterSequence / TupleFilter', 'LAFEM::Arch::{UnitFilter,UnitFilterBlocked,SlipFilter}::*_generic<SymReal>', 'LAFEM::SparseVector(Blocked)::operator() insertion']
    chk.assume(*e2prop.E2_ASSUME)
    chk.assume('slip normals have non-zero length; mean filter weights and primal vector positive (constructor precondition volume > 0)', 'ignore_nans mode: NaN is a reserved marker value recognised by Math::isnan<SymReal> (all NaN masks of one prescribed block are swept)')
    e2prop.run_e2(chk, e2prop.e2_harness_path('c06_e2.cpp'), 'c06_e2', timeout=60, harness_args=['--bounds', n])
    return chk.finish(
        explanation='Bounded symbolic check: the real filter classes run on a symbolic real scalar for every index-set configuration in the bound; z3 decides for ALL real vector contents / prescribed values / normals / weights that constrained entries take the prescribed value (resp. 0), the normal component / weighted mean vanishes exactly, unconstrained entries are unchanged, a second application changes nothing, and filtered matrix rows are unit rows.',
        rule=e2prop.E2_RULE, trusted=e2prop.E2_TRUSTED)
