"""C06: filters (E2 class level)"""
import os
from vlib import common as C, e2prop, e3, e3run
from checks import c06s


def main():
    chk = C.Check('C06')
    quick = chk.tier == 'quick'
    n = '3' if quick else '4'
    chk.bounds.append('E2: vector length 1..%s; every ordered selection of distinct constrained indices (insertion order included); block sizes 2 and 3; CSR/BCSR matrices with all patterns (n<=2) plus patterns with rows lacking a stored diagonal (n=3); chain<slip,unit>, sequence<unit,unit>, tuple<unit,unitblocked> compositions' % n)
    chk.functions += ['LAFEM::UnitFilter::{filter_rhs,sol,def,cor,filter_mat,filter_offdiag_row_mat,filter_weak_matrix_rows}', 'LAFEM::UnitFilterBlocked<2|3>::{filter_*, filter_mat(BCSR), filter_offdiag_row_mat(BCSR)}',
                      'LAFEM::SlipFilter<2|3>::{filter_rhs,filter_def}', 'LAFEM::MeanFilter::{filter_rhs,def,cor,sol}', 'LAFEM::FilterChain / FilterSequence / TupleFilter', 'LAFEM::Arch::{UnitFilter,UnitFilterBlocked,SlipFilter}::*_generic<SymReal>', 'LAFEM::SparseVector(Blocked)::operator() insertion']
    chk.assume(*e2prop.E2_ASSUME)
    chk.assume('slip normals have non-zero length; mean filter weights and primal vector positive (constructor precondition volume > 0)', 'ignore_nans mode: NaN is a reserved marker value recognised by Math::isnan<SymReal> (all NaN masks of one prescribed block are swept)')
    e2prop.run_e2(chk, e2prop.e2_harness_path('c06_e2.cpp'), 'c06_e2', timeout=60, harness_args=['--bounds', n])
    # structural slice (E3): the constrained index set (and the matrix column indices) symbolic
    bdir = C.mkdir(os.path.join(C.BUILD, 'C06', 'e3'))
    mod, native, info = c06s.build(bdir)
    chk.extra['ir'] = info
    jobs = c06s.jobs(quick)
    only = os.environ.get('C06_ONLY')
    if only:
        jobs = [j for j in jobs if only in j[0]]
    chk.bounds.append('E3 structural slice: UnitFilter<double,u64> on vectors of length 1..%d with 0..n constrained entries whose indices are SYMBOLIC (any strictly sorted in-range set), prescribed and vector values raw symbolic 64-bit patterns: filter_rhs/sol/def/cor, filter_rhs twice, filter_def after filter_rhs; filter_mat / filter_offdiag_row_mat / filter_mat twice on square CSR matrices n <= 3 with <= %d entries, every row-length profile, SYMBOLIC column indices (rows may lack a stored diagonal) and symbolic constrained rows' % ((4, 4) if quick else (6, 6)))
    chk.assume('E3 structural slice: values are 64-bit patterns that the filter only overwrites (prescribed value, +0.0, 1.0); the index set of the filter is sorted and duplicate-free (as produced by SparseVector)')
    # vacuity guard: a deliberately wrong oracle (filter_def claimed to write the prescribed values) must be refuted
    wj = [j for j in c06s.jobs(True) if j[1] == 'w_unit_vec' and j[2]['op'] == 2 and j[2]['n'] == 2 and j[2]['used'] == 1]
    if wj:
        w = wj[0]
        Rw, _ = e3.run_case(mod, c06s.SIGS[w[1]], w[0], w[2], w[3], c06s.vec_oracle(0, 2, w[2]['fidx'], w[2]['fvals'], w[2]['vec']), budget=60)
        if not any(v['kind'] == 'property' for v in Rw.viol):
            chk.error('E3 structural slice: deliberately wrong oracle (filter_def writes the prescribed value) was not refuted (vacuity guard)')
    return e3run.run_jobs(chk, mod, native, jobs, info, quick, c06s.SIGS, 'c06s',
        explanation='Bounded symbolic check: the real filter classes run on a symbolic real scalar for every index-set configuration in the bound; z3 decides for ALL real vector contents / prescribed values / normals / weights that constrained entries take the prescribed value (resp. 0), the normal component / weighted mean vanishes exactly, unconstrained entries are unchanged, a second application changes nothing, and filtered matrix rows are unit rows. E3 structural slice: the real UnitFilter runs in my IR symbolic executor with a SYMBOLIC constrained index set (and symbolic matrix column indices); on every path z3 decides over all index sets that constrained entries / rows hold the prescribed value, +0.0 or the unit row, everything else keeps its bit pattern, and a second application changes nothing; every access is bounds-checked.',
        rule=e2prop.E2_RULE + '; E3 part: one obligation = one property of one path of one size profile (solver query pc && !property must be unsat)', trusted_extra=e2prop.E2_TRUSTED)
