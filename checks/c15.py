"""C15 (partial): finite-element bases and standard trafo on one symbolic cell (E2)"""
from vlib import common as C, e2prop


def main():
    chk = C.Check('C15')
    quick = chk.tier == 'quick'
    lvl = '1' if quick else '2'
    chk.bounds.append('E2: ONE cell of each shape (triangle, quadrilateral, tetrahedron, hexahedron) with all vertex coordinates symbolic (general, incl. non-affine quads/hexas%s) or a symbolic affine image of the reference cell; symbolic reference point; elements Lagrange1, Lagrange2, Discontinuous P0/P1, Crouzeix-Raviart/Rannacher-Turek, Bernstein2 (quad); interpolation of symbolic polynomials of the local degree on affine cells' % ('' if not quick else '; general hexahedra in the thorough tier only'))
    chk.functions += ['Space::{Lagrange1,Lagrange2,Discontinuous,CroRavRanTur,Bernstein2}::Element/Evaluator (eval_ref_values/gradients/hessians, ParametricEvaluator chain rule)', 'Trafo::Standard::Mapping/Evaluator (map_point, calc_jac_mat, calc_hess_ten, jac_det, jac_inv, hess_inv)',
                      'Assembly::Interpolator::project + node functionals + DofMapping', 'Geometry::ReferenceCellFactory, ConformalMesh<Shape,dim,SymReal>', 'Tiny::Matrix/Tensor3 algebra (set_inverse, det, add_mat_tensor_mult, ...)']
    chk.assume(*e2prop.E2_ASSUME)
    chk.assume('derivatives of returned values are formed by symbolic differentiation of the executed term DAG w.r.t. the reference coordinates (driver side)', 'positively oriented, non-degenerate cell at the shadow point; recorded path conditions (pivoting in Tiny::Matrix::set_inverse) restrict the claim',
               'Lagrange3 cannot be instantiated with a non-literal scalar (static constexpr DataType coefficients): outside; Hermite3/Argyris/BFS/CaiDouSanSheYe/Q1~-bnp, inverse mapping, multi-cell continuity and DOF numbering are outside')
    e2prop.run_e2(chk, e2prop.e2_harness_path('c15_e2.cpp'), 'c15_e2', timeout=25 if quick else 300, harness_args=['--bounds', lvl], max_group=1)
    return chk.finish(
        explanation='Partial (stated): the real element and transformation evaluators are executed on one cell whose vertex coordinates and evaluation point are symbolic; z3 decides as exact identities: partition of unity and vanishing gradient/Hessian sums, J = dx/dxi and hess_ten = dJ/dxi, J*J^-1 = I, J^T grad(phi) = d phi/d xi and the second-order chain rule for Hessians (derivatives obtained by differentiating the returned value terms symbolically), jac_det = simplex volume factor, and that interpolating a symbolic polynomial of the local degree through the real node functionals reproduces it at every point.',
        rule=e2prop.E2_RULE, trusted=e2prop.E2_TRUSTED)
