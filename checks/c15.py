"""C15 (partial): finite-element bases and standard trafo on one symbolic cell (E2); inter-cell continuity of Lagrange2/3 on two cells
with symbolic numbering (E3, evaluators executed in IEEE double)"""
import os, struct
import z3
from vlib import common as C, e2prop, e3, e3run
from ir import irsym
from checks.c19 import sig
from checks.c10 import Topo, Tables, SHAPES, symbolic_inputs, all_models, cval

REPO_SRCS = ['kernel/adjacency/graph.cpp', 'kernel/adjacency/permutation.cpp', 'kernel/adjacency/coloring.cpp', 'kernel/adjacency/cuthill_mckee.cpp']
NOUT = 1400
SIGS = {'w_tables': sig('w_tables', [('i32', 'shape'), ('out', 'out', 3 * 16 * 8, 8)]),
        'w_continuity': sig('w_continuity', [('i32', 'shape'), ('i32', 'elem'), ('in', 'cnt', 8), ('in', 'data', 8), ('in', 'coords', 8), ('u64', 'npts'), ('in', 'pts', 8), ('out', 'out', NOUT, 8)])}


def dbits(x):
    return struct.unpack('<Q', struct.pack('<d', float(x)))[0]


def bitsd(b):
    return struct.unpack('<d', struct.pack('<Q', b & ((1 << 64) - 1)))[0]


def two_cell_meshes(tab):
    """(name, topo, vertex coordinates, sample points on the shared facet); both cells are affine images of the reference cell"""
    out = []
    out.append(('two quadrilaterals', Topo(0, [[0, 1, 2, 3], [1, 4, 3, 5]], 6, tab), [(0, 0), (1, 0), (0, 1), (1, 1), (2, 0.25), (2, 1.25)], [(1, 0.2), (1, 0.55), (1, 0.875)]))
    out.append(('two triangles', Topo(1, [[0, 1, 2], [2, 1, 3]], 4, tab), [(0, 0), (1, 0), (0, 1), (1.25, 1.5)], [(1 - t, t) for t in (0.2, 0.55, 0.875)]))
    a = (1, 0.25, 0.125); cube = [(i & 1, (i >> 1) & 1, i >> 2) for i in range(8)]
    sh = [tuple(cube[k][d] + a[d] for d in range(3)) for k in (1, 3, 5, 7)]
    out.append(('two hexahedra', Topo(2, [[0, 1, 2, 3, 4, 5, 6, 7], [1, 8, 3, 9, 5, 10, 7, 11]], 12, tab), cube + sh, [(1, 0.2, 0.7), (1, 0.35, 0.125), (1, 0.8, 0.45)]))
    tv = [(0, 0, 0), (1, 0, 0), (0, 1, 0), (0, 0, 1), (1.125, 1.25, 0.875)]
    bary = [(0.2, 0.3, 0.5), (0.625, 0.125, 0.25), (0.15, 0.7, 0.15)]
    out.append(('two tetrahedra', Topo(3, [[0, 1, 2, 3], [1, 2, 3, 4]], 5, tab), tv, [tuple(sum(b[k] * tv[1 + k][d] for k in range(3)) for d in range(3)) for b in bary]))
    return out


def continuity_oracle(topo, symvars, npts):
    def oracle(get, rv, st, ex):
        props = []
        for mdl in all_models(ex, st, symvars):
            tagp = z3.Not(z3.And(*[x == mdl.eval(x, model_completion=True) for x in symvars])) if (mdl is not None and symvars) else False
            cv = (lambda x: cval(x, mdl)) if mdl is not None else (lambda x: x)
            p = 0; vals = []
            ok_form = True
            for c in range(2):
                per = []
                for q in range(npts):
                    n = cv(get('out', p)); p += 1
                    if not (0 < n <= 64) or p + 2 * n > NOUT:
                        ok_form = False; break
                    d = {}
                    inj = True
                    for i in range(n):
                        g = cv(get('out', p)); v = cv(get('out', p + 1)); v = v if isinstance(v, float) else bitsd(v); p += 2
                        inj = inj and g not in d
                        d[g] = v
                    per.append((d, inj))
                if not ok_form:
                    break
                vals.append(per)
            if not ok_form:
                props.append(('evaluation output is well formed', tagp)); continue
            ok_inj = all(inj for per in vals for (_, inj) in per)
            ok_pu = all(abs(sum(d.values()) - 1.0) < 1e-11 for per in vals for (d, _) in per)
            ok_cont, ok_van = True, True
            for q in range(npts):
                d0, d1 = vals[0][q][0], vals[1][q][0]
                for g in set(d0) | set(d1):
                    if g in d0 and g in d1:
                        ok_cont = ok_cont and abs(d0[g] - d1[g]) < 1e-11
                    else:
                        ok_van = ok_van and abs(d0.get(g, d1.get(g))) < 1e-11
            for lab, ok in (('local dofs of a cell map to distinct global dofs', ok_inj), ('basis functions sum to one on the shared facet', ok_pu),
                            ('every global basis function has the same value on the shared facet seen from either cell', ok_cont),
                            ('basis functions of dofs that do not lie on the shared facet vanish there', ok_van)):
                props.append((lab, True if ok else tagp))
        merged = {}
        for lab, pr in props:
            merged.setdefault(lab, []).append(pr)
        out = []
        for lab, prs in merged.items():
            bad = [q for q in prs if q is not True]
            out.append((lab, True if not bad else (bad[0] if len(bad) == 1 else z3.And(*[q if irsym.is_sym(q) else z3.BoolVal(bool(q)) for q in bad]))))
        return out
    return oracle


def continuity_jobs(tab, quick):
    jobs = []
    for (mname, topo, coords, pts) in two_cell_meshes(tab):
        D = topo.D
        shared = [f for f in range(topo.cnt[D - 1]) if sum(1 for row in topo.idx[(D, D - 1)] if f in row) == 2][0]
        frees = [[], [(D, 1)], [(D - 1, shared)], [(D, 1), (D - 1, shared)]]
        if D == 3:
            frees += [[(1, e)] for e in topo.idx[(2, 1)][shared]]
            if not quick:
                frees += [[(2, shared), (1, e)] for e in topo.idx[(2, 1)][shared]] + [[(D, 0)], [(D, 0), (D, 1)]]
        for elem in (2, 3):
            for fr in frees:
                if quick and topo.name == 'hexa' and len(fr) == 2:
                    continue
                flat, cons = symbolic_inputs(topo, fr)
                symvars = [x for x in flat if irsym.is_sym(x)]
                inp = {'shape': topo.shape, 'elem': elem, 'cnt': topo.cnt + [0] * (4 - len(topo.cnt)), 'data': flat, 'coords': [dbits(x) for v in coords for x in v], 'npts': len(pts), 'pts': [dbits(x) for q in pts for x in q], 'out': NOUT}
                nm = 'continuity Lagrange%d on %s, free: %s' % (elem, mname, ', '.join('%d-entity %d' % e for e in fr) if fr else 'none (reference numbering)')
                jobs.append((nm, 'w_continuity', inp, cons, continuity_oracle(topo, symvars, len(pts)), {'max_paths': 4000}))
    return jobs


def main():
    chk = C.Check('C15')
    quick = chk.tier == 'quick'
    lvl = '1' if quick else '2'
    chk.bounds.append('E2: ONE cell of each shape (triangle, quadrilateral, tetrahedron, hexahedron) with all vertex coordinates symbolic (general, incl. non-affine quads/hexas%s) or a symbolic affine image of the reference cell; symbolic reference point; elements Lagrange1, Lagrange2, Discontinuous P0/P1, Crouzeix-Raviart/Rannacher-Turek, Bernstein2 (quad); interpolation of symbolic polynomials of the local degree on affine cells' % ('' if not quick else '; general hexahedra in the thorough tier only'))
    chk.functions += ['Space::{Lagrange1,Lagrange2,Discontinuous,CroRavRanTur,Bernstein2}::Element/Evaluator (eval_ref_values/gradients/hessians, ParametricEvaluator chain rule)', 'Trafo::Standard::Mapping/Evaluator (map_point, calc_jac_mat, calc_hess_ten, jac_det, jac_inv, hess_inv)',
                      'Assembly::Interpolator::project + node functionals + DofMapping', 'Geometry::ReferenceCellFactory, ConformalMesh<Shape,dim,SymReal>', 'Tiny::Matrix/Tensor3 algebra (set_inverse, det, add_mat_tensor_mult, ...)']
    chk.assume(*e2prop.E2_ASSUME)
    chk.assume('derivatives of returned values are formed by symbolic differentiation of the executed term DAG w.r.t. the reference coordinates (driver side)', 'positively oriented, non-degenerate cell at the shadow point; recorded path conditions (pivoting in Tiny::Matrix::set_inverse) restrict the claim',
               'Lagrange3 cannot be instantiated with a non-literal scalar (static constexpr DataType coefficients): its pointwise identities are outside (its DOF orientation handling is covered by the E3 continuity part); Hermite3/Argyris/BFS/CaiDouSanSheYe/Q1~-bnp, inverse mapping are outside')
    only = os.environ.get('C15_ONLY')
    if not only:
        e2prop.run_e2(chk, e2prop.e2_harness_path('c15_e2.cpp'), 'c15_e2', timeout=25 if quick else 90, harness_args=['--bounds', lvl], max_group=1)
    # ---- E3 part: inter-cell continuity with symbolic numbering (evaluators executed in IEEE double, index sets symbolic)
    bdir = C.mkdir(os.path.join(C.BUILD, 'C15'))
    wrapper = os.path.join(C.VERIF, 'wrappers', 'c15_cont.cpp')
    mod, info = e3.build_ir('c15', wrapper, REPO_SRCS, bdir)
    native = e3.Native('c15', wrapper, REPO_SRCS, bdir, list(SIGS.values()))
    chk.extra['ir'] = info
    tab = Tables(native)
    jobs = continuity_jobs(tab, quick)
    if only:
        jobs = [j for j in jobs if only in j[0]]
    chk.bounds.append('E3: Lagrange2 and Lagrange3 on TWO cells sharing a facet (quadrilaterals, triangles, hexahedra, tetrahedra; affine cells), with the second cell in any orientation preserving numbering and/or the shared facet / one of its edges in any congruent numbering (symbolic, solver-guided forking); 3 asymmetric sample points on the shared facet; evaluators in IEEE double, tolerance 1e-11')
    chk.assume('E3 part: floating-point values are concrete; the symbolic inputs are the mesh index sets (numbering / orientation); continuity is sampled at 3 points of the facet (a polynomial of degree <= 3 per direction that agrees with another one for every orientation code at 3 asymmetric points is not proven equal, but a wrong DOF permutation changes the values at generic points)')
    return e3run.run_jobs(chk, mod, native, jobs, info, quick, SIGS, 'c15',
        trusted_extra=list(e2prop.E2_TRUSTED),
        explanation='Partial (stated): the real element and transformation evaluators are executed on one cell whose vertex coordinates and evaluation point are symbolic; z3 decides as exact identities: partition of unity and vanishing gradient/Hessian sums, J = dx/dxi and hess_ten = dJ/dxi, J*J^-1 = I, J^T grad(phi) = d phi/d xi and the second-order chain rule for Hessians (derivatives obtained by differentiating the returned value terms symbolically), jac_det = simplex volume factor, and that interpolating a symbolic polynomial of the local degree through the real node functionals reproduces it at every point. E3 part: the real DofMapping and Lagrange2/Lagrange3 evaluators (incl. the sub-index / congruency mappings that permute edge and face dofs) are executed on two cells sharing a facet for every admissible numbering of the second cell and of the shared facet and its edges; every global basis function must have the same value on the facet seen from either cell, and basis functions of dofs outside the facet must vanish there.')
