"""C19: graph / permutation / colouring / Cuthill-McKee (E3: IR symbolic execution with z3 bit-vectors)"""
import os, itertools, random, time
import z3
from vlib import common as C, e3, e3run
from ir import irsym

REPO_SRCS = ['kernel/adjacency/graph.cpp', 'kernel/adjacency/permutation.cpp', 'kernel/adjacency/coloring.cpp', 'kernel/adjacency/cuthill_mckee.cpp']
GOUT = [('out', 'ond', 1, 8), ('out', 'oni', 1, 8), ('out', 'onidx', 1, 8), ('out', 'odp', None, 8), ('out', 'oii', None, 8)]


def sig(func, spec):
    return e3.Sig(func, [s if s[0] != 'out' or s[2] is not None else ('out', s[1], 0, s[3]) for s in spec])


SIGS = {
    'w_graph_render': sig('w_graph_render', [('i32', 'rt'), ('u64', 'nd'), ('u64', 'ni'), ('u64', 'nidx'), ('in', 'dp', 8), ('in', 'ii', 8)] + GOUT),
    'w_graph_render2': sig('w_graph_render2', [('i32', 'rt'), ('u64', 'nd'), ('u64', 'nm'), ('u64', 'nidx1'), ('in', 'dp1', 8), ('in', 'ii1', 8), ('u64', 'ni'), ('u64', 'nidx2'), ('in', 'dp2', 8), ('in', 'ii2', 8)] + GOUT),
    'w_graph_sort': sig('w_graph_sort', [('u64', 'nd'), ('u64', 'ni'), ('u64', 'nidx'), ('in', 'dp', 8), ('in', 'ii', 8)] + GOUT),
    'w_graph_degree': sig('w_graph_degree', [('u64', 'nd'), ('u64', 'ni'), ('u64', 'nidx'), ('in', 'dp', 8), ('in', 'ii', 8), ('out', 'odeg', 0, 8)]),
    'w_graph_permute': sig('w_graph_permute', [('u64', 'nd'), ('u64', 'ni'), ('u64', 'nidx'), ('in', 'dp', 8), ('in', 'ii', 8), ('in', 'pd', 8), ('in', 'pi', 8)] + GOUT),
    'w_perm': sig('w_perm', [('u64', 'n'), ('i32', 'ctype'), ('in', 'v', 8), ('in', 'data', 8)] + [('out', nm, 0, 8) for nm in ('operm', 'oswap', 'oinvperm', 'oapplied', 'oapplied_inv', 'oinsitu', 'oinsitu_inv')]),
    'w_perm_concat': sig('w_perm_concat', [('u64', 'n'), ('in', 'p1', 8), ('in', 'p2', 8), ('out', 'operm', 0, 8)]),
    'w_coloring': sig('w_coloring', [('u64', 'nd'), ('u64', 'nidx'), ('in', 'dp', 8), ('in', 'ii', 8), ('i32', 'with_order'), ('in', 'order', 8), ('out', 'ocol', 0, 8), ('out', 'oncol', 1, 8),
                                     ('out', 'pnd', 1, 8), ('out', 'pni', 1, 8), ('out', 'pnidx', 1, 8), ('out', 'pdp', 0, 8), ('out', 'pii', 0, 8)]),
    'w_cuthill_mckee': sig('w_cuthill_mckee', [('u64', 'nd'), ('u64', 'nidx'), ('in', 'dp', 8), ('in', 'ii', 8), ('i32', 'reverse'), ('i32', 'rtype'), ('i32', 'stype'), ('out', 'operm', 0, 8), ('out', 'olayers', 0, 8), ('out', 'onlayers', 1, 8)]),
}

B64 = lambda x: x if irsym.is_sym(x) else z3.BitVecVal(x, 64)


def profiles(nd, maxidx):
    """all degree sequences (row lengths) of nd rows with total <= maxidx, as prefix-sum arrays"""
    out = []
    for degs in itertools.product(range(maxidx + 1), repeat=nd):
        if sum(degs) <= maxidx:
            dp = [0]
            for d in degs:
                dp.append(dp[-1] + d)
            out.append(dp)
    return out


def count(terms):
    return z3.Sum([z3.If(t, z3.IntVal(1), z3.IntVal(0)) for t in terms] + [z3.IntVal(0)])


class Runner:
    def __init__(self, chk, mod, native):
        self.chk, self.mod, self.native = chk, mod, native
        self.jobs = []

    def add(self, name, signame, inputs, base, oracle, **kw):
        self.jobs.append((name, signame, inputs, base, oracle, kw))


def graph_out_sizes(inputs, nd_out, nidx_out):
    inputs = dict(inputs); inputs.update({'ond': 1, 'oni': 1, 'onidx': 1, 'odp': nd_out + 1, 'oii': max(nidx_out, 1)})
    return inputs


def render_oracle(rt, dp, ii, nd, ni):
    """returns oracle(get, rv, st, ex) for a single-adjactor render; relation given by profile dp (concrete) and symbolic image indices ii"""
    nx = dp[-1]
    transposed = rt in (4, 5, 6, 7); injective = rt in (2, 3, 6, 7); srt = rt in (1, 3, 5, 7)
    ond_exp, oni_exp = (ni, nd) if transposed else (nd, ni)

    def oracle(get, rv, st, ex):
        props = []
        ond, oni, onidx = get('ond', 0), get('oni', 0), get('onidx', 0)
        props.append(('domain size', B64(ond) == ond_exp)); props.append(('image size', B64(oni) == oni_exp))
        # output sizes must be concrete to read the arrays: they are determined for non-injective renders
        if not injective:
            props.append(('index count', B64(onidx) == nx))
            nout = nx
        else:
            # injectified: onidx is symbolic (depends on duplicates); bound it and read cells under guards
            props.append(('index count <= input count', z3.ULE(B64(onidx), nx)))
            nout = nx
        O = [B64(get('odp', j)) for j in range(ond_exp + 1)]
        OI = [B64(get('oii', k)) if k < max(nout, 1) and nout > 0 else None for k in range(nout)]
        props.append(('ptr[0] == 0', O[0] == 0)); props.append(('ptr[last] == index count', O[ond_exp] == B64(onidx)))
        for j in range(ond_exp):
            props.append(('ptr monotone %d' % j, z3.ULE(O[j], O[j + 1])))
        # membership multiplicities
        for a in range(ond_exp):
            for b in range(oni_exp):
                i, j = (b, a) if transposed else (a, b)   # input pair (domain i, image j)
                cin = count([ii[k] == j for k in range(dp[i], dp[i + 1])])
                cout = count([z3.And(z3.ULE(O[a], k), z3.ULT(k, O[a + 1]), OI[k] == b) for k in range(nout)])
                if injective:
                    props.append(('set membership (%d,%d)' % (a, b), z3.If(cin > 0, cout == 1, cout == 0)))
                else:
                    props.append(('multiplicity (%d,%d)' % (a, b), cin == cout))
        for k in range(nout):
            props.append(('image index in range %d' % k, z3.Implies(z3.ULT(k, B64(onidx)), z3.ULT(OI[k], oni_exp))))
        if srt:
            for a in range(ond_exp):
                for k in range(nout - 1):
                    props.append(('sorted row %d pos %d' % (a, k), z3.Implies(z3.And(z3.ULE(O[a], k), z3.ULT(k + 1, O[a + 1])), z3.ULE(OI[k], OI[k + 1]) if not injective else z3.ULT(OI[k], OI[k + 1]))))
        return props
    return oracle


def sel(arr, idx):
    """arr[idx] for a symbolic index (z3 term): nested ite"""
    r = B64(arr[-1])
    for k in range(len(arr) - 2, -1, -1):
        r = z3.If(B64(idx) == k, B64(arr[k]), r)
    return r


def distinct_lt(vals, n):
    return [z3.ULT(B64(v), n) for v in vals] + ([z3.Distinct(*[B64(v) for v in vals])] if len(vals) > 1 else [])


def row_of(dp, k):
    for i in range(len(dp) - 1):
        if dp[i] <= k < dp[i + 1]:
            return i
    raise Exception('row_of')


def render2_oracle(rt, dp1, ii1, dp2, ii2, nd, nm, ni):
    nx1, nx2 = dp1[-1], dp2[-1]
    transposed = rt in (4, 5, 6, 7); injective = rt in (2, 3, 6, 7); srt = rt in (1, 3, 5, 7)
    ond_exp, oni_exp = (ni, nd) if transposed else (nd, ni)
    nout = nx1 * max(nx2, 1) if nx2 else 0
    nout = min(nout, nx1 * nx2)

    def oracle(get, rv, st, ex):
        props = []
        ond, oni, onidx = B64(get('ond', 0)), B64(get('oni', 0)), B64(get('onidx', 0))
        props.append(('domain size', ond == ond_exp)); props.append(('image size', oni == oni_exp))
        O = [B64(get('odp', j)) for j in range(ond_exp + 1)]
        OI = [B64(get('oii', k)) for k in range(nout)]
        props.append(('ptr[0] == 0', O[0] == 0)); props.append(('ptr[last] == index count', O[ond_exp] == onidx)); props.append(('index count bounded', z3.ULE(onidx, nout)))
        for j in range(ond_exp):
            props.append(('ptr monotone %d' % j, z3.ULE(O[j], O[j + 1])))
        for a in range(ond_exp):
            for b in range(oni_exp):
                i, j = (b, a) if transposed else (a, b)
                # number of paths i -> m -> j
                cin = count([z3.And(B64(ii1[k1]) == row_of(dp2, k2), B64(ii2[k2]) == j) for k1 in range(dp1[i], dp1[i + 1]) for k2 in range(nx2)])
                cout = count([z3.And(z3.ULE(O[a], k), z3.ULT(k, O[a + 1]), OI[k] == b) for k in range(nout)])
                props.append((('set membership' if injective else 'path multiplicity') + ' (%d,%d)' % (a, b), z3.If(cin > 0, cout == 1, cout == 0) if injective else cin == cout))
        if srt:
            for a in range(ond_exp):
                for k in range(nout - 1):
                    props.append(('sorted row %d pos %d' % (a, k), z3.Implies(z3.And(z3.ULE(O[a], k), z3.ULT(k + 1, O[a + 1])), z3.ULT(OI[k], OI[k + 1]) if injective else z3.ULE(OI[k], OI[k + 1]))))
        return props
    return oracle


def sort_oracle(dp, ii, nd, ni):
    nx = dp[-1]

    def oracle(get, rv, st, ex):
        props = [('domain size', B64(get('ond', 0)) == nd), ('image size', B64(get('oni', 0)) == ni), ('index count', B64(get('onidx', 0)) == nx)]
        OI = [B64(get('oii', k)) for k in range(nx)]
        for i in range(nd + 1):
            props.append(('ptr unchanged %d' % i, B64(get('odp', i)) == dp[i]))
        for i in range(nd):
            for j in range(ni):
                props.append(('row %d keeps multiplicity of %d' % (i, j), count([B64(ii[k]) == j for k in range(dp[i], dp[i + 1])]) == count([OI[k] == j for k in range(dp[i], dp[i + 1])])))
            for k in range(dp[i], dp[i + 1] - 1):
                props.append(('row %d ascending at %d' % (i, k), z3.ULE(OI[k], OI[k + 1])))
        return props
    return oracle


def degree_oracle(dp, nd):
    def oracle(get, rv, st, ex):
        props = [('max degree', B64(get('odeg', 0)) == max([dp[i + 1] - dp[i] for i in range(nd)] + [0]))]
        for i in range(nd):
            props.append(('degree of node %d' % i, B64(get('odeg', 1 + i)) == dp[i + 1] - dp[i]))
        return props
    return oracle


def permute_oracle(dp, ii, pd, pi, nd, ni):
    nx = dp[-1]

    def oracle(get, rv, st, ex):
        props = [('domain size', B64(get('ond', 0)) == nd), ('image size', B64(get('oni', 0)) == ni), ('index count', B64(get('onidx', 0)) == nx)]
        O = [B64(get('odp', j)) for j in range(nd + 1)]; OI = [B64(get('oii', k)) for k in range(nx)]
        props.append(('ptr[0] == 0', O[0] == 0))
        for a in range(nd):
            props.append(('ptr monotone %d' % a, z3.ULE(O[a], O[a + 1])))
            # new row a is old row pd[a] with every image index j relabelled to pi[j]
            for i in range(nd):
                props.append(('row length new %d = old %d' % (a, i), z3.Implies(B64(pd[a]) == i, O[a + 1] - O[a] == dp[i + 1] - dp[i])))
                for b in range(ni):
                    cin = count([sel(pi, ii[k]) == b for k in range(dp[i], dp[i + 1])])
                    cout = count([z3.And(z3.ULE(O[a], k), z3.ULT(k, O[a + 1]), OI[k] == b) for k in range(nx)])
                    props.append(('relabelled multiplicity new(%d,%d) from old row %d' % (a, b, i), z3.Implies(B64(pd[a]) == i, cin == cout)))
        props.append(('ptr[last]', O[nd] == nx))
        return props
    return oracle


def sym_swap(x, i, j):
    """x with positions i (concrete) and j (symbolic) swapped"""
    xi, xj = x[i], sel(x, j)
    return [z3.If(B64(j) == k, xi, x[k]) if k != i else xj for k in range(len(x))]


def perm_oracle(n, ctype, v, data):
    def oracle(get, rv, st, ex):
        P = [B64(get('operm', i)) for i in range(n)]; S = [B64(get('oswap', i)) for i in range(n)]; Q = [B64(get('oinvperm', i)) for i in range(n)]
        A = [B64(get('oapplied', i)) for i in range(n)]; Ai = [B64(get('oapplied_inv', i)) for i in range(n)]; I = [B64(get('oinsitu', i)) for i in range(n)]; Ii = [B64(get('oinsitu_inv', i)) for i in range(n)]
        D = [B64(d) for d in data]
        props = [('perm in range %d' % i, z3.ULT(P[i], n)) for i in range(n)]
        if n > 1:
            props.append(('perm is a bijection', z3.Distinct(*P)))
        for i in range(n):
            props.append(('swap position valid %d' % i, z3.And(z3.UGE(S[i], i), z3.ULT(S[i], n))))
            props.append(('inverse undoes perm %d' % i, sel(Q, P[i]) == i))
            props.append(('apply: y[i] = x[perm[i]] %d' % i, A[i] == sel(D, P[i])))
            props.append(('apply inverse: y[perm[i]] = x[i] %d' % i, sel(Ai, P[i]) == D[i]))
            props.append(('in-situ == copying (forward) %d' % i, I[i] == A[i]))
            props.append(('in-situ == copying (inverse) %d' % i, Ii[i] == Ai[i]))
        if ctype == 2:
            props += [('perm == input %d' % i, P[i] == B64(v[i])) for i in range(n)]
        if ctype == 4:
            props += [('perm[inv input[i]] == i %d' % i, sel(P, v[i]) == i) for i in range(n)]
        if ctype in (3, 5):
            x = list(D)
            for i in range(n - 1):
                x = sym_swap(x, i, v[i])
            tgt = I if ctype == 3 else Ii
            props += [('swap semantics %d' % i, tgt[i] == x[i]) for i in range(n)]
            if ctype == 3:
                props += [('swap array kept %d' % i, S[i] == B64(v[i])) for i in range(n - 1)]
        return props
    return oracle


def concat_oracle(n, p1, p2):
    def oracle(get, rv, st, ex):
        return [('concat: P3[i] = P2[P1[i]] %d' % i, B64(get('operm', i)) == sel(p2, p1[i])) for i in range(n)]
    return oracle


def symmetric_constraints(dp, ii, nd):
    """adjacency relation is symmetric: j in row i  <=>  i in row j"""
    cons = []
    for i in range(nd):
        for j in range(nd):
            a = z3.Or([B64(ii[k]) == j for k in range(dp[i], dp[i + 1])] + [z3.BoolVal(False)])
            b = z3.Or([B64(ii[k]) == i for k in range(dp[j], dp[j + 1])] + [z3.BoolVal(False)])
            cons.append(a == b)
    return cons


def coloring_oracle(dp, ii, nd, with_order, order):
    nx = dp[-1]

    def oracle(get, rv, st, ex):
        props = [('node count', (B64(rv) if irsym.is_sym(rv) else z3.BitVecVal(rv, 64)) == nd)]
        Cc = [B64(get('ocol', i)) for i in range(nd)]; nc = B64(get('oncol', 0))
        for i in range(nd):
            props.append(('colour in range %d' % i, z3.ULT(Cc[i], nc)))
            for k in range(dp[i], dp[i + 1]):
                props.append(('adjacent nodes differ: node %d, entry %d' % (i, k), z3.Implies(B64(ii[k]) != i, Cc[i] != sel(Cc, ii[k]))))
        props.append(('at most nd colours', z3.ULE(nc, max(nd, 0))))
        # partition graph: domain = colours, image = nodes, every node listed exactly once under its colour
        props += [('partition: domain size == colours', B64(get('pnd', 0)) == nc), ('partition: image size == nodes', B64(get('pni', 0)) == nd), ('partition: index count == nodes', B64(get('pnidx', 0)) == nd)]
        PD = [B64(get('pdp', c)) for c in range(nd + 1)]; PI = [B64(get('pii', k)) for k in range(nd)]
        if nd:
            props.append(('partition ptr[0]', PD[0] == 0))
        for c in range(nd):
            props.append(('partition ptr monotone %d' % c, z3.Implies(z3.ULT(c, nc), z3.ULE(PD[c], PD[c + 1]))))
        for i in range(nd):
            props.append(('node %d listed exactly once' % i, count([PI[k] == i for k in range(nd)]) == 1))
            for k in range(nd):
                for c in range(nd):
                    props.append(('node at pos %d lies in the block of its colour %d' % (k, c), z3.Implies(z3.And(PI[k] == i, Cc[i] == c, z3.ULT(c, nc)), z3.And(z3.ULE(PD[c], k), z3.ULT(k, PD[c + 1])))))
        return props
    return oracle


def cm_oracle(nd):
    def oracle(get, rv, st, ex):
        P = [B64(get('operm', i)) for i in range(nd)]
        props = [('size', (B64(rv) if irsym.is_sym(rv) else z3.BitVecVal(rv, 64)) == nd)] + [('perm in range %d' % i, z3.ULT(P[i], nd)) for i in range(nd)]
        if nd > 1:
            props.append(('ordering is a bijection', z3.Distinct(*P)))
        return props
    return oracle


def main():
    chk = C.Check('C19', level='model_checking')
    quick = chk.tier == 'quick'
    chk.bounds.append('E3: render: domain/image <= %d/%d nodes, <= %d indices (all degree sequences); composite render 2x2x2 nodes; colouring/CM <= %s nodes (quick: plus four 4-node multi-component profiles for CM); permutations n <= %s; all index values symbolic 64-bit' % ((2, 2, 3, 3, 3) if quick else (3, 3, 4, 4, 4)))
    chk.assume('colouring and Cuthill-McKee are checked on symmetric adjacency relations (their documented input)', 'allocation failure is out of scope (operator new never fails)', 'exceptions / XASSERT / XABORT are modelled as abort paths: an abort on valid input is a violation')
    bdir = C.mkdir(os.path.join(C.BUILD, 'C19'))
    wrapper = os.path.join(C.VERIF, 'wrappers', 'c19_adj.cpp')
    mod, info = e3.build_ir('c19', wrapper, REPO_SRCS, bdir)
    native = e3.Native('c19', wrapper, REPO_SRCS, bdir, list(SIGS.values()))
    chk.extra['ir'] = info
    rnd = random.Random(chk.seed)
    jobs = []
    ND, NI, NX = (2, 2, 3) if quick else (3, 3, 4)
    # ---- single render, all 8 render types
    for rt in range(8):
        for nd in range(0, ND + 1):
            for ni in range(1, NI + 1):
                for dp in profiles(nd, NX):
                    nx = dp[-1]
                    ii = [z3.BitVec('ii%d' % k, 64) for k in range(nx)]
                    base = [z3.ULT(v, ni) for v in ii]
                    transposed = rt in (4, 5, 6, 7)
                    inputs = graph_out_sizes({'rt': rt, 'nd': nd, 'ni': ni, 'nidx': nx, 'dp': dp, 'ii': ii}, ni if transposed else nd, nx)
                    jobs.append(('render rt=%d nd=%d ni=%d profile=%s' % (rt, nd, ni, dp), 'w_graph_render', inputs, base, render_oracle(rt, dp, ii, nd, ni), {}))

    # ---- composite render (two adjactors), sort, degree, permuted copy
    N2 = 2
    for rt in range(8):
        for dp1 in profiles(N2, 2):
            for dp2 in profiles(N2, 2):
                nx1, nx2 = dp1[-1], dp2[-1]
                if not quick or (nx1 + nx2 <= 3):
                    ii1 = [z3.BitVec('a%d' % k, 64) for k in range(nx1)]; ii2 = [z3.BitVec('b%d' % k, 64) for k in range(nx2)]
                    base = [z3.ULT(v, N2) for v in ii1] + [z3.ULT(v, N2) for v in ii2]
                    tr = rt >= 4
                    inputs = graph_out_sizes({'rt': rt, 'nd': N2, 'nm': N2, 'nidx1': nx1, 'dp1': dp1, 'ii1': ii1, 'ni': N2, 'nidx2': nx2, 'dp2': dp2, 'ii2': ii2}, N2, nx1 * nx2)
                    jobs.append(('render2 rt=%d profiles=%s x %s' % (rt, dp1, dp2), 'w_graph_render2', inputs, base, render2_oracle(rt, dp1, ii1, dp2, ii2, N2, N2, N2), {}))
    for nd in range(1, ND + 1):
        for dp in profiles(nd, NX):
            nx = dp[-1]; ni = NI
            ii = [z3.BitVec('ii%d' % k, 64) for k in range(nx)]; base = [z3.ULT(v, ni) for v in ii]
            jobs.append(('sort nd=%d profile=%s' % (nd, dp), 'w_graph_sort', graph_out_sizes({'nd': nd, 'ni': ni, 'nidx': nx, 'dp': dp, 'ii': ii}, nd, nx), base, sort_oracle(dp, ii, nd, ni), {}))
            inp = {'nd': nd, 'ni': ni, 'nidx': nx, 'dp': dp, 'ii': ii, 'odeg': nd + 1}
            jobs.append(('degree nd=%d profile=%s' % (nd, dp), 'w_graph_degree', inp, base, degree_oracle(dp, nd), {}))
            pd = [z3.BitVec('pd%d' % k, 64) for k in range(nd)]; pi = [z3.BitVec('pi%d' % k, 64) for k in range(ni)]
            jobs.append(('permute nd=%d ni=%d profile=%s' % (nd, ni, dp), 'w_graph_permute', graph_out_sizes({'nd': nd, 'ni': ni, 'nidx': nx, 'dp': dp, 'ii': ii, 'pd': pd, 'pi': pi}, nd, nx),
                         base + distinct_lt(pd, nd) + distinct_lt(pi, ni), permute_oracle(dp, ii, pd, pi, nd, ni), {}))
    # ---- permutations from every representation
    for n in range(1, (3 if quick else 4) + 1):
        for ctype in (2, 3, 4, 5):
            v = [z3.BitVec('v%d' % k, 64) for k in range(n)]; data = [z3.BitVec('x%d' % k, 64) for k in range(n)]
            base = distinct_lt(v, n) if ctype in (2, 4) else [z3.And(z3.UGE(v[i], i), z3.ULT(v[i], n)) for i in range(n)]
            inp = {'n': n, 'ctype': ctype, 'v': v, 'data': data}
            inp.update({nm: n for nm in ('operm', 'oswap', 'oinvperm', 'oapplied', 'oapplied_inv', 'oinsitu', 'oinsitu_inv')})
            jobs.append(('permutation n=%d ctype=%d' % (n, ctype), 'w_perm', inp, base, perm_oracle(n, ctype, v, data), {}))
        p1 = [z3.BitVec('p%d' % k, 64) for k in range(n)]; p2 = [z3.BitVec('q%d' % k, 64) for k in range(n)]
        jobs.append(('permutation concat n=%d' % n, 'w_perm_concat', {'n': n, 'p1': p1, 'p2': p2, 'operm': n}, distinct_lt(p1, n) + distinct_lt(p2, n), concat_oracle(n, p1, p2), {}))
    # ---- colouring and Cuthill-McKee on symmetric graphs
    NC, NXC = (3, 4) if quick else (4, 6)
    for nd in range(1, NC + 1):
        for dp in profiles(nd, NXC):
            nx = dp[-1]
            ii = [z3.BitVec('ii%d' % k, 64) for k in range(nx)]
            base = [z3.ULT(v, nd) for v in ii] + symmetric_constraints(dp, ii, nd)
            s0 = z3.Solver(); s0.add(*base)
            if s0.check() != z3.sat:
                continue   # no symmetric graph has this degree sequence
            for wo in (0, 1):
                order = [z3.BitVec('o%d' % k, 64) for k in range(nd)] if wo else [0] * nd
                inp = {'nd': nd, 'nidx': nx, 'dp': dp, 'ii': ii, 'with_order': wo, 'order': order, 'ocol': nd, 'oncol': 1, 'pnd': 1, 'pni': 1, 'pnidx': 1, 'pdp': nd + 2, 'pii': max(nd, 1)}
                jobs.append(('coloring nd=%d profile=%s order=%d' % (nd, dp, wo), 'w_coloring', inp, base + (distinct_lt(order, nd) if wo else []), coloring_oracle(dp, ii, nd, wo, order), {}))
            if nd <= 3 or not quick:
                for rev in (0, 1):
                    for rtype in (0, 1, 2):
                        for stype in (0, 1, 2):
                            if quick and rev == 1 and stype != 0:
                                continue
                            inp = {'nd': nd, 'nidx': nx, 'dp': dp, 'ii': ii, 'reverse': rev, 'rtype': rtype, 'stype': stype, 'operm': nd, 'olayers': nd + 2, 'onlayers': 1}
                            jobs.append(('cuthill-mckee nd=%d profile=%s rev=%d root=%d sort=%d' % (nd, dp, rev, rtype, stype), 'w_cuthill_mckee', inp, base, cm_oracle(nd), {}))
    if quick:
        # a few 4-node profiles with more than one component (degree sequences 2,1,1,0 and 1,1,1,1 and 2,1,1,0 permuted): Cuthill-McKee only
        for dp in ([0, 2, 3, 4, 4], [0, 1, 2, 3, 4], [0, 0, 2, 3, 4], [0, 1, 3, 4, 4]):
            nd, nx = 4, dp[-1]
            ii = [z3.BitVec('ii%d' % k, 64) for k in range(nx)]
            base = [z3.ULT(v, nd) for v in ii] + symmetric_constraints(dp, ii, nd)
            s0 = z3.Solver(); s0.add(*base)
            if s0.check() != z3.sat:
                continue
            for rev in (0, 1):
                for rtype in (0, 1, 2):
                    inp = {'nd': nd, 'nidx': nx, 'dp': dp, 'ii': ii, 'reverse': rev, 'rtype': rtype, 'stype': rtype, 'operm': nd, 'olayers': nd + 2, 'onlayers': 1}
                    jobs.append(('cuthill-mckee nd=%d profile=%s rev=%d root=%d sort=%d' % (nd, dp, rev, rtype, rtype), 'w_cuthill_mckee', inp, base, cm_oracle(nd), {}))
    return e3run.run_jobs(chk, mod, native, jobs, info, quick, SIGS, 'c19')


if __name__ == '__main__':
    raise SystemExit(main())
