"""C08: preconditioners (E2 class level)"""
from vlib import common as C, e2prop


def main():
    chk = C.Check('C08')
    quick = chk.tier == 'quick'
    b = ['3', '2', '2'] if quick else ['3', '3', '3']
    chk.bounds.append('E2: square CSR matrices n = 1..%s with stored diagonal and EVERY off-diagonal pattern; fill levels p = 0..%s; polynomial order m = 1 (n<=3), m = 2 (n <= %s); filter none / unit{0}; one value update + init_numeric + second apply per object' % (b[0], b[1], b[2]))
    chk.functions += ['Solver::new_{jacobi,sor,ssor,ilu,polynomial,scale,diagonal}_precond -> init/apply/done_numeric/init_numeric/done on SparseMatrixCSR<SymReal,Index>',
                      'Solver::SORPrecondWithBackend<generic,CSR>::_apply_intern', 'Solver::SSORPrecondWithBackend<generic,CSR>::_apply_intern', 'Solver::Intern::ILUCoreSymbolic::{set_struct_csr,factorize_symbolic}', 'Solver::Intern::ILUCoreScalar::{copy_data_csr,factorize_numeric_il_du,solve_il,solve_du}']
    chk.assume(*e2prop.E2_ASSUME)
    chk.assume('pivots / diagonal entries non-zero (the divisors of the executed code)', 'operator identities for SOR/SSOR/ILU/polynomial are checked with the none filter; with the unit filter only "filter applied last" + Jacobi/scale identities')
    import os
    if os.environ.get('C08_ONLY_BLOCKED') is None:
        e2prop.run_e2(chk, e2prop.e2_harness_path('c08_e2.cpp'), 'c08_e2', timeout=30 if quick else 100, harness_args=['--bounds'] + b, max_group=1)
    # blocked slice
    chk.bounds.append('E2 blocked slice: SparseMatrixBCSR<.,.,2,2> with 1..2 block rows, stored block diagonal and every off-diagonal block pattern; Jacobi, block SOR, block SSOR, block ILU(0) on patterns without dropped fill; none filter')
    chk.functions += ['Solver::SORPrecondWithBackend<generic,BCSR>::_apply_intern', 'Solver::SSORPrecondWithBackend<generic,BCSR>::{apply,_apply_intern}', 'Solver::ILUPrecondWithBackend<generic,BCSR> + Intern::ILUCoreBlocked', 'Tiny::Matrix<SymReal,2,2>::set_inverse']
    e2prop.run_e2(chk, e2prop.e2_harness_path('c08b_e2.cpp'), 'c08b_e2', timeout=30 if quick else 100, harness_args=['--bounds', '2'], max_group=1)
    return chk.finish(
        explanation='Bounded symbolic check: the preconditioner objects created by the public factory functions run on SparseMatrixCSR over a symbolic real scalar for every pattern in the bound; z3 decides the multiply-back identity with the textbook operator (Jacobi, SOR, SSOR, Neumann polynomial, ILU(p) against an independent dense level-of-fill factorisation, exact inverse when the pattern is complete) for ALL real matrix values, omega and inputs, also after a matrix value update followed by init_numeric.',
        rule=e2prop.E2_RULE, trusted=e2prop.E2_TRUSTED)
