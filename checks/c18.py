"""C18 (partial, restricted): grid transfer on one refined simplex from a symbolic affine family (E2)"""
from vlib import common as C, e2prop


def main():
    chk = C.Check('C18')
    quick = chk.tier == 'quick'
    lvl = '1' if quick else '2'
    chk.bounds.append('E2: one coarse triangle (thorough: + tetrahedron) from the affine family x = [[hx, sk],[0, hy]] xhat with 1..%s free parameters, refined once by the real StandardRefinery; Lagrange1, Discontinuous P0 (1..%s parameters), Discontinuous P1 (1 parameter); Lagrange2 in the thorough tier; Lagrange1 / Discontinuous P0 additionally with the fine, the coarse or both meshes renumbered by a custom mesh permutation (cyclic shifts in every dimension)' % (('2', '2') if quick else ('3', '3')))
    chk.functions += ['Geometry::StandardRefinery (vertex/index refiners on a SymReal mesh)', 'Assembly::SymbolicAssembler::assemble_matrix_2lvl', 'Assembly::GridTransfer::{assemble_prolongation(_direct), assemble_truncation(_direct), prolongate_vector(_direct)}', 'Math::invert_matrix on symbolic local mass matrices (pivoting recorded as path conditions)',
                      'LAFEM::Transfer::{prol,rest,trunc}', 'LAFEM::SparseMatrixCSR::{transpose,scale_rows}', 'Geometry::Intern::CoarseFineCellMapping']
    chk.assume(*e2prop.E2_ASSUME)
    chk.assume('identities seen through a pivoted symbolic matrix inversion are only decidable for few geometry parameters: quadrilaterals/hexahedra, fully symbolic vertices and multi-level/global transfer objects are outside (DESIGN section C18)')
    e2prop.run_e2(chk, e2prop.e2_harness_path('c18_e2.cpp'), 'c18_e2', timeout=40 if quick else 120, harness_args=['--bounds', lvl], max_group=1)
    return chk.finish(
        explanation='Partial and restricted (stated): on one coarse simplex from a 1-3 parameter affine family, refined by the real refinery, the real GridTransfer assembly is executed symbolically; z3 decides that every prolongation row sums to 1, that for Lagrange1 every entry equals the value of the coarse basis function at the fine node (1, 1/2, 0), that the restriction matrix is the transpose, and that LAFEM::Transfer and the matrix-free prolongation agree with the assembled matrices for all vectors.',
        rule=e2prop.E2_RULE, trusted=e2prop.E2_TRUSTED)
