"""C14: cubature rules.  The rule tables are produced by executing the real factory code of the current tree (no input to make
symbolic); the symbolic part is the integrand: z3 (LRA, exact rationals) is asked for a polynomial of total degree <= nominal
degree with coefficients in [-1,1] that the rule integrates wrongly by more than the tolerance."""
import os, re, math, time
from fractions import Fraction
from vlib import common as C

TOL = Fraction(1, 10 ** 11)


def nominal_degree(name, aliases):
    """documented degree of exactness of the rule requested by <name>; None = no documented degree (not checked)"""
    n = name
    while True:
        m = re.match(r'refine(\*\d+)?:(.*)$', n)
        if not m:
            break
        n = m.group(2)
    if n in aliases and aliases[n]:
        n = aliases[n]
    m = re.match(r'auto-degree:(\d+)$', n)
    if m:
        return int(m.group(1))
    m = re.match(r'([a-z0-9-]+?)(?::(\d+))?$', n)
    if not m:
        return None
    base, k = m.group(1), (int(m.group(2)) if m.group(2) else None)
    if base in ('barycentre', 'trapezoidal', 'midpoint'):
        return 1
    if base == 'gauss-legendre':
        return 2 * k - 1
    if base == 'gauss-lobatto':
        return 2 * k - 3
    if base in ('newton-cotes-closed', 'newton-cotes-open', 'maclaurin'):
        return k if k % 2 == 1 else k - 1
    if base == 'dunavant':
        return k
    if base == 'silvester-open':
        return k  # interpolatory on (k+1)(k+2)/2 lattice points: at least degree k
    if base == 'shunn-ham':
        return k  # conservative lower bound of the published degrees (2,3,5,6,8)
    m2 = re.match(r'(hammer-stroud|lauffer)-degree-(\d+)$', base)
    if m2:
        return int(m2.group(2))
    return None


def monomials(dim, deg):
    if dim == 1:
        return [(a,) for a in range(deg + 1)]
    out = []
    for a in range(deg + 1):
        for rest in monomials(dim - 1, deg - a):
            out.append((a,) + rest)
    return out


def exact_moment(shape, alpha):
    d = len(alpha)
    if shape[0] == 'S':
        num = 1
        for a in alpha:
            num *= math.factorial(a)
        return Fraction(num, math.factorial(sum(alpha) + d))
    r = Fraction(1)
    for a in alpha:
        r *= Fraction(2, a + 1) if a % 2 == 0 else 0
    return r


def _decide_rule(job):
    import z3
    r, deg = job
    dim = int(r['shape'][1])
    W = sum(abs(p[0]) for p in r['pts'])
    tol = TOL * max(W, Fraction(1))
    mons = monomials(dim, deg)
    # powers per point and dimension
    pw = [[[Fraction(1)] for d in range(dim)] for p in r['pts']]
    for i, p in enumerate(r['pts']):
        for d in range(dim):
            for k in range(deg):
                pw[i][d].append(pw[i][d][-1] * p[1 + d])
    errs = []
    for al in mons:
        q = Fraction(0)
        for i, p in enumerate(r['pts']):
            t = p[0]
            for d in range(dim):
                t *= pw[i][d][al[d]]
            q += t
        errs.append(q - exact_moment(r['shape'], al))
    t0 = time.time()
    s = z3.Solver()
    cs = [z3.Real('c%d' % i) for i in range(len(mons))]
    for c in cs:
        s.add(c >= -1, c <= 1)
    expr = z3.Sum([c * z3.RealVal(str(e)) for c, e in zip(cs, errs) if e != 0] + [z3.RealVal(0)])
    s.add(z3.Or(expr > z3.RealVal(str(tol)), expr < -z3.RealVal(str(tol))))
    res = str(s.check())
    dt = time.time() - t0
    worst = max(range(len(mons)), key=lambda i: abs(errs[i]))
    qf = sum(float(p[0]) * math.prod(float(p[1 + d]) ** mons[worst][d] for d in range(dim)) for p in r['pts'])
    return res, dt, len(mons), mons[worst], float(errs[worst]), float(errs[0]), qf, float(exact_moment(r['shape'], mons[worst]))


def main():
    import z3
    chk = C.Check('C14', level='other')
    quick = chk.tier == 'quick'
    bdir = C.mkdir(os.path.join(C.BUILD, 'C14'))
    exe = os.path.join(bdir, 'c14_dump')
    C.compile_cxx(os.path.join(C.VERIF, 'harness', 'c14_dump.cpp'), exe, opt='-O1', objs=[os.path.join(C.VERIF, 'e2', 'feat_stubs.cpp')])
    rc, so, se, w = C.run([exe, '1' if quick else '2'], timeout=600)
    if rc != 0:
        raise C.MachineryError('cubature dump failed: ' + se[-500:])
    rules, aliases, refused, cur = [], {}, [], None
    for ln in so.split('\n'):
        if ln.startswith('ADVERTISED '):
            m = re.match(r'ADVERTISED (\S+) (\S+) -> (\S*)', ln)
            if m.group(3):
                aliases[m.group(2)] = m.group(3)
        elif ln.startswith('RULE '):
            head, origin, mapped, npts = ln[5:].split('\t')
            shape, name = head.split(' ', 1)
            cur = {'shape': shape, 'name': name, 'origin': origin, 'mapped': mapped, 'pts': []}
            rules.append(cur)
        elif ln.startswith('P '):
            p = [Fraction(float.fromhex(x)) for x in ln.split()[1:]]
            cur['pts'].append(p)
        elif ln.startswith('REFUSED '):
            head, origin = ln[8:].split('\t')
            parts = head.split(' ', 1)
            refused.append((parts[0], parts[1] if len(parts) > 1 else '', origin))
    chk.functions += ['Cubature::DynamicFactory::create<Shape,double,...> for every advertised name of Simplex<1..3>, Hypercube<1..3> (FactoryWrapper, AutoAlias/AutoDegree::choose, RefineFactory, TensorProductFactory, SimplexScalarFactory and all drivers are executed, not modelled)']
    chk.bounds.append('every advertised rule name x parameter range, refine / refine*2 (thorough: refine*k, k<=2 for all), auto-degree:0..max; polynomials of total degree <= nominal degree with coefficients in [-1,1]; tolerance 1e-11 * sum|w|')
    chk.assume('nominal degrees are taken from the driver documentation / property text (Gauss-Legendre 2n-1, Gauss-Lobatto 2n-3, Newton-Cotes/Maclaurin by parity, Dunavant n, Hammer-Stroud / Lauffer by name, Silvester-open n, Shunn-Ham >= n, barycentre/trapezoidal/midpoint 1)',
               'hex-float dump of weights/points is exact; integration error is evaluated in exact rational arithmetic')
    limit = 40000 if quick else 400000
    jobs = []
    for r in rules:
        sig = '%s/%s' % (r['shape'], r['name'])
        if r['origin'] in ('unknown', 'out-of-range', 'malformed', 'missing-parameter'):
            if r['origin'] == 'unknown' and r['name'] in ('refine*0:barycentre', 'gauss-legendre:2:3'):
                continue  # debatable prefix parsing, not raised
            chk.violation('accepted:' + sig, 'cubature name %r (%s) for shape %s is not refused but answered with rule %r' % (r['name'], r['origin'], r['shape'], r['mapped']), {'name': r['name'], 'shape': r['shape']}, queries=0)
            continue
        deg = nominal_degree(r['name'], aliases)
        if deg is None:
            chk.inconcl(sig, 'no documented nominal degree', queries=0)
            continue
        dim = int(r['shape'][1])
        nm = math.comb(deg + dim, dim)
        if nm * len(r['pts']) > limit:
            chk.extra['rules_outside_cost_bound'] = chk.extra.get('rules_outside_cost_bound', 0) + 1
            continue
        jobs.append((r, deg))
    import concurrent.futures
    with concurrent.futures.ProcessPoolExecutor(max_workers=C.NCPU) as ex:
        results = list(ex.map(_decide_rule, jobs, chunksize=4))
    for (r, deg), (res, dt, nmons, worst, errw, err0, qf, exf) in zip(jobs, results):
        sig = '%s/%s' % (r['shape'], r['name'])
        if res == 'unsat':
            chk.ok(sig, queries=1, solver_s=dt, sample={'obligation': sig, 'engine': 'table dump + z3 LRA', 'nominal_degree': deg, 'points': len(r['pts']), 'monomials': nmons, 'verdict': 'unsat'})
        elif res == 'sat':
            desc = 'rule %r on %s (%d points, mapped to %r): monomial x^%s of degree %d <= nominal %d is integrated with error %.3e (sum of weights error %.3e)' % (
                r['name'], r['shape'], len(r['pts']), r['mapped'], list(worst), sum(worst), deg, errw, err0)
            if abs(qf - exf) > 1e-12:
                chk.violation(sig, desc, {'rule': r['name'], 'shape': r['shape'], 'monomial': list(worst), 'quadrature_value': qf, 'exact': exf}, queries=1, solver_s=dt)
            else:
                chk.error('counterexample for %s did not reproduce in floating point' % sig)
        else:
            chk.inconcl(sig, 'z3 unknown', queries=1, solver_s=dt)
    # advertised / refine / auto-degree names must be accepted
    for shape, name, origin in refused:
        if origin in ('advertised', 'refine', 'auto-degree', 'auto-degree-refine'):
            chk.violation('refused:%s/%s' % (shape, name), 'advertised cubature name %r is refused for shape %s' % (name, shape), {'name': name, 'shape': shape}, queries=0)
        else:
            chk.ok('refused:%s/%s' % (shape, name), queries=0)
    chk.extra['rules_dumped'] = len(rules)
    chk.extra['names_refused_as_expected'] = len([1 for x in refused if x[2] not in ('advertised', 'refine', 'auto-degree', 'auto-degree-refine')])
    return chk.finish(
        explanation='Weakest fit of the family (stated in DESIGN.md): the rule tables are the complete execution of the real factory code for each advertised name; z3 decides in exact linear real arithmetic that no polynomial of total degree <= nominal degree with coefficients in [-1,1] is integrated with an error above 1e-11*sum|w| (unsat), or returns such a polynomial; unknown / out-of-range names must be refused.',
        rule='one obligation = one (shape, rule name) pair incl. refine/auto-degree prefixes: z3 LRA query over the coefficient box; plus one obligation per name that must be refused',
        trusted=['g++ build of the real cubature headers', 'exact rational moments of monomials on the reference cells (closed forms)', 'z3 5.1.0 LRA', 'nominal degree table in checks/c14.py'])


if __name__ == '__main__':
    raise SystemExit(main())
