"""C02: conversion / cloning / transposition / permutation (E2 class level)"""
from vlib import common as C, e2prop


def main():
    chk = C.Check('C02')
    quick = chk.tier == 'quick'
    b = ['3', '4'] if quick else ['3', '6']
    chk.bounds.append('E2: CSR matrices with rows*cols <= 6 (0..3 x 0..3), every sorted duplicate-free pattern with <= %s entries incl. entry-free and empty rows; all 5 clone modes for index type pairs u64->u64, u64->u32, u32->u64; every row x column permutation; DenseMatrix transpose into 6 target shapes' % b[1])
    chk.functions += ['LAFEM::SparseMatrixCSR::{transpose,clone,convert(CSCR|Banded|BCSR|CSR<other IT>),permute,SparseMatrixCSR(Graph),SparseMatrixCSR(layout)}', 'LAFEM::SparseMatrixCSCR::convert(CSR)', 'LAFEM::SparseMatrixBanded::convert(CSR)', 'LAFEM::Container::clone/assign (same and other index type)',
                      'LAFEM::DenseMatrix::{transpose,transpose_inplace}', 'LAFEM::Arch::Transpose::value_generic', 'Adjacency::Permutation::{Permutation(perm),inverse,get_perm_pos}', 'Adjacency::Graph(RenderType::as_is, matrix)']
    chk.assume(*e2prop.E2_ASSUME)
    chk.assume('values are opaque symbolic payloads (these operations only move values); index arrays are concrete per swept pattern, their validity is checked on each run')
    e2prop.run_e2(chk, e2prop.e2_harness_path('c02_e2.cpp'), 'c02_e2', timeout=60, harness_args=['--bounds'] + b)
    # meta-matrix slice: conversion of the meta matrices of c01_e2.cpp to one CSR matrix, scale_rows / scale_cols
    chk.bounds.append('E2 meta-matrix slice: PowerRow/Col/Diag/Full and SaddlePoint matrices over CSR blocks (3 block variants incl. entry-free blocks and empty rows) converted to one SparseMatrixCSR; PowerDiag scale_rows / scale_cols; extract_diag of square PowerDiag / PowerFull / TupleDiag matrices (3x3, blocks 2x2 and 1x1) against the dense diagonal')
    chk.functions += ['LAFEM::SparseMatrixCSR::convert(const MT_&) for PowerRowMatrix / PowerColMatrix / PowerDiagMatrix / PowerFullMatrix / SaddlePointMatrix', 'get_length_of_line / set_line of the meta matrices', 'LAFEM::{PowerDiagMatrix,PowerFullMatrix,TupleDiagMatrix}::extract_diag', 'LAFEM::PowerDiagMatrix::{scale_rows,scale_cols}']
    e2prop.run_e2(chk, e2prop.e2_harness_path('c02m_e2.cpp'), 'c02m_e2', timeout=60, harness_args=[], max_group=1)
    # blocked slice: BCSR<2,3> clone modes, index-type conversion, permutation, construction from a Graph
    chk.bounds.append('E2 blocked slice: SparseMatrixBCSR<2,3> with 1..2 x 1..2 blocks and every pattern with 1..3 blocks: all 5 clone modes, conversion u64 -> u32 -> u64, every row x column permutation, construction from a Graph')
    chk.functions += ['LAFEM::SparseMatrixBCSR<SymReal,Index,2,3>::{clone (5 modes), convert(other index type), permute, SparseMatrixBCSR(Graph)}']
    e2prop.run_e2(chk, e2prop.e2_harness_path('c02b_e2.cpp'), 'c02b_e2', timeout=60, harness_args=[], max_group=1)
    return chk.finish(
        explanation='Bounded symbolic check: transposition, cloning, format/index-type conversion, permutation and layout rebuilding of the real LAFEM classes are executed for every pattern / mode / permutation inside the bound with symbolic values; the result must represent the same (resp. transposed, permuted) dense matrix for ALL values, have the correct dimensions and a structurally valid layout; clone aliasing is checked by pointer identity and by writing through the clone.',
        rule=e2prop.E2_RULE, trusted=e2prop.E2_TRUSTED)
