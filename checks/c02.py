"""C02: conversion / cloning / transposition / permutation (E2 class level)"""
import os
from vlib import common as C, e2prop, e3, e3run
from checks import c02s


def main():
    chk = C.Check('C02')
    quick = chk.tier == 'quick'
    b = ['3', '4'] if quick else ['3', '6']
    chk.bounds.append('E2: CSR matrices with rows*cols <= 6 (0..3 x 0..3), every sorted duplicate-free pattern with <= %s entries incl. entry-free and empty rows; all 5 clone modes for index type pairs u64->u64, u64->u32, u32->u64; every row x column permutation; DenseMatrix transpose into 6 target shapes' % b[1])
    chk.functions += ['LAFEM::SparseMatrixCSR::{transpose,clone,convert(CSCR|Banded|BCSR|CSR<other IT>),permute,SparseMatrixCSR(Graph),SparseMatrixCSR(layout)}', 'LAFEM::SparseMatrixCSCR::convert(CSR)', 'LAFEM::SparseMatrixBanded::convert(CSR)', 'LAFEM::Container::clone/assign (same and other index type)',
                      'LAFEM::DenseMatrix::{transpose,transpose_inplace}', 'LAFEM::Arch::Transpose::value_generic', 'Adjacency::Permutation::{Permutation(perm),inverse,get_perm_pos}', 'Adjacency::Graph(RenderType::as_is, matrix)']
    chk.assume(*e2prop.E2_ASSUME)
    chk.assume('values are opaque symbolic payloads (these operations only move values); index arrays are concrete per swept pattern, their validity is checked on each run')
    e2prop.run_e2(chk, e2prop.e2_harness_path('c02_e2.cpp'), 'c02_e2', timeout=60, harness_args=['--bounds'] + b)
    # meta-matrix slice: conversion of the meta matrices of c01_e2.cpp to one CSR matrix, scale_rows / scale_cols
    chk.bounds.append('E2 meta-matrix slice: PowerRow/Col/Diag/Full and SaddlePoint matrices over CSR blocks (3 block variants incl. entry-free blocks and empty rows) converted to one SparseMatrixCSR; PowerDiag scale_rows / scale_cols; extract_diag of square PowerDiag / PowerFull / TupleDiag matrices (3x3, blocks 2x2 and 1x1) against the dense diagonal')
    chk.functions += ['LAFEM::SparseMatrixCSR::convert(const MT_&) for PowerRowMatrix / PowerColMatrix / PowerDiagMatrix / PowerFullMatrix / SaddlePointMatrix', 'get_length_of_line / set_line of the meta matrices', 'LAFEM::{PowerDiagMatrix,PowerFullMatrix,TupleDiagMatrix}::extract_diag', 'LAFEM::PowerDiagMatrix::{scale_rows,scale_cols}']
    e2prop.run_e2(chk, e2prop.e2_harness_path('c02m_e2.cpp'), 'c02m_e2', timeout=60, harness_args=[], max_group=1)
    # blocked slice: BCSR<2,3> clone modes, index-type conversion, permutation, construction from a Graph
    chk.bounds.append('E2 blocked slice: SparseMatrixBCSR<2,3> with 1..2 x 1..2 blocks and every pattern with 1..3 blocks: all 5 clone modes, conversion u64 -> u32 -> u64, every row x column permutation, construction from a Graph')
    chk.functions += ['LAFEM::SparseMatrixBCSR<SymReal,Index,2,3>::{clone (5 modes), convert(other index type), permute, SparseMatrixBCSR(Graph)}']
    e2prop.run_e2(chk, e2prop.e2_harness_path('c02b_e2.cpp'), 'c02b_e2', timeout=60, harness_args=[], max_group=1)
    # structural slice (E3): column indices and permutations symbolic
    bdir = C.mkdir(os.path.join(C.BUILD, 'C02', 'e3'))
    mod, native, info = c02s.build(bdir)
    chk.extra['ir'] = info
    jobs = c02s.jobs(quick)
    only = os.environ.get('C02_ONLY')
    if only:
        jobs = [j for j in jobs if only in j[0]]
    chk.bounds.append('E3 structural slice: SparseMatrixCSR<double,u64> of 1..3 x 1..3 with <= %d entries, every row-length profile (incl. entry-free matrices and empty rows) concrete, ALL column indices symbolic (any strictly sorted in-range rows), values raw symbolic 64-bit patterns: transpose (both forms), clone(Deep), clone(Shallow) outliving the original, round trip CSR -> CSCR -> CSR and layout rebuilt from Graph(as_is, matrix) (the two conversions without the entry-free profiles: rejected by explicit precondition); permute with symbolic row and column permutation arrays (any bijections) for rows*cols <= %d and <= %d entries' % ((5, 6, 3) if quick else (6, 9, 4)))
    chk.assume('E3 structural slice: values are 64-bit patterns that the operations only move (never interpreted); row lengths are concrete per profile')
    # vacuity guard: a deliberately wrong oracle (transpose claimed to be the identity) must be refuted with a concrete model
    wj = [j for j in c02s.jobs(True) if '2x2 row lengths [1, 1]' in j[0] and j[2].get('op') == 0]
    if wj:
        w = wj[0]
        Rw, _ = e3.run_case(mod, c02s.SIGS[w[1]], w[0], w[2], w[3], c02s.oracle_for('clone', 2, 2, w[2]['rowptr'], w[2]['colind'], w[2]['vals']), budget=60)
        if not any(v['kind'] == 'property' for v in Rw.viol):
            chk.error('E3 structural slice: deliberately wrong oracle (transpose == identity) was not refuted (vacuity guard)')
    return e3run.run_jobs(chk, mod, native, jobs, info, quick, c02s.SIGS, 'c02s',
        explanation='Bounded symbolic check: transposition, cloning, format/index-type conversion, permutation and layout rebuilding of the real LAFEM classes are executed for every pattern / mode / permutation inside the bound with symbolic values; the result must represent the same (resp. transposed, permuted) dense matrix for ALL values, have the correct dimensions and a structurally valid layout; clone aliasing is checked by pointer identity and by writing through the clone (E2: value identities are decided by identity of hash-consed terms since values only move). E3 structural slice: the real CSR transpose / clone / permute run in my IR symbolic executor with SYMBOLIC column indices and permutation arrays; on every path z3 decides that the result has a valid layout and that each of its entries is the transposed / same / permuted entry of the operand (presence and value bits), every memory access is bounds- and lifetime-checked.',
        rule=e2prop.E2_RULE + '; E3 part: one obligation = one property of one path of one row-length profile (solver query pc && !property must be unsat)', trusted_extra=e2prop.E2_TRUSTED)
