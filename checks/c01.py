"""C01: matrix-vector products (E2 class level; E1 kernels added separately)"""
import os
from vlib import common as C, e2prop

TRUSTED = ['g++-12 compiling the real FEAT templates with the SymReal scalar', 'vsym term DAG + SMT-LIB printer (cross-checked at the shadow point each run)', 'z3 5.1.0 (z3-new), nonlinear real arithmetic', 'hand-written dense oracle in harness/c01_e2.cpp']


def main():
    chk = C.Check('C01')
    quick = chk.tier == 'quick'
    bounds = ['2', '3'] if quick else ['3', '4']
    chk.bounds.append('E2: all shapes 0..%s x 0..%s, all sorted duplicate-free patterns with <= %s entries + 4 unsorted/duplicate patterns; alpha in {symbolic, 0, 1, -1}; r aliasing y or not; plain and transposed' % (bounds[0], bounds[0], bounds[1]))
    chk.functions += ['LAFEM::SparseMatrixCSR<SymReal,Index>::apply/apply_transposed (2- and 4-argument)', 'LAFEM::Arch::Apply::csr_generic<SymReal,Index>']
    chk.assume('real arithmetic on values (rounding outside the claim)', 'x does not alias r (documented precondition)', 'divisors non-zero where the code divides',
               'path conditions recorded by concolic execution (e.g. |alpha| >= eps for the symbolic alpha)')
    e2prop.run_e2(chk, os.path.join(C.VERIF, 'harness', 'c01_e2.cpp'), 'c01_e2', timeout=60, harness_args=['--bounds'] + bounds)
    # result-independence slice: operations that overwrite their result must not read its previous (uninitialised) content
    chk.bounds.append('E2 result-independence slice: apply / apply_transposed of CSR, CSCR, Banded, Dense, BCSR<2,3> (2- and 4-argument) into freshly constructed vectors; extract_diag / lump_rows / row norms, scale / scale_rows / scale_cols / transpose, vector copy / scale / component_product / component_invert into fresh objects')
    chk.assume('reads of uninitialised memory are detected through the validity tag of SymReal in a forked child under MALLOC_PERTURB_ (set by ./check) and replayed in double with a malloc that fills blocks with NaN bytes')
    e2prop.run_e2(chk, e2prop.e2_harness_path('c01u_e2.cpp'), 'c01u_e2', timeout=60, harness_args=['--bounds', '1'], max_group=1)
    return chk.finish(
        explanation='Bounded symbolic check: the real LAFEM matrix classes are instantiated with a symbolic real scalar and executed on every shape/pattern/aliasing configuration inside the bound; for each configuration z3 decides, over ALL real matrix values, vectors and alpha, that the result equals the dense product and operands are unmodified.',
        rule='one obligation = one result component (or operand component) identity of one configuration; distinct_nontrivial counts structural facts plus identities whose lhs and rhs are different DAG terms and for which z3 returned unsat (identical hash-consed terms are discharged syntactically, not counted)',
        trusted=TRUSTED)
