"""C04: vector operations (E2 class level)"""
from vlib import common as C, e2prop


def main():
    chk = C.Check('C04')
    quick = chk.tier == 'quick'
    n = '3' if quick else '5'
    chk.bounds.append('E2: vector kinds dense, blocked<2>, blocked<3>, tuple<dense,blocked2>, power<dense,2>, power<blocked2,2>; sub-vector length 0..%s (kind dependent); all aliasing patterns the API allows; every ordering of <= 4 values for min/max' % n)
    chk.functions += ['LAFEM::DenseVector/DenseVectorBlocked/TupleVector/PowerVector::{axpy,scale,component_product,component_invert,dot,triple_dot,norm2,norm2sqr,copy,format,max/min(_abs)_element,set_vec,set_vec_inv}',
                      'LAFEM::Arch::{Axpy,Scale,ComponentProduct,ComponentInvert,DotProduct,TripleDotProduct,Norm2,MaxIndex,MinIndex,MaxAbsIndex,MinAbsIndex}::value_generic<SymReal>']
    chk.assume(*e2prop.E2_ASSUME)
    chk.assume('min/max element operations are only exercised on non-empty vectors (not defined on empty ones)', 'sqrt modelled as s >= 0, s*s = x')
    e2prop.run_e2(chk, e2prop.e2_harness_path('c04_e2.cpp'), 'c04_e2', timeout=60, harness_args=['--bounds', n])
    # sparse vector slice
    chk.bounds.append('E2 sparse vector slice: SparseVector (and SparseVectorBlocked<2> for sizes <= 2) of size 1..%s built by every insertion sequence of length <= %s (repeated indices included): element access, used_elements, min/max(-abs) elements against the flattened definition (unset entries are zero)' % (('3', '2') if quick else ('4', '3')))
    chk.functions += ['LAFEM::SparseVector<SymReal,Index>::{operator()(Index), operator()(Index,DT), sort, used_elements, max_element, min_element, max_abs_element, min_abs_element}']
    e2prop.run_e2(chk, e2prop.e2_harness_path('c04s_e2.cpp'), 'c04s_e2', timeout=60 if quick else 300, harness_args=['--bounds', '1' if quick else '2'])
    return chk.finish(
        explanation='Bounded symbolic check: every vector class is instantiated with a symbolic real scalar; for each kind/size/aliasing configuration z3 decides that every component of the result equals the element-wise definition on the flattened data for ALL real inputs; blocked/tuple/power kinds are compared against the same flat oracle as the plain vector.',
        rule=e2prop.E2_RULE, trusted=e2prop.E2_TRUSTED)
