"""C05 (partial): binary container serialisation round trip and checkpoint collect/load/restore with raw symbolic 64-bit contents (E3)"""
import os
import z3
from vlib import common as C, e3, e3run
from ir import irsym
from checks.c19 import B64, sig

REPO_SRCS = ['kernel/util/memory_pool.cpp', 'kernel/util/dist.cpp', 'kernel/util/statistics.cpp', 'kernel/util/kahan_summation.cpp', 'kernel/backend.cpp']
NO = 96
SIGS = {
    'w_roundtrip': sig('w_roundtrip', [('i32', 'kind'), ('i32', 'narrow_index'), ('u64', 'a'), ('u64', 'b'), ('u64', 'c'), ('u64', 'd'), ('in', 'vals', 8), ('in', 'idxs', 8), ('out', 'o1', NO, 8), ('out', 'o2', NO, 8), ('out', 'osize', 1, 8)]),
    'w_checkpoint': sig('w_checkpoint', [('i32', 'route'), ('u64', 'len0'), ('u64', 'len1'), ('u64', 'len2'), ('u64', 'n0'), ('u64', 'rows'), ('u64', 'cols'), ('u64', 'used'), ('u64', 'n2'), ('in', 'vals', 8), ('in', 'idxs', 8),
                                         ('out', 'o1', NO, 8), ('out', 'o2', NO, 8), ('out', 'osize', 1, 8)]),
}
# construction / destruction of the iostream base of BinaryStream lives in libstdc++ (not in the IR); the stream state is never used on the checked path
IOS_STUBS = ['_ZNSt8ios_baseC2Ev', '_ZNSt8ios_baseD2Ev', '_ZNSt9basic_iosIcSt11char_traitsIcEE4initEPSt15basic_streambufIcS1_E', '_ZNSt6localeC1Ev', '_ZNSt6localeD1Ev']
KINDS = {0: 'DenseVector', 1: 'DenseVectorBlocked<2>', 2: 'SparseVector', 3: 'SparseMatrixCSR', 4: 'SparseMatrixCSCR', 5: 'SparseMatrixBCSR<2,2>', 6: 'SparseMatrixBanded', 7: 'DenseMatrix'}


def sizes(kind, a, b, c, d):
    """(number of 64-bit element cells, number of index cells) of the freshly constructed container"""
    return {0: (a, 0), 1: (2 * a, 0), 2: (b, b), 3: (c, c + a + 1), 4: (c, c + 2 * d + 1), 5: (4 * c, c + a + 1), 6: (a * c, c), 7: (a * b, 0)}[kind]


def parse_dump(get, nm, start=0):
    """returns (cells of the header as python ints or None if symbolic, total length)"""
    p = start; hdr = []

    def take():
        nonlocal p
        v = irsym.simp(get(nm, p)); p += 1
        return v
    ne = take()
    if irsym.is_sym(ne) or ne > 8:
        return None
    es = [take() for _ in range(ne)]
    ni = take()
    if irsym.is_sym(ni) or ni > 8:
        return None
    isz = [take() for _ in range(ni)]
    nsi = take()
    if irsym.is_sym(nsi) or nsi > 16:
        return None
    p += nsi
    nsd = take()
    if irsym.is_sym(nsd) or nsd > 16:
        return None
    p += nsd
    if any(irsym.is_sym(x) for x in es + isz):
        return None
    hdr_end = p
    return start, hdr_end, hdr_end + sum(es), hdr_end + sum(es) + sum(isz)


def compare_oracle(nobj):
    def oracle(get, rv, st, ex):
        props = []
        p = 0
        for k in range(nobj):
            r = parse_dump(get, 'o1', p)
            if r is None or r[3] > NO:
                return [('dump of the original is well formed', False)]
            s0, h, e, t = r
            props.append(('object %d: layout (array counts and sizes, scalars: dimensions, used elements, ...) read back identical' % k, z3.And(*[B64(get('o2', i)) == B64(get('o1', i)) for i in range(s0, h)])))
            if e > h:
                props.append(('object %d: values read back bit-identical' % k, z3.And(*[B64(get('o2', i)) == B64(get('o1', i)) for i in range(h, e)])))
            if t > e:
                props.append(('object %d: index arrays read back identical' % k, z3.And(*[B64(get('o2', i)) == B64(get('o1', i)) for i in range(e, t)])))
            p = t
        return props
    return oracle


def roundtrip_jobs(quick):
    jobs = []
    profs = {0: [(0,), (1,), (3,)], 1: [(0,), (2,)], 2: [(4, 0), (4, 2), (3, 3)], 3: [(2, 3, 0), (3, 2, 2), (2, 2, 4)], 4: [(3, 3, 0, 0), (3, 3, 2, 1), (4, 2, 3, 2)], 5: [(2, 2, 0), (2, 1, 2)], 6: [(2, 2, 1), (3, 2, 2), (2, 3, 3)], 7: [(2, 3), (1, 1)]}
    if not quick:
        profs[0] += [(6,)]; profs[1] += [(3,)]; profs[2] += [(6, 4)]; profs[3] += [(4, 3, 5), (1, 5, 3)]; profs[4] += [(5, 3, 4, 3)]; profs[5] += [(2, 3, 3)]; profs[6] += [(4, 3, 4)]; profs[7] += [(3, 3), (1, 6)]
    for kind, plist in profs.items():
        for prof in plist:
            a, b, c, d = (list(prof) + [0, 0, 0])[:4]
            nv, ni = sizes(kind, a, b, c, d)
            for narrow in (0, 1):
                if narrow and ni == 0 and kind not in (0,):
                    continue
                vals = [z3.BitVec('val%d' % i, 64) for i in range(nv)]; idxs = [z3.BitVec('idx%d' % i, 64) for i in range(ni)]
                base = [z3.ULT(x, 1 << 32) for x in idxs] if narrow else []
                if kind == 6:
                    base += [z3.ULE(x + 2, a + b) for x in idxs] + [z3.ULT(x, 1 << 20) for x in idxs]
                inp = {'kind': kind, 'narrow_index': narrow, 'a': a, 'b': b, 'c': c, 'd': d, 'vals': vals or [0], 'idxs': idxs or [0], 'o1': NO, 'o2': NO, 'osize': 1}
                nm = 'round trip %s%s, %s index type in the stream' % (KINDS[kind], str(tuple(prof)), '32-bit' if narrow else '64-bit')
                jobs.append((nm, 'w_roundtrip', inp, base, compare_oracle(1), {}))
    return jobs


def checkpoint_jobs(quick):
    jobs = []
    lens = [(1, 1, 1), (3, 0, 5), (6, 7, 8), (0, 0, 20), (17, 0, 0), (0, 16, 0), (2, 15, 0)] + ([] if quick else [(8, 8, 8), (1, 30, 1), (0, 3, 13)])
    for route in (0, 1):
        for (l0, l1, l2) in lens:
            n0, rows, cols, used, n2 = 2, 2, 2, 2, 3
            vals = [z3.BitVec('val%d' % i, 64) for i in range(n0 + used + n2)]; idxs = [z3.BitVec('idx%d' % i, 64) for i in range(used + rows + 1)]
            inp = {'route': route, 'len0': l0, 'len1': l1, 'len2': l2, 'n0': n0, 'rows': rows, 'cols': cols, 'used': used, 'n2': n2, 'vals': vals, 'idxs': idxs, 'o1': NO, 'o2': NO, 'osize': 1}
            nobj = sum(1 for l in (l0, l1, l2) if l)
            nm = 'checkpoint with identifiers of length %s (DenseVector, CSR, DenseVector), %s' % ([l0, l1, l2], 'collect -> restore' if route == 0 else 'collect -> stream image -> load(BinaryStream) -> restore')
            jobs.append((nm, 'w_checkpoint', inp, [], compare_oracle(nobj), {'noop_stubs': IOS_STUBS}))
    return jobs


def main():
    chk = C.Check('C05', level='model_checking')
    quick = chk.tier == 'quick'
    bdir = C.mkdir(os.path.join(C.BUILD, 'C05'))
    wrapper = os.path.join(C.VERIF, 'wrappers', 'c05_ser.cpp')
    mod, info = e3.build_ir('c05', wrapper, REPO_SRCS, bdir)
    native = e3.Native('c05', wrapper, REPO_SRCS, bdir, list(SIGS.values()))
    chk.extra['ir'] = info
    jobs = roundtrip_jobs(quick) + checkpoint_jobs(quick)
    only = os.environ.get('C05_ONLY')
    if only:
        jobs = [j for j in jobs if only in j[0]]
    chk.bounds.append('E3: binary serialize/deserialize of DenseVector, DenseVectorBlocked<2>, SparseVector, CSR, CSCR, BCSR<2,2>, Banded, DenseMatrix with sizes 0..4 (thorough: up to 6) (incl. length 0, entry-free and empty-row shapes: row pointers are arbitrary symbolic values), ALL values and indices symbolic 64-bit patterns, stream index type 64-bit and 32-bit (indices < 2^32); checkpoints with up to three objects and identifier lengths from 1 to 30 (sum below and above the 16-byte padding), restored in a different order, directly and through the BinaryStream image')
    chk.assume('text file modes (MatrixMarket, exponent text) run through libstdc++ stream formatting/parsing, which is compiled library code outside the IR: NOT covered (the defect of the MatrixMarket reader for rows without entries mentioned in the property text is therefore not examined here); compression (zlib/zfp) is not compiled in; data type conversion double<->float in the stream is outside (floating-point conversion of symbolic values)',
               'CheckpointControl private members are reached with "#define private public" in the harness; the two ostream::write calls of save(BinaryStream&) are replaced by the equivalent memcpy of [length][bytes]; DistFileIO is outside')
    return e3run.run_jobs(chk, mod, native, jobs, info, quick, SIGS, 'c05',
                          explanation='Partial (stated): the real Container::_serialize/_deserialize (header and offset arithmetic, Pack::encode/decode raw and index-narrowing) and CheckpointControl::_collect_checkpoint_data/_restore_checkpoint_data/load(BinaryStream&)/restore_object are executed symbolically with every stored value and index an arbitrary 64-bit pattern; z3 decides that all arrays, sizes and scalars read back identical for every such content, that several objects in one checkpoint are restored to the right object, and the executor checks every access of the offset arithmetic for bounds.')
