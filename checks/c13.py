"""C13 (partial): process-local building blocks of the distributed layer (mirrors, gate frequencies, emulated sync) on a symbolic scalar (E2)"""
from vlib import common as C, e2prop


def main():
    chk = C.Check('C13')
    quick = chk.tier == 'quick'
    lvl = '1' if quick else '2'
    chk.bounds.append('E2: VectorMirror on vectors of length 1..%s (scalar and 2-blocked) with EVERY ordered index list without repetition and buffer offsets 0/1; TupleMirror with 2 and 3 components (length 3, offsets 0/1); Gate with 0..%s neighbour mirrors on 3..%s dofs (dofs shared by up to %s mirrors); emulated type-0 synchronisation of 3 patches around one cross point; MatrixMirror on 2x2 (thorough 3x2) CSR / BCSR<2,3> matrices with every pattern and several ordered row / column mirrors; all vector/buffer entries and alpha symbolic' % (('3', '3', '4', '3') if quick else ('4', '4', '5', '4')))
    chk.functions += ['LAFEM::VectorMirror::{gather,scatter_axpy,create_buffer,buffer_size} (DenseVector, DenseVectorBlocked<2>)', 'LAFEM::TupleMirror::{gather,scatter_axpy,buffer_size} (2 and 3 components)', 'LAFEM::MatrixMirror::{create_buffer,gather,scatter_axpy} (CSR, BCSR<2,3>)', 'Global::Gate::{push,compile,get_freqs,from_1_to_0}', 'LAFEM::DenseVector::{component_invert,component_product,triple_dot,format}', 'LAFEM::TupleVector::{set_vec}']
    chk.assume(*e2prop.E2_ASSUME)
    chk.assume('single process: Dist::Comm is the serial stub; the message exchange itself (Global::SynchVectorTicket / SynchScalarTicket, MPI progress, tag matching), Global::Vector/Matrix/Filter/Transfer wrappers that need several ranks, Global::Muxer/Splitter and AlgDofParti are outside; a type-0 synchronisation is emulated by handing the gathered buffers from one patch object to the other inside one process (DESIGN section C13)')
    e2prop.run_e2(chk, e2prop.e2_harness_path('c13_e2.cpp'), 'c13_e2', timeout=60 if quick else 600, harness_args=['--bounds', lvl])
    return chk.finish(
        explanation='Partial (stated): the real mirror and gate templates are executed on symbolic vectors, buffers and scaling factors; z3 decides for every ordered index list within the bound that gather copies exactly the mirrored entries to buffer[offset+k] and leaves the rest of the buffer, that scatter_axpy adds alpha*buffer[offset+k] exactly to the mirrored entries, that TupleMirror components use consistent buffer ranges, that Gate frequencies are 1/(1+number of mirrors containing the dof), and that an emulated synchronisation of three patches sums every shared dof exactly once.',
        rule=e2prop.E2_RULE, trusted=e2prop.E2_TRUSTED)
