"""C16 (partial): assembly on one symbolic cell (E2)"""
from vlib import common as C, e2prop


def main():
    chk = C.Check('C16')
    quick = chk.tier == 'quick'
    lvl = '1' if quick else '2'
    chk.bounds.append('E2: ONE cell per shape (tria, quad, tetra; hexa affine in quick, general in thorough) with symbolic vertex coordinates; Lagrange1 (all shapes), Lagrange2 and CroRav/RanTur (2D; 3D thorough); Laplace and identity operators, force functional with a symbolic polynomial; cubature by name; classic assembler and DomainAssembler (single thread) routes')
    chk.functions += ['Assembly::SymbolicAssembler::assemble_matrix_std1', 'Assembly::BilinearOperatorAssembler::assemble_matrix1 (alpha, repeated)', 'Assembly::LinearFunctionalAssembler::assemble_vector', 'Assembly::DomainAssembler::{compile_all_elements,assemble} + BilinearOperatorMatrixAssemblyJob1 / LinearFunctionalAssemblyJob',
                      'Assembly::Common::{LaplaceOperator,IdentityOperator,ForceFunctional}', 'LAFEM::SparseMatrixCSR::ScatterAxpy / DenseVector::ScatterAxpy', 'Trafo::Standard + Space evaluators + Cubature::DynamicFactory (executed as is)']
    chk.assume(*e2prop.E2_ASSUME)
    chk.assume('the statement "equals the integral" is split: here the assembled entries equal the cubature sum of the textbook integrand as exact rational identities; exactness of the cubature rules is C14',
               'one-cell mesh: scatter/gather across several cells, the voxel assembler drivers around the cell kernel (data handler, colouring, explicit float/double instantiations in .cpp/.cu), the Frechet term and the 3D / deformation-with-streamline-diffusion combinations of the Burgers assembler and threaded routes are outside this check')
    e2prop.run_e2(chk, e2prop.e2_harness_path('c16_e2.cpp'), 'c16_e2', timeout=20 if quick else 90, harness_args=['--bounds', lvl], max_group=1,
                  support=C.FEAT_MIN_SRCS)
    # voxel slice: the shared host/device cell kernel of the voxel Poisson assembler
    chk.bounds.append('E2 voxel slice: Kernel::poisson_assembly_kernel (Q2) on ONE quadrilateral with the last 1..2 (thorough: all 4; one hexahedron vertex) vertices symbolic, the others at fixed rational positions (non-affine cell); Gauss-Legendre 2x2 (thorough 3x3)')
    chk.functions += ['VoxelAssembly::Kernel::poisson_assembly_kernel<SpaceHelper<Q2StandardFE<Hypercube<dim>>, SymReal, Index>>', 'VoxelAssembly::SpaceHelper::{set_coefficients,calc_jac_mat,eval_ref_gradients,trans_gradients}']
    if C.os.environ.get('C16_SKIP_VOXEL') is None:
        e2prop.run_e2(chk, e2prop.e2_harness_path('c16v_e2.cpp'), 'c16v_e2', timeout=30 if quick else 90, harness_args=['--bounds', lvl], max_group=1, support=C.FEAT_MIN_SRCS)
    # Burgers slice: route identities of the real BurgersAssembler (no closed form needed)
    chk.bounds.append('E2 Burgers slice: BurgersAssembler<.,.,2> on the once refined reference triangle (P1; thorough also Q1) with concrete rational geometry and symbolic convection field, primal vector, nu, beta, theta, scale: assemble_matrix(w)*u == assemble_vector(w,u) for gradient and deformation tensor; scaled + repeated assembly accumulate; on 4 quadrilaterals (Q1) with streamline diffusion (symbolic sd_delta, sd_nu, sd_v_norm) and a convection field vanishing at the barycentre of the last cell: blocked matrix == scalar matrix on the block diagonal')
    chk.functions += ['Assembly::BurgersAssembler<SymReal,Index,2>::{assemble_matrix,assemble_scalar_matrix,assemble_vector}', 'Trafo::Standard::Evaluator::width_directed']
    e2prop.run_e2(chk, e2prop.e2_harness_path('c16b_e2.cpp'), 'c16b_e2', timeout=60 if quick else 120, harness_args=['--bounds', lvl], max_group=1, support=C.FEAT_MIN_SRCS)
    return chk.finish(
        explanation='Partial (stated): the real symbolic/bilinear/linear assemblers and the DomainAssembler job route are executed on one cell with symbolic vertex coordinates; z3 decides as exact identities that classic and job routes agree entry by entry, Laplace rows sum to zero, symmetric forms give symmetric matrices, the mass entries sum to sum_q w_q det J(x_q), scaled/repeated assembly adds onto existing values, and for Lagrange1 that every matrix/vector entry equals an independent cubature sum built from closed-form reference basis functions and the vertex coordinates.',
        rule=e2prop.E2_RULE, trusted=e2prop.E2_TRUSTED)
