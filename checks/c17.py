"""C17 (partial): DomainAssembler work distribution (layers, thread layers, colours) on small meshes (E3)"""
import os, itertools
import z3
from vlib import common as C, e3, e3run
from ir import irsym
from checks.c19 import B64, sig

REPO_SRCS = ['kernel/adjacency/graph.cpp', 'kernel/adjacency/permutation.cpp', 'kernel/adjacency/coloring.cpp']
MAXC = 9
SIGS = {'w_compile': sig('w_compile', [('u64', 'nverts'), ('u64', 'ncells'), ('in', 'vert_at_cell', 8), ('u64', 'nsel'), ('in', 'selected', 8), ('i32', 'strategy'), ('u64', 'max_threads'),
                                        ('out', 'oworkers', 1, 8), ('out', 'onelem', 1, 8), ('out', 'oelems', MAXC, 8), ('out', 'onlay', 1, 8), ('out', 'olayers', MAXC + 2, 8),
                                        ('out', 'ontl', 1, 8), ('out', 'otlayers', MAXC + 2, 8), ('out', 'oncol', 1, 8), ('out', 'ocolors', MAXC + 2, 8)])}


def grid(nx, ny):
    cells = []
    for j in range(ny):
        for i in range(nx):
            v = lambda a, b: b * (nx + 1) + a
            cells.append([v(i, j), v(i + 1, j), v(i, j + 1), v(i + 1, j + 1)])
    return (nx + 1) * (ny + 1), cells


def meshes(quick):
    out = []
    for n in range(1, 7 if quick else 9):
        out.append(('strip 1x%d' % n,) + grid(n, 1))
    out.append(('grid 2x2',) + grid(2, 2)); out.append(('grid 3x2',) + grid(3, 2))
    if not quick:
        out.append(('grid 3x3',) + grid(3, 3)); out.append(('grid 4x2',) + grid(4, 2))
    # L shape, two components, single-vertex contact, duplicated numbering
    nv, c = grid(2, 2); out.append(('L shape', nv, [c[0], c[1], c[2]]))
    out.append(('two components', 8, [[0, 1, 2, 3], [4, 5, 6, 7]]))
    out.append(('three cells, corner contact', 10, [[0, 1, 2, 3], [3, 4, 5, 6], [6, 7, 8, 9]]))
    out.append(('components 2+1', 10, [[0, 1, 2, 3], [1, 4, 3, 5], [6, 7, 8, 9]]))
    return out


def adjacent(cells, a, b):
    return len(set(cells[a]) & set(cells[b])) > 0


def oracle_for(cells, selected, nsel):
    def oracle(get, rv, st, ex):
        def conc(v):
            v = irsym.simp(v)
            return v if not irsym.is_sym(v) else None
        props = []
        workers, nelem, nlay, ntl, ncol = [conc(get(nm, 0)) for nm in ('oworkers', 'onelem', 'onlay', 'ontl', 'oncol')]
        strat = conc(rv)
        if None in (workers, nelem, nlay, ntl, ncol, strat):
            return [('outputs are determined by the path condition', False)]
        elems = [conc(get('oelems', i)) for i in range(min(nelem, MAXC))]
        props.append(('every selected cell exactly once', sorted(elems) == sorted(selected) and nelem == nsel))
        if workers > 0 and strat in (2, 3):
            L = [conc(get('olayers', i)) for i in range(min(nlay, MAXC + 2))]
            props.append(('layers: start at 0, end at #cells, non-decreasing', len(L) >= 2 and L[0] == 0 and L[-1] == nelem and all(L[i] <= L[i + 1] for i in range(len(L) - 1))))
            lay_of = {}
            for li in range(len(L) - 1):
                for k in range(L[li], L[li + 1]):
                    lay_of[elems[k]] = li
            ok = all(abs(lay_of[a] - lay_of[b]) <= 1 for a in lay_of for b in lay_of if a != b and adjacent(cells, a, b))
            props.append(('cells in non-consecutive layers are not vertex-adjacent', ok))
            T = [conc(get('otlayers', i)) for i in range(min(ntl, MAXC + 2))]
            props.append(('thread layer blocks: one per worker, cover all layers', ntl == workers + 1 and T[0] == 0 and T[-1] == len(L) - 1))
            props.append(('every worker owns at least two layers', all(T[i + 1] >= T[i] + 2 for i in range(len(T) - 1))))
        if workers > 0 and strat == 4:
            Cc = [conc(get('ocolors', i)) for i in range(min(ncol, MAXC + 2))]
            props.append(('colours: start at 0, end at #cells', len(Cc) >= 2 and Cc[0] == 0 and Cc[-1] == nelem and all(Cc[i] <= Cc[i + 1] for i in range(len(Cc) - 1))))
            ok = True
            for ci in range(len(Cc) - 1):
                blk = elems[Cc[ci]:Cc[ci + 1]]
                ok = ok and all(not adjacent(cells, a, b) for a in blk for b in blk if a != b)
            props.append(('cells of one colour are not vertex-adjacent', ok))
        return props
    return oracle


def main():
    chk = C.Check('C17', level='model_checking')
    quick = chk.tier == 'quick'
    bdir = C.mkdir(os.path.join(C.BUILD, 'C17'))
    wrapper = os.path.join(C.VERIF, 'wrappers', 'c17_dom.cpp')
    mod, info = e3.build_ir('c17', wrapper, REPO_SRCS, bdir)
    native = e3.Native('c17', wrapper, REPO_SRCS, bdir, list(SIGS.values()))
    chk.extra['ir'] = info
    chk.bounds.append('E3: %d concrete quadrilateral meshes with 1..%d cells (strips, grids, L shape, disconnected, corner contact); all cells or a sub-selection; threading strategy SYMBOLIC in {automatic, single, layered, layered_sorted, colored}; requested worker count SYMBOLIC in 0..10' % (len(meshes(quick)), 6 if quick else 9))
    chk.assume('only the deterministic work-distribution code (compile: graphs, layers, thread layers, colours) is executed; thread scheduling, fences and job execution are outside this check', 'std::condition_variable constructor/destructor are no-ops')
    jobs = []
    for (name, nv, cells) in meshes(quick):
        nc = len(cells)
        flat = [v for c in cells for v in c]
        sels = [list(range(nc))]
        if nc >= 3:
            sels.append([i for i in range(nc) if i != 1])
        for sel_ in sels:
            strat = z3.BitVec('strategy', 32); mt = z3.BitVec('max_threads', 64)
            base = [z3.ULT(strat, 5), z3.ULE(mt, 10)]
            inp = {'nverts': nv, 'ncells': nc, 'vert_at_cell': flat, 'nsel': len(sel_), 'selected': sel_ if sel_ else [0], 'strategy': strat, 'max_threads': mt,
                   'oworkers': 1, 'onelem': 1, 'oelems': MAXC, 'onlay': 1, 'olayers': MAXC + 2, 'ontl': 1, 'otlayers': MAXC + 2, 'oncol': 1, 'ocolors': MAXC + 2}
            jobs.append(('%s, %d of %d cells selected, symbolic strategy and worker count' % (name, len(sel_), nc), 'w_compile', inp, base, oracle_for(cells, sel_, len(sel_)), {}))
    return e3run.run_jobs(chk, mod, native, jobs, info, quick, SIGS, 'c17',
                          explanation='Partial (stated): the real DomainAssembler compile step (vertex/neighbour graphs, Cuthill-McKee layers, thread layer blocks, colouring) is executed symbolically on small meshes with the threading strategy and the requested worker count symbolic; on every path the executor checks memory safety and that no XASSERT / exception is reached, and the resulting distribution must list every selected cell once, keep vertex-adjacent cells in consecutive layers / different colours, and give every worker at least two consecutive layers (the code\'s own no-deadlock criterion).')
