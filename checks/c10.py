"""C10 (partial): index representative / congruency kernels on symbolic 64-bit indices; real StandardRefinery (mesh + mesh part) on small
meshes whose entity orientations / cell rotations / part attachments are symbolic (E3: IR symbolic execution, z3)"""
import os, itertools, math
import z3
from vlib import common as C, e3, e3run
from ir import irsym
from checks.c19 import B64, sig

REPO_SRCS = ['kernel/adjacency/graph.cpp', 'kernel/adjacency/permutation.cpp', 'kernel/adjacency/coloring.cpp', 'kernel/adjacency/cuthill_mckee.cpp']
SHAPES = {0: ('quad', 'H', 2), 1: ('tria', 'S', 2), 2: ('hexa', 'H', 3), 3: ('tetra', 'S', 3)}
MAXV, MAXD, MAXP = 64, 1400, 400
SIGS = {
    'w_idxrep': sig('w_idxrep', [('i32', 'kind'), ('in', 'in', 8), ('in', 'sigma', 8), ('out', 'out1', 4, 8), ('out', 'out2', 4, 8)]),
    'w_congruency': sig('w_congruency', [('i32', 'kind'), ('in', 'src', 8), ('in', 'trg', 8), ('out', 'omap0', 4, 8), ('out', 'omap1', 4, 8)]),
    'w_tables': sig('w_tables', [('i32', 'shape'), ('out', 'out', 3 * 16 * 8, 8)]),
    'w_refine': sig('w_refine', [('i32', 'shape'), ('i32', 'eager'), ('in', 'cnt', 8), ('in', 'data', 8), ('out', 'ocnt', 4, 8), ('out', 'odata', MAXD, 8), ('out', 'ocoords', MAXV, 8)]),
    'w_refine_part': sig('w_refine_part', [('i32', 'shape'), ('i32', 'eager'), ('in', 'cnt', 8), ('in', 'data', 8), ('in', 'pcnt', 8), ('i32', 'ptopo'), ('in', 'pdata', 8), ('in', 'ptrg', 8),
                                           ('out', 'ocnt', 4, 8), ('out', 'odata', MAXD, 8), ('out', 'ocoords', MAXV, 8), ('out', 'opcnt', 4, 8), ('out', 'opdata', MAXP, 8), ('out', 'optrg', MAXP, 8)]),
    'w_permute': sig('w_permute', [('i32', 'shape'), ('i32', 'eager'), ('in', 'cnt', 8), ('in', 'data', 8), ('in', 'pcnt', 8), ('i32', 'ptopo'), ('in', 'pdata', 8), ('in', 'ptrg', 8), ('in', 'use', 8), ('in', 'perms', 8),
                                   ('out', 'odata', MAXP, 8), ('out', 'ocoords', MAXV, 8), ('out', 'optrg', MAXP, 8)]),
    'w_boundary': sig('w_boundary', [('i32', 'shape'), ('i32', 'eager'), ('in', 'cnt', 8), ('in', 'data', 8), ('out', 'obc', 4, 8), ('out', 'obt', MAXP, 8), ('out', 'ofc', 4, 8), ('out', 'orc', 4, 8), ('out', 'ort', 2 * MAXP, 8), ('out', 'ofbc', 4, 8), ('out', 'ofbt', 2 * MAXP, 8)]),
}
M64 = (1 << 64) - 1


# ------------------------------------------------------------------------------------------------ reference shapes
def nverts(kind, d):
    return 2 ** d if kind == 'H' else d + 1


def nfaces(kind, d2, d1):
    return math.comb(d2, d1) * 2 ** (d2 - d1) if kind == 'H' else math.comb(d2 + 1, d1 + 1)


def sym_group(kind, d, proper=False):
    """vertex permutations sigma (tuple: sigma[j] = image of local vertex j) of the d-dimensional reference shape, derived from geometry:
    hypercube (tensor numbering, vertex i has coordinate bits): signed axis permutations; simplex: all vertex permutations"""
    out = []
    if kind == 'S':
        for p in itertools.permutations(range(d + 1)):
            inv = sum(1 for a in range(d + 1) for b in range(a) if p[b] > p[a])
            if not proper or inv % 2 == 0:
                out.append(tuple(p))
        return out
    for p in itertools.permutations(range(d)):
        inv = sum(1 for a in range(d) for b in range(a) if p[b] > p[a])
        for fl in itertools.product((0, 1), repeat=d):
            if proper and (inv + sum(fl)) % 2 != 0:
                continue
            s = []
            for i in range(2 ** d):
                j = 0
                for a in range(d):
                    j |= (((i >> a) & 1) ^ fl[a]) << p[a]
                s.append(j)
            out.append(tuple(s))
    return out


EXPECT_CHILD = {'H': lambda e, d: math.comb(e, d) * 2 ** d,
                'S': lambda e, d: {(0, 0): 1, (1, 0): 1, (1, 1): 2, (2, 0): 0, (2, 1): 3, (2, 2): 4, (3, 0): 1, (3, 1): 6, (3, 2): 16, (3, 3): 12}[(e, d)]}


class Tables:
    """FaceIndexMapping tables of the real headers (definitional numbering of the reference cells), read through a native run and sanity checked"""

    def __init__(self, native):
        self.T = {}
        for sh in SHAPES:
            r = native.run('w_tables', {'shape': sh, 'out': 3 * 16 * 8})
            if r['status'] != 'ok':
                raise C.MachineryError('w_tables failed: ' + str(r)[:300])
            o = [x if x < (1 << 63) else x - (1 << 64) for x in r['outs']['out']]
            nm, kind, D = SHAPES[sh]
            for d in range(1, D):
                self.T[(kind, D, d)] = [[o[(d * 16 + k) * 8 + j] for j in range(nverts(kind, d))] for k in range(nfaces(kind, D, d))]
        for (kind, D, d), t in self.T.items():
            seen = set()
            for row in t:
                assert len(set(row)) == len(row) and all(0 <= v < nverts(kind, D) for v in row), 'face table malformed'
                if kind == 'H':
                    x = 0
                    for v in row:
                        x ^= v
                    assert (d == 1 and bin(row[0] ^ row[1]).count('1') == 1) or (d == 2 and x == 0 and bin(row[0] ^ row[3]).count('1') == 2), 'face table is not a geometric face'
                seen.add(frozenset(row))
            assert len(seen) == len(t), 'duplicate local face'

    def fim(self, kind, d2, d1):
        return self.T[(kind, d2, d1)]


# ------------------------------------------------------------------------------------------------ concrete topology
class Topo:
    """conforming mesh given by its vertices-at-cell lists; sub-entities numbered in order of first appearance, oriented as seen from the first cell"""

    def __init__(self, shape, cells, nv, tab):
        self.shape = shape; self.name, self.kind, self.D = SHAPES[shape]; self.tab = tab
        kind, D = self.kind, self.D
        self.idx = {(D, 0): [list(c) for c in cells]}
        self.cnt = [nv] + [0] * D; self.cnt[D] = len(cells)
        self.key = {}
        for d in range(1, D):
            rows, ids, at = [], {}, []
            for c in cells:
                r = []
                for k in range(nfaces(kind, D, d)):
                    tup = [c[j] for j in tab.fim(kind, D, d)[k]]
                    ky = frozenset(tup)
                    if ky not in ids:
                        ids[ky] = len(rows); rows.append(tup)
                    r.append(ids[ky])
                at.append(r)
            self.idx[(d, 0)] = rows; self.idx[(D, d)] = at; self.cnt[d] = len(rows); self.key[d] = ids
        if D == 3:
            self.idx[(2, 1)] = [[self.key[1][frozenset(f[j] for j in tab.fim(kind, 2, 1)[k])] for k in range(nfaces(kind, 2, 1))] for f in self.idx[(2, 0)]]

    def layout(self):
        return [(d2, d1) for d2 in range(1, self.D + 1) for d1 in range(d2)]

    def vset(self, d, i):
        return frozenset([i]) if d == 0 else frozenset(self.idx[(d, 0)][i])

    def entities(self):
        return [(d, i) for d in range(self.D + 1) for i in range(self.cnt[d])]


def unflatten(kind, D, cnt, flat):
    idx, p = {}, 0
    for d2 in range(1, D + 1):
        for d1 in range(d2):
            w = nverts(kind, d2) if d1 == 0 else nfaces(kind, d2, d1)
            idx[(d2, d1)] = [flat[p + r * w: p + (r + 1) * w] for r in range(cnt[d2])]; p += cnt[d2] * w
    return idx, p


def congruent(a, b, G):
    return any(all(a[j] == b[s[j]] for j in range(len(a))) for s in G)


def symbolic_inputs(topo, free, prefix='m'):
    """flat index data of topo with the rows of the entities in `free` replaced by z3 variables; returns (flat, constraints)
    free entity (d, i): its vertex tuple is ANY congruent renumbering of the canonical one (cells: any orientation preserving one),
    and its sub-entity rows are whatever is consistent with that tuple"""
    kind, D, tab = topo.kind, topo.D, topo.tab
    rows = {k: [list(r) for r in v] for k, v in topo.idx.items()}
    cons = []
    for (d, i) in free:
        canon = topo.idx[(d, 0)][i]
        xs = [z3.BitVec('%s_v%d_%d_%d' % (prefix, d, i, j), 64) for j in range(len(canon))]
        G = sym_group(kind, d, proper=(d == D))
        cons.append(z3.Or(*[z3.And(*[xs[j] == canon[s[j]] for j in range(len(canon))]) for s in G]))
        rows[(d, 0)][i] = xs
        for d1 in range(1, d):
            crow = topo.idx[(d, d1)][i]
            ys = [z3.BitVec('%s_s%d_%d_%d_%d' % (prefix, d, d1, i, k), 64) for k in range(len(crow))]
            for k in range(len(crow)):
                loc = [xs[j] for j in tab.fim(kind, d, d1)[k]]
                cons.append(z3.Or(*[z3.And(ys[k] == e, *[z3.Or(*[x == v for v in topo.vset(d1, e)]) for x in loc]) for e in sorted(set(crow))]))
            rows[(d, d1)][i] = ys
    flat = [x for key in topo.layout() for r in rows[key] for x in r]
    return flat, cons


# ------------------------------------------------------------------------------------------------ oracles (concrete, per model of a path)
def all_models(ex, st, symvars, limit=64):
    """all assignments of the symbolic inputs under the path condition (normally exactly one)"""
    if ex is None or not symvars:
        return [None]
    s = ex.solver; out = []
    s.push(); s.add(*[c for c in st.pc if c is not True])
    try:
        while len(out) < limit and s.check() == z3.sat:
            m = s.model(); vals = [m.eval(x, model_completion=True) for x in symvars]
            out.append(m); s.add(z3.Or(*[x != v for x, v in zip(symvars, vals)]))
            ex.stats['queries'] += 1
    finally:
        s.pop()
    return out


def cval(x, mdl):
    x = irsym.simp(x)
    if not irsym.is_sym(x):
        return x
    return mdl.eval(x, model_completion=True).as_long()


def mesh_report(topo, fcnt, fidx, fcoords):
    """checks of the refined mesh against the DEFINITION of a conforming refinement of topo; returns list of (label, bool)"""
    kind, D, tab = topo.kind, topo.D, topo.tab
    P = []
    # --- expected counts
    exp = [sum(EXPECT_CHILD[kind](e, d) * topo.cnt[e] for e in range(d, D + 1)) for d in range(D + 1)]
    P.append(('entity counts follow the refinement formulas', list(fcnt[:D + 1]) == exp))
    if list(fcnt[:D + 1]) != exp:
        return P
    ok_range = all(0 <= x < fcnt[d1] for (d2, d1), rows in fidx.items() for r in rows for x in r)
    P.append(('all indices in range', ok_range))
    if not ok_range:
        return P
    P.append(('vertices of every entity are distinct', all(len(set(r)) == len(r) for d in range(1, D + 1) for r in fidx[(d, 0)])))
    for d2 in range(2, D + 1):
        for d1 in range(1, d2):
            G = sym_group(kind, d1)
            ok = all(congruent(fidx[(d1, 0)][row[k]], [fidx[(d2, 0)][c][j] for j in tab.fim(kind, d2, d1)[k]], G) for c, row in enumerate(fidx[(d2, d1)]) for k in range(len(row)))
            P.append(('every listed %d-face of a %d-entity is its corresponding local face' % (d1, d2), ok))
    P.append(('entities of one dimension have pairwise distinct vertex sets', all(len(set(frozenset(r) for r in fidx[(d, 0)])) == fcnt[d] for d in range(1, D + 1))))
    # --- facets: one or two adjacent cells
    adj = {}
    dup = False
    for c, row in enumerate(fidx[(D, D - 1)] if D > 1 else []):
        dup = dup or len(set(row)) != len(row)
        for f in row:
            adj.setdefault(f, []).append(c)
    P.append(('no cell lists a facet twice', not dup))
    P.append(('Euler characteristic unchanged', sum((-1) ** d * fcnt[d] for d in range(D + 1)) == sum((-1) ** d * topo.cnt[d] for d in range(D + 1))))
    # --- carriers: fine vertex -> coarse entity whose vertex mean it is (coordinates x_v = 2^v are in generic position)
    keymap = {}
    for (d, i) in topo.entities():
        vs = topo.vset(d, i)
        if (8 * sum(1 << v for v in vs)) % len(vs) == 0:
            keymap[8 * sum(1 << v for v in vs) // len(vs)] = (d, i)
    vcar = [keymap.get(fcoords[v]) for v in range(fcnt[0])]
    P.append(('every fine vertex is a coarse vertex or the midpoint of a coarse entity', all(x is not None for x in vcar)))
    if any(x is None for x in vcar):
        return P
    P.append(('coarse vertices keep their number', all(vcar[v] == (0, v) for v in range(topo.cnt[0]))))
    ents = topo.entities(); vsets = {e: topo.vset(*e) for e in ents}

    def carrier(vs):
        U = frozenset().union(*[vsets[vcar[v]] for v in vs])
        best = [e for e in ents if vsets[e] >= U]
        if not best:
            return None
        m = min(len(vsets[e]) for e in best)
        best = [e for e in best if len(vsets[e]) == m]
        return best[0] if len(best) == 1 else None
    car = {0: vcar}
    for d in range(1, D + 1):
        car[d] = [carrier(r) for r in fidx[(d, 0)]]
    P.append(('every fine entity lies inside one coarse entity of at least its dimension', all(x is not None and x[0] >= d for d in range(1, D + 1) for x in car[d])))
    if any(x is None for d in range(1, D + 1) for x in car[d]):
        return P, car
    okc = True
    for (e, i) in ents:
        for d in range(e + 1):
            okc = okc and sum(1 for x in car[d] if x == (e, i)) == EXPECT_CHILD[kind](e, d)
    P.append(('every coarse entity has exactly the children of the refinement pattern in every dimension', okc))
    # --- interior facets two cells, boundary facets one
    if D > 1:
        cadj = {}
        for c, row in enumerate(topo.idx[(D, D - 1)]):
            for f in row:
                cadj.setdefault(f, []).append(c)
        okf = True
        for f in range(fcnt[D - 1]):
            ce = car[D - 1][f]
            want = len(cadj.get(ce[1], [])) if ce[0] == D - 1 else 2
            okf = okf and len(adj.get(f, [])) == want
        P.append(('interior facets have exactly two adjacent cells, boundary facets exactly one', okf))
    return P, car


def refine_oracle(topo, symvars, part=None):
    kind, D = topo.kind, topo.D

    def oracle(get, rv, st, ex):
        props = []
        mods = all_models(ex, st, symvars)
        if ex is not None and len(mods) >= 64:
            return [('inputs of one path can be enumerated', False)]
        for mdl in mods:
            tagp = z3.Not(z3.And(*[x == mdl.eval(x, model_completion=True) for x in symvars])) if (mdl is not None and symvars) else False
            cv = (lambda x: cval(x, mdl)) if mdl is not None else (lambda x: x)
            fcnt = [cv(get('ocnt', d)) for d in range(D + 1)]
            exp = [sum(EXPECT_CHILD[kind](e, d) * topo.cnt[e] for e in range(d, D + 1)) for d in range(D + 1)]
            if fcnt != exp:
                props.append(('entity counts follow the refinement formulas', tagp)); continue
            total = sum(fcnt[d2] * (nverts(kind, d2) if d1 == 0 else nfaces(kind, d2, d1)) for d2 in range(1, D + 1) for d1 in range(d2))
            flat = [cv(get('odata', k)) for k in range(total)]
            fidx, used = unflatten(kind, D, fcnt, flat)
            fcoords = [cv(get('ocoords', v)) for v in range(fcnt[0])]
            rep = mesh_report(topo, fcnt, fidx, fcoords)
            car = None
            if isinstance(rep, tuple):
                rep, car = rep
            for (lab, ok) in rep:
                props.append((lab, True if ok else tagp))
            if part is not None and car is not None and all(ok for (_, ok) in rep):
                for (lab, ok) in part_report(topo, part, fcnt, fidx, car, cv, get):
                    props.append((lab, True if ok else tagp))
        # merge equal labels: a label holds if it holds for every model
        merged = {}
        for lab, pr in props:
            merged.setdefault(lab, []).append(pr)
        out = []
        for lab, prs in merged.items():
            bad = [p for p in prs if p is not True]
            out.append((lab, True if not bad else (bad[0] if len(bad) == 1 else z3.And(*[p if irsym.is_sym(p) else z3.BoolVal(bool(p)) for p in bad]))))
        return out
    return oracle


# ------------------------------------------------------------------------------------------------ mesh parts
class Part:
    """mesh part = set of coarse entities closed under taking sub-entities, with or without its own topology"""

    def __init__(self, topo, top_entities, with_topo):
        self.topo, self.with_topo = topo, with_topo
        D, kind = topo.D, topo.kind
        mem = {d: [] for d in range(D + 1)}
        for (d, i) in top_entities:
            for (d1, j) in topo.entities():
                # faces of an entity = entities of lower dimension whose vertices all belong to it
                if ((d1 < d and topo.vset(d1, j) <= topo.vset(d, i)) or (d1, j) == (d, i)) and j not in mem[d1]:
                    mem[d1].append(j)
        self.trg = {d: sorted(mem[d]) for d in range(D + 1)}
        self.cnt = [len(self.trg[d]) for d in range(D + 1)]
        loc = {d: {g: l for l, g in enumerate(self.trg[d])} for d in range(D + 1)}
        self.idx = {}
        for d2 in range(1, D + 1):
            for d1 in range(d2):
                self.idx[(d2, d1)] = [[loc[d1][x] for x in topo.idx[(d2, d1)][g]] for g in self.trg[d2]]

    def flat_topo(self):
        return [x for d2 in range(1, self.topo.D + 1) for d1 in range(d2) for r in self.idx[(d2, d1)] for x in r]

    def flat_trg(self):
        return [x for d in range(self.topo.D + 1) for x in self.trg[d]]


def part_report(topo, part, fcnt, fidx, car, cv, get):
    kind, D = topo.kind, topo.D
    P = []
    pc = [cv(get('opcnt', d)) for d in range(D + 1)]
    attached = set((d, g) for d in range(D + 1) for g in part.trg[d])
    want = {d: sorted(f for f in range(fcnt[d]) if car[d][f] in attached) for d in range(D + 1)}
    P.append(('refined part has one entity per child of the entities it was attached to', pc == [len(want[d]) for d in range(D + 1)]))
    if pc != [len(want[d]) for d in range(D + 1)]:
        return P
    tr, p = {}, 0
    for d in range(D + 1):
        tr[d] = [cv(get('optrg', p + k)) for k in range(pc[d])]; p += pc[d]
    P.append(('refined part entities map one-to-one onto the children of the parent entities', all(sorted(tr[d]) == want[d] for d in range(D + 1))))
    if part.with_topo:
        total = sum(pc[d2] * (nverts(kind, d2) if d1 == 0 else nfaces(kind, d2, d1)) for d2 in range(1, D + 1) for d1 in range(d2))
        pflat = [cv(get('opdata', k)) for k in range(total)]
        pidx, _ = unflatten(kind, D, pc, pflat)
        okr = all(0 <= x < pc[d1] for (d2, d1), rows in pidx.items() for r in rows for x in r)
        P.append(('part topology indices in range', okr))
        if okr and all(sorted(tr[d]) == want[d] for d in range(D + 1)):
            okm = True
            for d2 in range(1, D + 1):
                for e, row in enumerate(pidx[(d2, 0)]):
                    okm = okm and congruent([tr[0][v] for v in row], fidx[(d2, 0)][tr[d2][e]], sym_group(kind, d2))
                for d1 in range(1, d2):
                    for e, row in enumerate(pidx[(d2, d1)]):
                        okm = okm and sorted(tr[d1][x] for x in row) == sorted(fidx[(d2, d1)][tr[d2][e]])
            P.append(('target maps commute with the topology of part and mesh (vertices and sub-entities of every part entity map to those of its target)', okm))
    return P


# ------------------------------------------------------------------------------------------------ leaf kernel oracles (z3, symbolic 64-bit indices)
KIND = {0: ('H', 1), 1: ('H', 2), 2: ('S', 1), 3: ('S', 2)}


def idxrep_jobs():
    jobs = []
    for kind, (fam, d) in KIND.items():
        n = nverts(fam, d); G = set(sym_group(fam, d))
        for s in itertools.permutations(range(n)):
            xs = [z3.BitVec('i%d' % j, 64) for j in range(n)]
            base = [z3.Distinct(*xs)] + [z3.ULT(x, 1 << 62) for x in xs]
            same = tuple(s) in G

            def oracle(get, rv, st, ex, xs=xs, n=n, same=same):
                o1 = [B64(get('out1', j)) for j in range(n)]; o2 = [B64(get('out2', j)) for j in range(n)]
                props = [('representative is a permutation of the entity\'s vertices', z3.And(*[z3.Or(*[o == x for x in xs]) for o in o1] + [z3.Distinct(*o1)]))]
                eq = z3.And(*[a == b for a, b in zip(o1, o2)])
                props.append(('congruent numberings of one entity get the same key' if same else 'numberings that are not congruent get different keys', eq if same else z3.Not(eq)))
                return props
            jobs.append(('index representative %s<%d> sigma=%s' % ('Hypercube' if fam == 'H' else 'Simplex', d, ''.join(map(str, s))), 'w_idxrep', {'kind': kind, 'in': xs, 'sigma': list(s), 'out1': 4, 'out2': 4}, base, oracle, {}))
    return jobs


def congruency_jobs(tab):
    jobs = []
    for kind, (fam, d) in KIND.items():
        n = nverts(fam, d); G = sym_group(fam, d)
        xs = [z3.BitVec('s%d' % j, 64) for j in range(n)]; ts = [z3.BitVec('t%d' % j, 64) for j in range(n)]
        base = [z3.Distinct(*xs), z3.Or(*[z3.And(*[ts[j] == xs[s[j]] for j in range(n)]) for s in G])]
        fim = tab.fim(fam, 2, 1) if d == 2 else None

        def oracle(get, rv, st, ex, xs=xs, ts=ts, n=n, fim=fim, fam=fam, d=d):
            props = []
            rvv = irsym.simp(rv)
            if irsym.is_sym(rvv):
                return [('orientation code is determined on every path', False)]
            rvs = rvv - (1 << 64) if rvv >= (1 << 63) else rvv
            props.append(('congruent tuples are recognised', rvs != -1))
            if rvs == -1:
                return props
            sgn = 1 if rvs >= 50 else (-1 if rvs <= -50 else 0)
            m0 = [irsym.simp(get('omap0', j)) for j in range(n)]
            props.append(('vertex map of the code: src[k] == trg[map(code,k)]', z3.And(*[xs[k] == ts[m0[k]] for k in range(n)]) if all(isinstance(m, int) and 0 <= m < n for m in m0) else False))
            if fim is not None:
                ne = len(fim); m1 = [irsym.simp(get('omap1', j)) for j in range(ne)]
                if all(isinstance(m, int) and 0 <= m < ne for m in m1):
                    def seteq(a, b):
                        return z3.Or(z3.And(a[0] == b[0], a[1] == b[1]), z3.And(a[0] == b[1], a[1] == b[0]))
                    props.append(('edge map of the code: local edge k of src is local edge map(code,k) of trg', z3.And(*[seteq([xs[j] for j in fim[k]], [ts[j] for j in fim[m1[k]]]) for k in range(ne)])))
                else:
                    props.append(('edge map of the code: local edge k of src is local edge map(code,k) of trg', False))
            # orientation sign: +1 iff trg is a proper (orientation preserving) renumbering
            proper = sym_group(fam, d, proper=True)
            isprop = z3.Or(*[z3.And(*[ts[j] == xs[s[j]] for j in range(n)]) for s in proper])
            props.append(('orientation sign: +1 exactly for orientation preserving renumberings', isprop if sgn == 1 else (z3.Not(isprop) if sgn == -1 else False)))
            return props
        jobs.append(('congruency sampler + mapping %s<%d>' % ('Hypercube' if fam == 'H' else 'Simplex', d), 'w_congruency', {'kind': kind, 'src': xs, 'trg': ts, 'omap0': 4, 'omap1': 4}, base, oracle, {}))
    return jobs


# ------------------------------------------------------------------------------------------------ meshes
def base_meshes(tab, quick):
    out = []
    out.append(('one quadrilateral', Topo(0, [[0, 1, 2, 3]], 4, tab)))
    out.append(('two quadrilaterals', Topo(0, [[0, 1, 2, 3], [1, 4, 3, 5]], 6, tab)))
    out.append(('one triangle', Topo(1, [[0, 1, 2]], 3, tab)))
    out.append(('two triangles', Topo(1, [[0, 1, 2], [2, 1, 3]], 4, tab)))
    out.append(('one hexahedron', Topo(2, [[0, 1, 2, 3, 4, 5, 6, 7]], 8, tab)))
    out.append(('two hexahedra', Topo(2, [[0, 1, 2, 3, 4, 5, 6, 7], [1, 8, 3, 9, 5, 10, 7, 11]], 12, tab)))
    out.append(('one tetrahedron', Topo(3, [[0, 1, 2, 3]], 4, tab)))
    out.append(('two tetrahedra', Topo(3, [[0, 1, 2, 3], [1, 2, 3, 4]], 5, tab)))
    return out


def refine_jobs(tab, quick):
    jobs = []
    for (mname, topo) in base_meshes(tab, quick):
        D = topo.D
        frees = [[]]
        # every single sub-entity free (all of its congruent numberings), the last cell free (all orientation preserving renumberings)
        for d in range(1, D):
            frees += [[(d, i)] for i in range(topo.cnt[d])]
        frees.append([(D, topo.cnt[D] - 1)])
        if topo.cnt[D] > 1:
            shared = [f for f in range(topo.cnt[D - 1]) if sum(1 for row in topo.idx[(D, D - 1)] if f in row) == 2]
            if not (quick and topo.name == 'hexa'):
                frees += [[(D, topo.cnt[D] - 1), (D - 1, f)] for f in shared]
            if not quick:
                frees += [[(D - 1, f), (1, e)] for f in shared for e in (topo.idx[(2, 1)][f] if D == 3 else [])]
        if not quick and D == 3:
            frees += [[(2, a), (2, b)] for a in range(topo.cnt[2]) for b in range(a)][:12]
        for fr in frees:
            flat, cons = symbolic_inputs(topo, fr)
            symvars = [x for x in flat if irsym.is_sym(x)]
            inp = {'shape': topo.shape, 'eager': int(any(d == D for (d, _) in fr)), 'cnt': topo.cnt + [0] * (4 - len(topo.cnt)), 'data': flat, 'ocnt': 4, 'odata': MAXD, 'ocoords': MAXV}
            nm = 'refine %s, free: %s' % (mname, ', '.join('%d-entity %d' % e for e in fr) if fr else 'none (reference numbering)')
            jobs.append((nm, 'w_refine', inp, cons, refine_oracle(topo, symvars), {}))
    return jobs


def part_jobs(tab, quick):
    jobs = []
    for (mname, topo) in base_meshes(tab, quick):
        D = topo.D
        if topo.cnt[D] > 1 and quick and D == 3:
            continue
        tops = [[(D - 1, f)] for f in range(topo.cnt[D - 1])][: (3 if quick else 99)] + [[(D, 0)], [(1, 0), (0, topo.cnt[0] - 1)]]
        if D == 3:
            tops.append([(2, 0), (2, 1)])
        for top in tops:
            for with_topo in (0, 1):
                if with_topo and D == 3 and any(d == 3 for (d, _) in top):
                    continue   # documented as not implemented (XASSERTM "TargetSet refinement not implemented for Hexahedra/Tetrahedra"): a loud refusal, outside the claim
                part = Part(topo, top, bool(with_topo))
                # free: the first attached top entity of the mesh (so that part and mesh numbering of it differ in every congruent way)
                fr = [top[0]] if top[0][0] >= 1 and top[0][0] < D else []
                flat, cons = symbolic_inputs(topo, fr)
                symvars = [x for x in flat if irsym.is_sym(x)]
                inp = {'shape': topo.shape, 'eager': int(any(d == D for (d, _) in fr)), 'cnt': topo.cnt + [0] * (4 - len(topo.cnt)), 'data': flat, 'pcnt': part.cnt + [0] * (4 - len(part.cnt)), 'ptopo': with_topo,
                       'pdata': part.flat_topo() or [0], 'ptrg': part.flat_trg() or [0], 'ocnt': 4, 'odata': MAXD, 'ocoords': MAXV, 'opcnt': 4, 'opdata': MAXP, 'optrg': MAXP}
                nm = 'refine %s with part {%s} %s topology, free: %s' % (mname, ', '.join('%d-entity %d' % e for e in top), 'with' if with_topo else 'without', ', '.join('%d-entity %d' % e for e in fr) or 'none')
                jobs.append((nm, 'w_refine_part', inp, cons, refine_oracle(topo, symvars, part=part), {}))
    return jobs


def permute_oracle(topo, part, symvars):
    kind, D, tab = topo.kind, topo.D, topo.tab

    def oracle(get, rv, st, ex):
        mods = all_models(ex, st, symvars, limit=800)
        if ex is not None and len(mods) >= 800:
            return [('inputs of one path can be enumerated', False)]
        props = []
        for mdl in mods:
            tagp = z3.Not(z3.And(*[x == mdl.eval(x, model_completion=True) for x in symvars])) if (mdl is not None and symvars) else False
            cv = (lambda x: cval(x, mdl)) if mdl is not None else (lambda x: x)
            total = sum(topo.cnt[d2] * (nverts(kind, d2) if d1 == 0 else nfaces(kind, d2, d1)) for d2 in range(1, D + 1) for d1 in range(d2))
            nidx, _ = unflatten(kind, D, topo.cnt, [cv(get('odata', k)) for k in range(total)])
            co = [cv(get('ocoords', v)) for v in range(topo.cnt[0])]
            old = [{8 << w: w for w in range(topo.cnt[0])}.get(c) for c in co]
            P = [('vertex coordinates are permuted bijectively', sorted(x for x in old if x is not None) == list(range(topo.cnt[0])))]
            if P[0][1] and all(0 <= x < topo.cnt[d1] for (d2, d1), rows in nidx.items() for r in rows for x in r):
                ovs = {0: [frozenset([old[v]]) for v in range(topo.cnt[0])]}
                for d in range(1, D + 1):
                    ovs[d] = [frozenset(old[v] for v in r) for r in nidx[(d, 0)]]
                    P.append(('%d-entities: same vertex tuples as before, renumbered' % d, sorted(tuple(old[v] for v in r) for r in nidx[(d, 0)]) == sorted(tuple(r) for r in topo.idx[(d, 0)])))
                for d2 in range(2, D + 1):
                    for d1 in range(1, d2):
                        G = sym_group(kind, d1)
                        P.append(('permuted mesh: every listed %d-face of a %d-entity is its corresponding local face' % (d1, d2),
                                  all(congruent(nidx[(d1, 0)][row[k]], [nidx[(d2, 0)][c][j] for j in tab.fim(kind, d2, d1)[k]], G) for c, row in enumerate(nidx[(d2, d1)]) for k in range(len(row)))))
                ptr, p = {}, 0
                okp = True
                for d in range(D + 1):
                    for k, g in enumerate(part.trg[d]):
                        t = cv(get('optrg', p + k))
                        okp = okp and 0 <= t < topo.cnt[d] and ovs[d][t] == topo.vset(d, g)
                    p += part.cnt[d]
                P.append(('every part entity still refers to the same mesh entity after the permutation', okp))
            else:
                P.append(('indices in range after permutation', P[0][1]))
            for (lab, ok) in P:
                props.append((lab, True if ok else tagp))
        merged = {}
        for lab, pr in props:
            merged.setdefault(lab, []).append(pr)
        out = []
        for lab, prs in merged.items():
            bad = [q for q in prs if q is not True]
            out.append((lab, True if not bad else (bad[0] if len(bad) == 1 else z3.And(*[q if irsym.is_sym(q) else z3.BoolVal(bool(q)) for q in bad]))))
        return out
    return oracle


def permute_jobs(tab, quick):
    jobs = []
    for (mname, topo) in base_meshes(tab, quick):
        D = topo.D
        if topo.name in ('hexa',) and topo.cnt[D] > 1 and quick:
            continue
        tops = [[(D - 1, topo.cnt[D - 1] - 1), (D, 0)], [(1, 0), (0, topo.cnt[0] - 1)]]
        for top in tops:
            part = Part(topo, top, False)
            for sd in range(D + 1):
                n = topo.cnt[sd]
                if n < 2:
                    continue
                # symbolic permutation of the entities of dimension sd (arbitrary on the first <= 4 positions), fixed cyclic shifts in the other dimensions
                perms, cons = [], []
                for d in range(D + 1):
                    if d == sd:
                        k = min(n, 4 if quick else 5)
                        xs = [z3.BitVec('perm%d_%d' % (d, i), 64) for i in range(k)]
                        cons += [z3.ULT(x, k) for x in xs] + [z3.Distinct(*xs)]
                        perms += xs + list(range(k, n))
                    else:
                        perms += [(i + 1) % topo.cnt[d] for i in range(topo.cnt[d])]
                symvars = [x for x in perms if irsym.is_sym(x)]
                inp = {'shape': topo.shape, 'eager': 1, 'cnt': topo.cnt + [0] * (4 - len(topo.cnt)), 'data': [x for key in topo.layout() for r in topo.idx[key] for x in r],
                       'pcnt': part.cnt + [0] * (4 - len(part.cnt)), 'ptopo': 0, 'pdata': [0], 'ptrg': part.flat_trg() or [0], 'use': [1] * (D + 1) + [0] * (3 - D), 'perms': perms,
                       'odata': MAXP, 'ocoords': MAXV, 'optrg': MAXP}
                nm = 'permute %s with part {%s}: symbolic permutation of the %d-entities' % (mname, ', '.join('%d-entity %d' % e for e in top), sd)
                jobs.append((nm, 'w_permute', inp, cons, permute_oracle(topo, part, symvars), {'max_paths': 4000}))
    return jobs


def boundary_oracle(topo, symvars):
    kind, D = topo.kind, topo.D

    def oracle(get, rv, st, ex):
        props = []
        for mdl in all_models(ex, st, symvars):
            tagp = z3.Not(z3.And(*[x == mdl.eval(x, model_completion=True) for x in symvars])) if (mdl is not None and symvars) else False
            cv = (lambda x: cval(x, mdl)) if mdl is not None else (lambda x: x)
            # definition: boundary facets = facets with exactly one adjacent cell; boundary = their closure
            adj = {}
            for row in topo.idx[(D, D - 1)]:
                for f in row:
                    adj[f] = adj.get(f, 0) + 1
            bf = sorted(f for f in range(topo.cnt[D - 1]) if adj.get(f, 0) == 1)
            want = {D - 1: bf}
            for d in range(D - 1):
                want[d] = sorted(set(x for f in bf for x in (topo.idx[(D - 1, d)][f] if d > 0 else topo.idx[(D - 1, 0)][f])))
            bc = [cv(get('obc', d)) for d in range(D + 1)]
            P = [('boundary part has no cells', bc[D] == 0)]
            okc = bc[:D] == [len(want[d]) for d in range(D)]
            P.append(('boundary part sizes == closure of the facets with exactly one adjacent cell', okc))
            if okc:
                p = 0; okt = True
                for d in range(D):
                    t = [cv(get('obt', p + k)) for k in range(bc[d])]; p += bc[d]
                    okt = okt and sorted(t) == want[d] and len(set(t)) == len(t)
                P.append(('boundary part entities == closure of the facets with exactly one adjacent cell', okt))
            # refined boundary part == boundary of the refined mesh (as sets, every dimension)
            rc = [cv(get('orc', d)) for d in range(D + 1)]; fb = [cv(get('ofbc', d)) for d in range(D + 1)]
            oks = rc == fb and all(x <= 2 * MAXP for x in rc) and sum(rc) <= 2 * MAXP
            if oks:
                p = 0
                for d in range(D + 1):
                    a = sorted(cv(get('ort', p + k)) for k in range(rc[d])); b = sorted(cv(get('ofbt', p + k)) for k in range(fb[d])); p += rc[d]
                    oks = oks and a == b and len(set(a)) == len(a)
            P.append(('boundary part refined alongside the mesh == boundary computed on the refined mesh (every dimension)', oks))
            for (lab, ok) in P:
                props.append((lab, True if ok else tagp))
        merged = {}
        for lab, pr in props:
            merged.setdefault(lab, []).append(pr)
        out = []
        for lab, prs in merged.items():
            bad = [q for q in prs if q is not True]
            out.append((lab, True if not bad else (bad[0] if len(bad) == 1 else z3.And(*[q if irsym.is_sym(q) else z3.BoolVal(bool(q)) for q in bad]))))
        return out
    return oracle


def boundary_jobs(tab, quick):
    jobs = []
    ms = list(base_meshes(tab, quick))
    # a few meshes with interior facets / vertex-only contacts
    ms.append(('2x2 quadrilaterals', Topo(0, [[0, 1, 3, 4], [1, 2, 4, 5], [3, 4, 6, 7], [4, 5, 7, 8]], 9, tab)))
    ms.append(('two quadrilaterals touching in one vertex', Topo(0, [[0, 1, 2, 3], [3, 4, 5, 6]], 7, tab)))
    ms.append(('four triangles around a vertex', Topo(1, [[0, 1, 4], [1, 2, 4], [2, 3, 4], [3, 0, 4]], 5, tab)))
    ms.append(('three tetrahedra with a vertex-only contact', Topo(3, [[0, 1, 2, 3], [1, 2, 3, 4], [3, 4, 5, 6]], 7, tab)))
    for (mname, topo) in ms:
        D = topo.D
        frees = [[], [(D, topo.cnt[D] - 1)]]
        if topo.cnt[D - 1] > 0:
            frees.append([(D - 1, 0)])
            frees.append([(D - 1, topo.cnt[D - 1] - 1)])
        for fr in frees:
            if quick and topo.name == 'hexa' and topo.cnt[D] > 1 and fr and fr[0][0] == D:
                continue
            flat, cons = symbolic_inputs(topo, fr)
            symvars = [x for x in flat if irsym.is_sym(x)]
            inp = {'shape': topo.shape, 'eager': 1, 'cnt': topo.cnt + [0] * (4 - len(topo.cnt)), 'data': flat, 'obc': 4, 'obt': MAXP, 'ofc': 4, 'orc': 4, 'ort': 2 * MAXP, 'ofbc': 4, 'ofbt': 2 * MAXP}
            nm = 'boundary of %s, free: %s' % (mname, ', '.join('%d-entity %d' % e for e in fr) if fr else 'none (reference numbering)')
            jobs.append((nm, 'w_boundary', inp, cons, boundary_oracle(topo, symvars), {'max_paths': 4000}))
    return jobs


def main():
    chk = C.Check('C10', level='model_checking')
    quick = chk.tier == 'quick'
    bdir = C.mkdir(os.path.join(C.BUILD, 'C10'))
    wrapper = os.path.join(C.VERIF, 'wrappers', 'c10_mesh.cpp')
    mod, info = e3.build_ir('c10', wrapper, REPO_SRCS, bdir)
    native = e3.Native('c10', wrapper, REPO_SRCS, bdir, list(SIGS.values()))
    chk.extra['ir'] = info
    tab = Tables(native)
    jobs = idxrep_jobs() + congruency_jobs(tab) + refine_jobs(tab, quick) + part_jobs(tab, quick) + permute_jobs(tab, quick) + boundary_jobs(tab, quick)
    only = os.environ.get('C10_ONLY')
    if only:
        jobs = [j for j in jobs if only in j[0]]
    if not only or 'e2' in only:
        # geometric slice (E2): one refinement step on one cell with symbolic vertex coordinates
        from vlib import e2prop
        chk.bounds.append('E2: ONE cell per shape with symbolic vertex coordinates (triangle, convex quadrilateral, tetrahedron: general vertices; hexahedron, quadrilateral: symbolic affine image of the reference cell) refined once by the real StandardRefinery')
        chk.functions += ['Geometry::Intern::StandardVertexRefiner (all shapes) on a SymReal vertex set', 'Geometry::Intern::StandardIndexRefiner<Shape, dim, 0>']
        chk.assume('E2 slice: real arithmetic; volumes by closed formulas (determinant / shoelace); general trilinear hexahedra are outside (no independent polynomial volume formula at reasonable cost); for quadrilaterals "not inverted" is decided as corner determinant >= 0 under the assumption of a convex parent')
        e2prop.run_e2(chk, e2prop.e2_harness_path('c10_e2.cpp'), 'c10_e2', timeout=40 if quick else 300, harness_args=['--bounds', '1' if quick else '2'], max_group=1)
    chk.bounds.append('E3: IndexRepresentative and CongruencySampler/CongruencyMapping for edges, triangles, quadrilaterals on arbitrary distinct 64-bit indices (all %d renumberings as concrete sigma); StandardRefinery on 1- and 2-cell meshes of every shape (quad, tria, hexa, tetra) with ONE (thorough: up to two) sub-entity numbered in any congruent way and/or the last cell in any orientation preserving numbering (symbolic, decided by solver-guided forking); mesh parts (facet / cell / edge+vertex / two faces, with and without topology) refined alongside' % sum(math.factorial(nverts(*KIND[k])) for k in KIND))
    chk.assume('FaceIndexMapping tables are the definition of the reference cell numbering (read from the real header, sanity checked against geometry)',
               'entity NUMBERS of the coarse mesh are fixed (order of first appearance); orientations / rotations are symbolic; vertex coordinates x_v = 2^v (generic position) identify parents',
               'per path the oracle is evaluated for every model of the symbolic inputs under the path condition (all-SAT, normally exactly one model)')
    return e3run.run_jobs(chk, mod, native, jobs, info, quick, SIGS, 'c10',
                          explanation='Partial (stated): the leaf kernels that decide entity identity and orientation are checked for all 64-bit index values by z3; the real StandardRefinery (index, vertex and target refiners, entity counters, sub-index / congruency mappings) is executed symbolically on 1- and 2-cell meshes whose sub-entity orientation, cell rotation and part attachment are symbolic, every memory access is checked, and on every path the refined mesh must satisfy the definition of a conforming refinement (counts, local-face consistency, unique entities, facet adjacency, Euler characteristic, each coarse entity has exactly its pattern of children) and refined parts must map one-to-one onto the children of their parents, commuting with the topology.')
