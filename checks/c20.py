"""C20 (partial): MemoryPool reference counting and container lifetime histories (E3)"""
import os, itertools
import z3
from vlib import common as C, e3, e3run
from ir import irsym
from checks.c19 import B64, sig

REPO_SRCS = ['kernel/util/memory_pool.cpp', 'kernel/backend.cpp']
SIGS = {
    'w_vector_history': sig('w_vector_history', [('u64', 'nops'), ('in', 'ops', 8), ('in', 'a', 8), ('in', 'b', 8), ('in', 'm', 8), ('out', 'obytes_end', 1, 8), ('out', 'ovals', 3, 8), ('out', 'osizes', 3, 8)]),
    'w_matrix_history': sig('w_matrix_history', [('u64', 'nops'), ('in', 'ops', 8), ('in', 'm', 8), ('out', 'obytes_end', 2, 8)]),
    'w_pool_history': sig('w_pool_history', [('u64', 'nops'), ('in', 'ops', 8), ('in', 'slot', 8), ('out', 'obytes', 0, 8), ('out', 'ocount_end', 1, 8)]),
}
BYTES = [32, 32, 64]   # allocate_memory<double>(3 + i) rounds the count up to a multiple of 4


def pool_oracle(nops, ops, slot):
    def oracle(get, rv, st, ex):
        props = []
        refs = [z3.BitVecVal(0, 64)] * 3
        for k in range(nops):
            new = []
            for i in range(3):
                sel = B64(slot[k]) == i if irsym.is_sym(slot[k]) else z3.BoolVal(slot[k] % 3 == i)
                r = refs[i]
                alloc = z3.And(sel, B64(ops[k]) == 0, r == 0); inc = z3.And(sel, B64(ops[k]) == 1, r != 0); dec = z3.And(sel, B64(ops[k]) == 2, r != 0)
                new.append(z3.If(alloc, z3.BitVecVal(1, 64), z3.If(inc, r + 1, z3.If(dec, r - 1, r))))
            refs = new
            expect = z3.Sum([z3.If(refs[i] != 0, z3.BitVecVal(BYTES[i], 64), z3.BitVecVal(0, 64)) for i in range(3)])
            props.append(('pool bytes after step %d' % k, B64(get('obytes', k)) == expect))
        props.append(('pool empty after releasing every reference', B64(get('ocount_end', 0)) == 0))
        return props
    return oracle


def vec_oracle():
    def oracle(get, rv, st, ex):
        return [('pool empty after all containers are destroyed', B64(get('obytes_end', 0)) == 0)]
    return oracle


def main():
    chk = C.Check('C20', level='model_checking')
    quick = chk.tier == 'quick'
    bdir = C.mkdir(os.path.join(C.BUILD, 'C20'))
    wrapper = os.path.join(C.VERIF, 'wrappers', 'c20_life.cpp')
    mod, info = e3.build_ir('c20', wrapper, REPO_SRCS, bdir)
    native = e3.Native('c20', wrapper, REPO_SRCS, bdir, list(SIGS.values()))
    chk.extra['ir'] = info
    NP, NV = (4, 3) if quick else (6, 4)
    chk.bounds.append('E3: (i) every history of <= %d MemoryPool operations {allocate, increase, release} over 3 slots with symbolic operation codes; (ii) every history of <= %d DenseVector lifetime operations {construct, clone(mode), clear, move, range view, write, convert} with symbolic operation codes and swept operand slots / clone modes; (iii) every history of <= 3 (thorough 4) SparseMatrixCSR / SparseLayout operations {construct, share layout, move-construct layout, move-assign layout, clone, clear, move}; at the end all containers are destroyed' % (NP, NV))
    chk.assume('std::map<void*,MemoryInfo> of the real MemoryPool is executed from libstdc++ header code; its four out-of-line red-black-tree primitives are modelled as unbalanced BST operations (ir/rbtree.py)',
               'address model: heap blocks are ordered by allocation order (one of the orders a real allocator can produce)', 'malloc never fails')
    jobs = []
    # (i) pool protocol: operation codes symbolic, slot sequences swept
    for nops in range(1, NP + 1):
        for slot in itertools.product(range(3), repeat=nops):
            if nops > 3 and (slot[0] != 0 or len(set(slot)) > 2):
                continue
            ops = [z3.BitVec('op%d' % k, 64) for k in range(nops)]
            base = [z3.ULT(o, 3) for o in ops]
            jobs.append(('pool history of %d symbolic operations on slots %s' % (nops, list(slot)), 'w_pool_history', {'nops': nops, 'ops': ops, 'slot': list(slot), 'obytes': nops, 'ocount_end': 1}, base, pool_oracle(nops, ops, list(slot)), {}))
    # (ii) vector lifetimes: operation codes symbolic; operands swept
    combos = [((0, 1, 2), (1, 0, 0)), ((0, 1, 1), (1, 0, 0)), ((0, 1, 0), (0, 0, 1)), ((0, 1, 2), (0, 1, 1)), ((1, 0, 1), (0, 1, 0))]
    for nops in range(1, NV + 1):
        for (aa, bb) in combos:
            for mode in ((2,) if quick else (0, 1, 2, 3, 4)):
                a = [aa[k % 3] for k in range(nops)]; b = [bb[k % 3] for k in range(nops)]; m = [(mode + k) % 5 for k in range(nops)]
                ops = [z3.BitVec('op%d' % k, 64) for k in range(nops)]
                base = [z3.ULT(o, 7) for o in ops]
                if nops >= 3:
                    base += [ops[0] == 0]   # first operation constructs a vector (otherwise most histories are no-ops)
                jobs.append(('vector history of %d symbolic operations a=%s b=%s modes=%s' % (nops, a, b, m), 'w_vector_history', {'nops': nops, 'ops': ops, 'a': a, 'b': b, 'm': m, 'obytes_end': 1, 'ovals': 3, 'osizes': 3}, base, vec_oracle(), {}))
    # (iii) matrix / layout lifetimes: operation codes symbolic
    for nops in range(1, (3 if quick else 4) + 1):
        for mode in ((2, 0) if quick else (0, 1, 2, 3, 4)):
            ops = [z3.BitVec('op%d' % k, 64) for k in range(nops)]; m = [(mode + k) % 5 for k in range(nops)]
            base = [z3.ULT(o, 9) for o in ops] + ([ops[0] == 0] if nops >= 2 else [])
            jobs.append(('matrix/layout history of %d symbolic operations modes=%s' % (nops, m), 'w_matrix_history', {'nops': nops, 'ops': ops, 'm': m, 'obytes_end': 2}, base, vec_oracle(), {}))
    return e3run.run_jobs(chk, mod, native, jobs, info, quick, SIGS, 'c20',
                          explanation='Partial (stated): bounded histories of lifetime operations are executed symbolically on the real MemoryPool and Container/DenseVector code (own IR executor): the operation codes are symbolic, so every history inside the bound is a path; on every path the executor checks each access for bounds/liveness (use after free, double free, invalid free) and z3 decides that the pool size follows the reference-count model after every step and that the pool is empty once all containers/references are gone (no leak).')
