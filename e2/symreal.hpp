// E2: symbolic real scalar for source-level symbolic execution of the real FEAT templates.
// A SymReal is a trivially copyable handle {node id, magic, shadow double} into a hash-consed
// term DAG.  Arithmetic builds nodes; literals are the exact dyadic rational of the double;
// constant folding is only done when the IEEE result is exact (checked with fma / two-sum),
// so no rounding ever enters a term.  Comparisons involving a free variable are resolved by
// the shadow value and recorded as path conditions (concolic).
//
// Include this header FIRST in a harness TU (it pulls in the FEAT base headers it needs to
// specialise Type::Traits and to overload the Math:: functions).
#pragma once
#include <vector>
#include <string>
#include <unordered_map>
#include <unordered_set>
#include <map>
#include <cmath>
#include <cstdint>
#include <cstdio>
#include <cstdlib>
#include <cstring>
#include <iostream>
#include <sstream>
#include <limits>
#include <functional>

namespace vsym
{
  enum Op : int { OP_CONST = 0, OP_VAR = 1, OP_ADD = 2, OP_SUB = 3, OP_MUL = 4, OP_DIV = 5, OP_NEG = 6, OP_SQRT = 7 };
  enum Cmp : int { C_LT = 0, C_LE = 1, C_EQ = 2, C_NE = 3 };  // stored in "true" form

  struct Node { int op; int a; int b; double c; };
  struct PathCond { int cmp; int a; int b; };
  struct Oblig { int kind; std::string label; int lhs; int rhs; double shl, shr; std::string var; }; // kind 0 = must-hold eq, 1 = witness (must be refutable), 2 = lhs <= rhs, 3 = d lhs / d var == rhs

  struct Case
  {
    std::string name; std::string meta;
    std::vector<PathCond> pcs; std::vector<Oblig> obs; std::vector<std::string> notes;
    std::vector<std::pair<std::string,std::string>> facts; // discrete (non-symbolic) facts checked natively: (label, "ok"/"FAIL: ...")
  };

  struct Ctx
  {
    std::vector<Node> nodes;
    std::unordered_map<uint64_t,int> hc_op;
    std::unordered_map<uint64_t,int> hc_const;
    std::unordered_map<std::string,int> hc_var;
    std::vector<std::string> varnames; std::vector<double> varshadow;
    std::vector<Case> cases; int cur = -1;
    std::unordered_set<uint64_t> pcseen;
    std::map<std::string,double> overrides; // shadow overrides for variables (used to explore other branches)
    long ncmp = 0;
    Ctx()
    {
      // node 0 is the constant 0 so that zero-filled memory is a valid SymReal
      nodes.push_back(Node{OP_CONST, 0, 0, 0.0});
      uint64_t bits = 0; hc_const[bits] = 0;
    }
  };
  inline Ctx& ctx() { static Ctx c; return c; }

  static constexpr int MAGIC = 0x5EA10000;

  inline int mk_const(double d)
  {
    if(d == 0.0) return 0; // +0 and -0
    uint64_t bits; std::memcpy(&bits, &d, 8);
    auto& C = ctx(); auto it = C.hc_const.find(bits); if(it != C.hc_const.end()) return it->second;
    if(!std::isfinite(d)) { std::fprintf(stderr, "vsym: non-finite literal\n"); std::abort(); }
    int id = int(C.nodes.size()); C.nodes.push_back(Node{OP_CONST, 0, 0, d}); C.hc_const[bits] = id; return id;
  }
  inline int mk_var(const std::string& name, double shadow)
  {
    auto& C = ctx(); auto it = C.hc_var.find(name); if(it != C.hc_var.end()) return it->second;
    int vi = int(C.varnames.size()); C.varnames.push_back(name);
    auto ov = C.overrides.find(name); if(ov != C.overrides.end()) shadow = ov->second;
    C.varshadow.push_back(shadow);
    int id = int(C.nodes.size()); C.nodes.push_back(Node{OP_VAR, vi, 0, shadow}); C.hc_var[name] = id; return id;
  }
  inline bool is_const(int id) { return ctx().nodes[size_t(id)].op == OP_CONST; }
  inline double cval(int id) { return ctx().nodes[size_t(id)].c; }
  inline int mk_op(int op, int a, int b)
  {
    auto& C = ctx();
    uint64_t key = (uint64_t(op) << 60) | (uint64_t(uint32_t(a)) << 30) | uint64_t(uint32_t(b));
    auto it = C.hc_op.find(key); if(it != C.hc_op.end()) return it->second;
    int id = int(C.nodes.size()); if(id >= (1 << 30)) { std::fprintf(stderr, "vsym: DAG too large\n"); std::abort(); }
    C.nodes.push_back(Node{op, a, b, 0.0}); C.hc_op[key] = id; return id;
  }
  // exactness tests for constant folding
  inline bool exact_add(double a, double b, double& r) { r = a + b; if(!std::isfinite(r)) return false; double bb = r - a; double err = (a - (r - bb)) + (b - bb); return err == 0.0; }
  inline bool exact_mul(double a, double b, double& r) { r = a * b; if(!std::isfinite(r)) return false; if(r == 0.0 && a != 0.0 && b != 0.0) return false; if(std::fabs(r) < 1e-290) return false; return std::fma(a, b, -r) == 0.0; }
  inline bool exact_div(double a, double b, double& r) { if(b == 0.0) return false; r = a / b; if(!std::isfinite(r)) return false; if(std::fabs(r) < 1e-290 && a != 0.0) return false; return std::fma(r, b, -a) == 0.0; }

  inline int n_add(int a, int b)
  {
    if(a == 0) return b; if(b == 0) return a;
    if(is_const(a) && is_const(b)) { double r; if(exact_add(cval(a), cval(b), r)) return mk_const(r); }
    if(a > b) std::swap(a, b); // commutative normal form
    return mk_op(OP_ADD, a, b);
  }
  inline int n_neg(int a)
  {
    if(a == 0) return 0;
    if(is_const(a)) return mk_const(-cval(a));
    if(ctx().nodes[size_t(a)].op == OP_NEG) return ctx().nodes[size_t(a)].a;
    return mk_op(OP_NEG, a, 0);
  }
  inline int n_sub(int a, int b)
  {
    if(b == 0) return a; if(a == 0) return n_neg(b);
    if(a == b) return 0;
    if(is_const(a) && is_const(b)) { double r; if(exact_add(cval(a), -cval(b), r)) return mk_const(r); }
    return mk_op(OP_SUB, a, b);
  }
  inline int n_mul(int a, int b)
  {
    if(a == 0 || b == 0) return 0;
    if(is_const(a) && cval(a) == 1.0) return b;
    if(is_const(b) && cval(b) == 1.0) return a;
    if(is_const(a) && cval(a) == -1.0) return n_neg(b);
    if(is_const(b) && cval(b) == -1.0) return n_neg(a);
    if(is_const(a) && is_const(b)) { double r; if(exact_mul(cval(a), cval(b), r)) return mk_const(r); }
    if(a > b) std::swap(a, b);
    return mk_op(OP_MUL, a, b);
  }
  inline int n_div(int a, int b)
  {
    if(is_const(b) && cval(b) == 1.0) return a;
    if(is_const(b) && cval(b) == -1.0) return n_neg(a);
    if(a == 0 && b != 0) return 0; // 0/x = 0 on the domain x != 0 (divisors are assumed non-zero, see driver)
    if(is_const(a) && is_const(b)) { double r; if(exact_div(cval(a), cval(b), r)) return mk_const(r); }
    return mk_op(OP_DIV, a, b);
  }

  struct SymReal
  {
    int id; int magic; double sh;
    SymReal() = default;
    SymReal(double d) : id(mk_const(d)), magic(MAGIC), sh(d) {}
    SymReal(float d) : SymReal(double(d)) {}
    SymReal(long double d) : SymReal(double(d)) {}
    SymReal(int i) : SymReal(double(i)) {}
    SymReal(unsigned i) : SymReal(double(i)) {}
    SymReal(long i) : SymReal(double(i)) {}
    SymReal(unsigned long i) : SymReal(double(i)) {}
    SymReal(long long i) : SymReal(double(i)) {}
    SymReal(unsigned long long i) : SymReal(double(i)) {}
    static SymReal raw(int id, double sh) { SymReal r; r.id = id; r.magic = MAGIC; r.sh = sh; return r; }
    static SymReal var(const std::string& name, double shadow) { int id = mk_var(name, shadow); return raw(id, ctx().nodes[size_t(id)].c); }
#ifdef VSYM_IMPLICIT_DOUBLE
    operator double() const { chk(); return sh; }   // opt-in (statistics/logging sinks that take a double); drops the symbolic value
#else
    explicit operator double() const { chk(); return sh; }
#endif
    explicit operator float() const { chk(); return float(sh); }
    explicit operator long double() const { chk(); return (long double)sh; }
    explicit operator int() const { chk(); return int(sh); }
    explicit operator long() const { chk(); return long(sh); }
    explicit operator unsigned long() const { chk(); return (unsigned long)(sh); }
    explicit operator unsigned() const { chk(); return unsigned(sh); }
    // validity: zero-filled memory is the constant 0; anything else without the magic tag is an uninitialised read
    inline int nid() const
    {
      if(magic == MAGIC) return id;
      if(magic == 0 && id == 0) return 0;
      std::fprintf(stderr, "vsym: FATAL use of uninitialised SymReal (id=%d magic=%x)\n", id, unsigned(magic)); std::abort();
    }
    inline void chk() const { (void)nid(); }
    bool is_cst() const { return is_const(nid()); }
  };
  static_assert(std::is_trivially_copyable<SymReal>::value, "SymReal must be trivially copyable");
  static_assert(std::is_trivial<SymReal>::value, "SymReal must be trivial");

  inline SymReal operator+(const SymReal& a, const SymReal& b) { return SymReal::raw(n_add(a.nid(), b.nid()), a.sh + b.sh); }
  inline SymReal operator-(const SymReal& a, const SymReal& b) { return SymReal::raw(n_sub(a.nid(), b.nid()), a.sh - b.sh); }
  inline SymReal operator*(const SymReal& a, const SymReal& b) { return SymReal::raw(n_mul(a.nid(), b.nid()), a.sh * b.sh); }
  inline SymReal operator/(const SymReal& a, const SymReal& b) { return SymReal::raw(n_div(a.nid(), b.nid()), a.sh / b.sh); }
  inline SymReal operator-(const SymReal& a) { return SymReal::raw(n_neg(a.nid()), -a.sh); }
  inline SymReal operator+(const SymReal& a) { a.chk(); return a; }
  inline SymReal& operator+=(SymReal& a, const SymReal& b) { a = a + b; return a; }
  inline SymReal& operator-=(SymReal& a, const SymReal& b) { a = a - b; return a; }
  inline SymReal& operator*=(SymReal& a, const SymReal& b) { a = a * b; return a; }
  inline SymReal& operator/=(SymReal& a, const SymReal& b) { a = a / b; return a; }
#define VSYM_MIXED(T) \
  inline SymReal operator+(const SymReal& a, T b) { return a + SymReal(b); } inline SymReal operator+(T a, const SymReal& b) { return SymReal(a) + b; } \
  inline SymReal operator-(const SymReal& a, T b) { return a - SymReal(b); } inline SymReal operator-(T a, const SymReal& b) { return SymReal(a) - b; } \
  inline SymReal operator*(const SymReal& a, T b) { return a * SymReal(b); } inline SymReal operator*(T a, const SymReal& b) { return SymReal(a) * b; } \
  inline SymReal operator/(const SymReal& a, T b) { return a / SymReal(b); } inline SymReal operator/(T a, const SymReal& b) { return SymReal(a) / b; }
  VSYM_MIXED(double) VSYM_MIXED(int) VSYM_MIXED(unsigned long) VSYM_MIXED(long) VSYM_MIXED(float) VSYM_MIXED(unsigned)
#undef VSYM_MIXED

  inline void record_pc(int cmp, int a, int b)
  {
    auto& C = ctx(); if(C.cur < 0) return;
    uint64_t key = (uint64_t(cmp) << 60) | (uint64_t(uint32_t(a)) << 30) | uint64_t(uint32_t(b));
    key ^= uint64_t(C.cur) * 0x9E3779B97F4A7C15ull;
    if(!C.pcseen.insert(key).second) return;
    C.cases[size_t(C.cur)].pcs.push_back(PathCond{cmp, a, b});
  }
  // evaluate comparison on shadows, record the true form when a free variable is involved
  inline bool cmp_lt(const SymReal& a, const SymReal& b)
  {
    int ia = a.nid(), ib = b.nid(); bool r = a.sh < b.sh;
    if(ia == ib) return false;
    if(!(is_const(ia) && is_const(ib))) { ctx().ncmp++; if(r) record_pc(C_LT, ia, ib); else record_pc(C_LE, ib, ia); }
    return r;
  }
  inline bool cmp_le(const SymReal& a, const SymReal& b)
  {
    int ia = a.nid(), ib = b.nid(); bool r = a.sh <= b.sh;
    if(ia == ib) return true;
    if(!(is_const(ia) && is_const(ib))) { ctx().ncmp++; if(r) record_pc(C_LE, ia, ib); else record_pc(C_LT, ib, ia); }
    return r;
  }
  inline bool cmp_eq(const SymReal& a, const SymReal& b)
  {
    int ia = a.nid(), ib = b.nid(); bool r = a.sh == b.sh;
    if(ia == ib) return true;
    if(!(is_const(ia) && is_const(ib))) { ctx().ncmp++; record_pc(r ? C_EQ : C_NE, ia, ib); }
    return r;
  }
  inline bool operator<(const SymReal& a, const SymReal& b) { return cmp_lt(a, b); }
  inline bool operator>(const SymReal& a, const SymReal& b) { return cmp_lt(b, a); }
  inline bool operator<=(const SymReal& a, const SymReal& b) { return cmp_le(a, b); }
  inline bool operator>=(const SymReal& a, const SymReal& b) { return cmp_le(b, a); }
  inline bool operator==(const SymReal& a, const SymReal& b) { return cmp_eq(a, b); }
  inline bool operator!=(const SymReal& a, const SymReal& b) { return !cmp_eq(a, b); }
#define VSYM_MIXEDC(T) \
  inline bool operator<(const SymReal& a, T b) { return a < SymReal(b); } inline bool operator<(T a, const SymReal& b) { return SymReal(a) < b; } \
  inline bool operator>(const SymReal& a, T b) { return a > SymReal(b); } inline bool operator>(T a, const SymReal& b) { return SymReal(a) > b; } \
  inline bool operator<=(const SymReal& a, T b) { return a <= SymReal(b); } inline bool operator<=(T a, const SymReal& b) { return SymReal(a) <= b; } \
  inline bool operator>=(const SymReal& a, T b) { return a >= SymReal(b); } inline bool operator>=(T a, const SymReal& b) { return SymReal(a) >= b; } \
  inline bool operator==(const SymReal& a, T b) { return a == SymReal(b); } inline bool operator==(T a, const SymReal& b) { return SymReal(a) == b; } \
  inline bool operator!=(const SymReal& a, T b) { return a != SymReal(b); } inline bool operator!=(T a, const SymReal& b) { return SymReal(a) != b; }
  VSYM_MIXEDC(double) VSYM_MIXEDC(int)
#undef VSYM_MIXEDC

  inline std::ostream& operator<<(std::ostream& o, const SymReal& a) { return o << "n" << a.nid() << "[" << a.sh << "]"; }
  inline std::istream& operator>>(std::istream& i, SymReal& a) { double d; i >> d; a = SymReal(d); return i; }

  inline SymReal sym_sqrt(const SymReal& x)
  {
    // FEAT's generic Math::sqrt returns 0 for x <= 0; mirrored here (the comparison is recorded)
    if(x <= SymReal(0.0)) return SymReal(0.0);
    int ia = x.nid();
    if(is_const(ia)) { double r = std::sqrt(cval(ia)); if(r * r == cval(ia) && std::fma(r, r, -cval(ia)) == 0.0) return SymReal(r); }
    return SymReal::raw(mk_op(OP_SQRT, ia, 0), std::sqrt(x.sh));
  }
  inline SymReal sym_abs(const SymReal& x) { return (x < SymReal(0.0)) ? -x : x; }
  // NaN marker: a reserved free variable; Math::isnan<SymReal> recognises exactly this node.  Code that (wrongly) lets the
  // marker flow into a result makes the result depend on an unconstrained variable, which the solver refutes.
  inline SymReal sym_nan() { return SymReal::var("__nan__", 12345.678); }
  inline bool sym_isnan(const SymReal& x) { static int nid = sym_nan().id; return x.nid() == nid; }

  // ------------------------------------------------------------------ cases and obligations
  inline void begin_case(const std::string& name, const std::string& meta_json = "{}")
  {
    auto& C = ctx(); C.cases.push_back(Case()); C.cur = int(C.cases.size()) - 1; C.cases.back().name = name; C.cases.back().meta = meta_json;
  }
  inline void end_case() { ctx().cur = -1; }
  inline Case& cur_case() { auto& C = ctx(); if(C.cur < 0) { std::fprintf(stderr, "vsym: no open case\n"); std::abort(); } return C.cases[size_t(C.cur)]; }
  // assumption (must hold at the shadow point, else the harness is wrong)
  inline void assume_lt(const SymReal& a, const SymReal& b) { if(!(a.sh < b.sh)) { std::fprintf(stderr, "vsym: assumption violated at shadow point\n"); std::abort(); } record_pc(C_LT, a.nid(), b.nid()); }
  inline void assume_le(const SymReal& a, const SymReal& b) { if(!(a.sh <= b.sh)) { std::fprintf(stderr, "vsym: assumption violated at shadow point\n"); std::abort(); } record_pc(C_LE, a.nid(), b.nid()); }
  inline void assume_ne(const SymReal& a, const SymReal& b) { if(!(a.sh != b.sh)) { std::fprintf(stderr, "vsym: assumption violated at shadow point\n"); std::abort(); } record_pc(C_NE, a.nid(), b.nid()); }
  inline void check_eq(const std::string& label, const SymReal& lhs, const SymReal& rhs) { cur_case().obs.push_back(Oblig{0, label, lhs.nid(), rhs.nid(), lhs.sh, rhs.sh, ""}); }
  // derivative obligation: d f / d <variable> == g (the driver differentiates the term DAG of f symbolically)
  inline void check_deriv(const std::string& label, const SymReal& f, const std::string& var, const SymReal& g) { cur_case().obs.push_back(Oblig{3, label, f.nid(), g.nid(), f.sh, g.sh, var}); }
  inline void check_le(const std::string& label, const SymReal& lhs, const SymReal& rhs) { cur_case().obs.push_back(Oblig{2, label, lhs.nid(), rhs.nid(), lhs.sh, rhs.sh, ""}); }
  inline void witness_neq(const std::string& label, const SymReal& lhs, const SymReal& rhs) { cur_case().obs.push_back(Oblig{1, label, lhs.nid(), rhs.nid(), lhs.sh, rhs.sh, ""}); }
  inline void note(const std::string& s) { cur_case().notes.push_back(s); }
  // discrete fact decided natively inside this symbolic execution (event logs, counters, "abort reached", ...)
  inline void fact(const std::string& label, bool ok, const std::string& detail = "") { cur_case().facts.push_back({label, ok ? std::string("ok") : ("FAIL: " + detail)}); }

  inline std::string hexd(double d) { char buf[64]; std::snprintf(buf, sizeof buf, "%a", d); return buf; }
  inline std::string esc(const std::string& s) { std::string r; for(char c : s) { if(c == '\n') r += ' '; else r += c; } return r; }

  inline void dump(const std::string& path)
  {
    auto& C = ctx(); FILE* f = std::fopen(path.c_str(), "w"); if(!f) { std::perror("vsym dump"); std::abort(); }
    // only nodes needed by some obligation / path condition
    std::vector<char> need(C.nodes.size(), 0);
    for(auto& cs : C.cases) { for(auto& p : cs.pcs) { need[size_t(p.a)] = 1; need[size_t(p.b)] = 1; } for(auto& o : cs.obs) { need[size_t(o.lhs)] = 1; need[size_t(o.rhs)] = 1; } }
    for(size_t i = C.nodes.size(); i-- > 0;) if(need[i]) { const Node& n = C.nodes[i]; if(n.op >= OP_ADD) { need[size_t(n.a)] = 1; if(n.op != OP_NEG && n.op != OP_SQRT) need[size_t(n.b)] = 1; } }
    static const char* opn[] = {"C", "V", "+", "-", "*", "/", "~", "Q"};
    for(size_t i = 0; i < C.nodes.size(); ++i) if(need[i])
    {
      const Node& n = C.nodes[i];
      if(n.op == OP_CONST) std::fprintf(f, "N %zu C %s\n", i, hexd(n.c).c_str());
      else if(n.op == OP_VAR) std::fprintf(f, "N %zu V %s %s\n", i, C.varnames[size_t(n.a)].c_str(), hexd(n.c).c_str());
      else std::fprintf(f, "N %zu %s %d %d\n", i, opn[n.op], n.a, n.b);
    }
    static const char* cn[] = {"lt", "le", "eq", "ne"};
    for(auto& cs : C.cases)
    {
      std::fprintf(f, "CASE %s\t%s\n", esc(cs.name).c_str(), esc(cs.meta).c_str());
      for(auto& p : cs.pcs) std::fprintf(f, "PC %s %d %d\n", cn[p.cmp], p.a, p.b);
      for(auto& o : cs.obs)
      {
        if(o.kind == 3) std::fprintf(f, "DEQ %d %d %s %s %s %s\n", o.lhs, o.rhs, hexd(o.shl).c_str(), hexd(o.shr).c_str(), o.var.c_str(), esc(o.label).c_str());
        else std::fprintf(f, "%s %d %d %s %s %s\n", o.kind == 0 ? "EQ" : (o.kind == 2 ? "LE" : "NEQW"), o.lhs, o.rhs, hexd(o.shl).c_str(), hexd(o.shr).c_str(), esc(o.label).c_str());
      }
      for(auto& s : cs.notes) std::fprintf(f, "NOTE %s\n", esc(s).c_str());
      for(auto& s : cs.facts) std::fprintf(f, "FACT %s\t%s\n", esc(s.first).c_str(), esc(s.second).c_str());
      std::fprintf(f, "ENDCASE\n");
    }
    std::fprintf(f, "STATS nodes=%zu cmps=%ld\n", C.nodes.size(), C.ncmp);
    std::fclose(f);
  }
  // read "name value" lines: shadow overrides for variables (explore other branches / replay)
  inline void load_overrides(const char* path)
  {
    if(!path) return; FILE* f = std::fopen(path, "r"); if(!f) return; char nm[256]; double v;
    while(std::fscanf(f, "%255s %lf", nm, &v) == 2) ctx().overrides[nm] = v;
    std::fclose(f);
  }
} // namespace vsym

namespace std
{
  template<> class numeric_limits<vsym::SymReal>
  {
  public:
    static constexpr bool is_specialized = true; static constexpr bool is_signed = true; static constexpr bool is_integer = false; static constexpr bool is_exact = false;
    static constexpr bool has_infinity = false; static constexpr bool has_quiet_NaN = false; static constexpr int digits = 53; static constexpr int digits10 = 15; static constexpr int max_digits10 = 17;
    static vsym::SymReal min() { return vsym::SymReal(std::numeric_limits<double>::min()); }
    static vsym::SymReal max() { return vsym::SymReal(std::numeric_limits<double>::max()); }
    static vsym::SymReal lowest() { return vsym::SymReal(std::numeric_limits<double>::lowest()); }
    static vsym::SymReal epsilon() { return vsym::SymReal(std::numeric_limits<double>::epsilon()); }
  };
  inline vsym::SymReal sqrt(const vsym::SymReal& x) { return vsym::sym_sqrt(x); }
  inline vsym::SymReal abs(const vsym::SymReal& x) { return vsym::sym_abs(x); }
  inline vsym::SymReal fabs(const vsym::SymReal& x) { return vsym::sym_abs(x); }
  inline bool isfinite(const vsym::SymReal&) { return true; }
  inline bool isnan(const vsym::SymReal&) { return false; }
}

// ---------------------------------------------------------------------- FEAT glue
#include <kernel/base_header.hpp>
#include <kernel/util/type_traits.hpp>
namespace FEAT { namespace Type {
  template<> struct Traits<vsym::SymReal>
  {
    static constexpr bool is_int = false; static constexpr bool is_float = true; static constexpr bool is_bool = false; static constexpr bool is_signed = true;
    typedef FloatingClass TypeClass;
    static String name() { return "SymReal"; }
    static uint64_t feature_hash() { return uint64_t(sizeof(vsym::SymReal)) | uint64_t(is_int) << 32 | uint64_t(is_float) << 33 | uint64_t(is_signed) << 34; }
  };
} }
#include <kernel/util/math.hpp>
namespace FEAT { namespace Math {
  inline vsym::SymReal sqrt(vsym::SymReal x) { return vsym::sym_sqrt(x); }
  inline vsym::SymReal abs(vsym::SymReal x) { return vsym::sym_abs(x); }
  template<> inline vsym::SymReal eps<vsym::SymReal>() { return vsym::SymReal(std::numeric_limits<double>::epsilon()); }
  template<> inline bool isfinite<vsym::SymReal>(vsym::SymReal) { return true; }
  template<> inline bool isnan<vsym::SymReal>(vsym::SymReal x) { return vsym::sym_isnan(x); }
  template<> inline vsym::SymReal nan<vsym::SymReal>() { return vsym::sym_nan(); }
  template<> inline bool isnormal<vsym::SymReal>(vsym::SymReal x) { return std::isnormal(x.sh); }
} }

// ---------------------------------------------------------------------- scalar-generic harness helpers
// A harness is a template over its scalar DT: DT = vsym::SymReal generates obligations, DT = double replays a
// concrete assignment against the same real code and decides the same identities numerically.
namespace vh
{
  template<typename DT> struct H;
  template<> struct H<vsym::SymReal>
  {
    static vsym::SymReal var(const std::string& n, double sh) { return vsym::SymReal::var(n, sh); }
    static void eq(const std::string& l, const vsym::SymReal& a, const vsym::SymReal& b) { vsym::check_eq(l, a, b); }
    static void le(const std::string& l, const vsym::SymReal& a, const vsym::SymReal& b) { vsym::check_le(l, a, b); }
    static void deq(const std::string& l, const vsym::SymReal& f, const std::string& var, const vsym::SymReal& g) { vsym::check_deriv(l, f, var, g); }
    static void witness(const std::string& l, const vsym::SymReal& a, const vsym::SymReal& b) { vsym::witness_neq(l, a, b); }
    static void begin(const std::string& n, const std::string& m = "{}") { vsym::begin_case(n, m); }
    static void end() { vsym::end_case(); }
    static void fact(const std::string& l, bool ok, const std::string& d = "") { vsym::fact(l, ok, d); }
    static void assume_lt(const vsym::SymReal& a, const vsym::SymReal& b) { vsym::assume_lt(a, b); }
    static void assume_ne(const vsym::SymReal& a, const vsym::SymReal& b) { vsym::assume_ne(a, b); }
    static double sh(const vsym::SymReal& a) { return a.sh; }
    static bool want(const std::string& n) { static const char* only = std::getenv("VH_ONLY_CASE"); return only == nullptr || n == only; }
  };
  struct Replay
  {
    std::map<std::string,double> vals; std::string only_case; bool active = false; std::string cur; int fails = 0; bool in_case = false;
    static Replay& get() { static Replay r; return r; }
  };
  template<> struct H<double>
  {
    static double var(const std::string& n, double sh) { auto& R = Replay::get(); auto it = R.vals.find(n); return it != R.vals.end() ? it->second : sh; }
    static void eq(const std::string& l, double a, double b)
    {
      auto& R = Replay::get(); double sc = std::max(1.0, std::max(std::fabs(a), std::fabs(b)));
      bool bad = !(std::fabs(a - b) <= 1e-9 * sc);
      if(bad) { ++R.fails; std::printf("REPLAY-FAIL case=%s label=%s lhs=%.17g rhs=%.17g\n", R.cur.c_str(), l.c_str(), a, b); }
    }
    static void le(const std::string& l, double a, double b)
    {
      auto& R = Replay::get(); double sc = std::max(1.0, std::max(std::fabs(a), std::fabs(b)));
      if(!(a <= b + 1e-9 * sc)) { ++R.fails; std::printf("REPLAY-FAIL case=%s label=%s lhs=%.17g rhs=%.17g (lhs <= rhs expected)\n", R.cur.c_str(), l.c_str(), a, b); }
    }
    // derivative obligations are replayed by central finite differences: the driver runs this binary at var-h, var, var+h
    static void deq(const std::string& l, double f, const std::string& var, double g) { std::printf("DEQVAL case=%s\tlabel=%s\tvar=%s\tf=%.17g\tg=%.17g\n", Replay::get().cur.c_str(), l.c_str(), var.c_str(), f, g); }
    static void witness(const std::string&, double, double) {}
    static void begin(const std::string& n, const std::string& = "{}") { Replay::get().cur = n; }
    static void end() {}
    static void fact(const std::string& l, bool ok, const std::string& d = "") { if(!ok) { ++Replay::get().fails; std::printf("REPLAY-FAIL case=%s fact=%s %s\n", Replay::get().cur.c_str(), l.c_str(), d.c_str()); } }
    static void assume_lt(double, double) {}
    static void assume_ne(double, double) {}
    static double sh(double a) { return a; }
    static bool want(const std::string& n) { auto& R = Replay::get(); return R.only_case.empty() || R.only_case == n; }
  };
  // main helper: argv = <out dump> [overrides]   or   --replay <case> <assignment file>
  template<typename F1, typename F2>
  int main_dispatch(int argc, char** argv, F1 run_sym, F2 run_dbl)
  {
    if(argc >= 4 && std::string(argv[1]) == "--replay")
    {
      auto& R = Replay::get(); R.active = true; R.only_case = argv[2];
      FILE* f = std::fopen(argv[3], "r"); if(!f) { std::perror("replay file"); return 2; }
      char nm[256]; double v; while(std::fscanf(f, "%255s %lf", nm, &v) == 2) R.vals[nm] = v; std::fclose(f);
      run_dbl();
      std::printf("REPLAY-DONE fails=%d\n", R.fails);
      return R.fails ? 1 : 0;
    }
    if(argc < 2) { std::fprintf(stderr, "usage: %s <dump> [overrides] | --replay <case> <assign>\n", argv[0]); return 2; }
    if(argc >= 3) vsym::load_overrides(argv[2]);
    run_sym();
    vsym::dump(argv[1]);
    return 0;
  }
}
