#pragma once
#include <exception>
namespace vh { struct FeatAbort : public std::exception { const char* what() const noexcept override { return "FEAT abort (XASSERT/XABORT)"; } }; }
