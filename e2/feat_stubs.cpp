// Environment stub for natively executed harnesses (E2, replays): Runtime::abort throws instead of killing the
// process so that a harness can observe "XASSERT/XABORT reached" per case.  Everything else is the real code.
#include <kernel/base_header.hpp>
#include <kernel/runtime.hpp>
#include <stdexcept>
#include <string>
#include "vh_abort.hpp"
namespace FEAT
{
  void Runtime::abort(bool)
  {
    throw vh::FeatAbort();
  }
}
