// helpers shared by the natively executed harnesses: build FEAT containers from a pattern + scalar generator,
// dense expansions (the independent oracle side), abort capture.
#pragma once
#include <type_traits>
#include "symreal.hpp"
#include "vh_abort.hpp"
#include <kernel/lafem/dense_vector.hpp>
#include <kernel/lafem/dense_vector_blocked.hpp>
#include <kernel/lafem/sparse_matrix_csr.hpp>
#include <vector>
#include <string>
#include <functional>
#include <csignal>
#include <csetjmp>
#include <unistd.h>
#include <sys/wait.h>

namespace vh
{
  using namespace FEAT;
  typedef std::vector<std::vector<Index>> Pattern; // column indices per row (any order, duplicates allowed where the format allows)

  inline std::string str(Index i) { return std::to_string(i); }
  template<typename T> inline std::string join(const std::vector<T>& v, const char* sep = ",") { std::string s; for(size_t i = 0; i < v.size(); ++i) { if(i) s += sep; s += std::to_string(v[i]); } return s; }
  inline std::string pat_str(const Pattern& p) { std::string s; for(size_t i = 0; i < p.size(); ++i) { if(i) s += "|"; s += join(p[i]); } return s; }
  inline Index nnz(const Pattern& p) { Index n = 0; for(auto& r : p) n += Index(r.size()); return n; }

  // all sorted, duplicate-free patterns of a rows x cols matrix with at most max_nnz entries
  inline std::vector<Pattern> all_patterns(Index rows, Index cols, Index max_nnz)
  {
    std::vector<Pattern> out; Index n = rows * cols;
    for(unsigned long m = 0; m < (1ul << n); ++m)
    {
      if(Index(__builtin_popcountl(m)) > max_nnz) continue;
      Pattern p(rows);
      for(Index i = 0; i < rows; ++i) for(Index j = 0; j < cols; ++j) if(m >> (i * cols + j) & 1) p[i].push_back(j);
      out.push_back(p);
    }
    return out;
  }

  template<typename DT> using Dense = std::vector<std::vector<DT>>;
  template<typename DT> Dense<DT> dense_zero(Index r, Index c) { return Dense<DT>(r, std::vector<DT>(c, DT(0))); }

  template<typename DT, typename IT = Index>
  LAFEM::DenseVector<DT, IT> make_vec(Index n, const std::string& name, double base = 0.5, double step = 0.375)
  {
    LAFEM::DenseVector<DT, IT> v(n);
    for(Index i = 0; i < n; ++i) v(i, H<DT>::var(name + str(i), base + step * double(i) * ((i % 2) ? -1.0 : 1.0)));
    return v;
  }
  template<typename DT, typename IT>
  std::vector<DT> to_std(const LAFEM::DenseVector<DT, IT>& v) { std::vector<DT> r; for(Index i = 0; i < v.size(); ++i) r.push_back(v(i)); return r; }

  // CSR matrix with given pattern; value k of row i, col j is the variable <name>k
  template<typename DT, typename IT = Index>
  LAFEM::SparseMatrixCSR<DT, IT> make_csr(Index rows, Index cols, const Pattern& p, const std::string& name, Dense<DT>* dense = nullptr, double base = 1.25)
  {
    if(dense) *dense = dense_zero<DT>(rows, cols);
    Index n = nnz(p);
    if(n == 0) return LAFEM::SparseMatrixCSR<DT, IT>(rows, cols);
    LAFEM::DenseVector<IT, IT> ci(n), rp(rows + 1); LAFEM::DenseVector<DT, IT> va(n);
    Index k = 0;
    for(Index i = 0; i < rows; ++i)
    {
      rp(i, IT(k));
      for(Index j : p[i]) { DT v = H<DT>::var(name + str(k), base + 0.3125 * double(k) * ((k % 3 == 1) ? -1.0 : 1.0) + 0.046875 * double(k * k % 7)); ci(k, IT(j)); va(k, v); if(dense) (*dense)[i][j] += v; ++k; }
    }
    rp(rows, IT(k));
    return LAFEM::SparseMatrixCSR<DT, IT>(rows, cols, ci, va, rp);
  }

  template<typename DT, typename MT>
  Dense<DT> csr_to_dense(const MT& m)
  {
    Dense<DT> d = dense_zero<DT>(m.rows(), m.columns());
    if(m.used_elements() == 0) return d;
    for(Index i = 0; i < m.rows(); ++i) for(Index k = Index(m.row_ptr()[i]); k < Index(m.row_ptr()[i + 1]); ++k) d[i][Index(m.col_ind()[k])] += m.val()[k];
    return d;
  }


  // ---- BCSR: block pattern p (block rows x block cols), block k stored row-major as val[k*BH*BW + bi*BW + bj]
  template<typename DT, typename IT, int BH, int BW, typename MT>
  MT make_bcsr(Index rows, Index cols, const Pattern& p, const std::string& name, Dense<DT>* dense)
  {
    if(dense) *dense = dense_zero<DT>(rows * BH, cols * BW);
    Index n = nnz(p);
    if(n == 0) return MT(rows, cols);
    LAFEM::DenseVector<IT, IT> ci(n), rp(rows + 1); LAFEM::DenseVector<DT, IT> va(n * BH * BW);
    Index k = 0;
    for(Index i = 0; i < rows; ++i)
    {
      rp(i, IT(k));
      for(Index j : p[i])
      {
        ci(k, IT(j));
        for(int bi = 0; bi < BH; ++bi) for(int bj = 0; bj < BW; ++bj)
        {
          Index q = k * BH * BW + Index(bi * BW + bj);
          DT v = H<DT>::var(name + str(q), 1.25 + 0.3125 * double(q) * ((q % 3 == 1) ? -1.0 : 1.0)); va(q, v);
          if(dense) (*dense)[i * BH + Index(bi)][j * BW + Index(bj)] += v;
        }
        ++k;
      }
    }
    rp(rows, IT(k));
    return MT(rows, cols, ci, va, rp);
  }
  // ---- CSCR: only non-empty rows are stored
  template<typename DT, typename IT, typename MT>
  MT make_cscr(Index rows, Index cols, const Pattern& p, const std::string& name, Dense<DT>* dense)
  {
    if(dense) *dense = dense_zero<DT>(rows, cols);
    Index n = nnz(p);
    if(n == 0) return MT(rows, cols);
    Index ur = 0; for(auto& r : p) if(!r.empty()) ++ur;
    LAFEM::DenseVector<IT, IT> ci(n), rp(ur + 1), rn(ur); LAFEM::DenseVector<DT, IT> va(n);
    Index k = 0, u = 0;
    for(Index i = 0; i < rows; ++i)
    {
      if(p[i].empty()) continue;
      rp(u, IT(k)); rn(u, IT(i)); ++u;
      for(Index j : p[i]) { DT v = H<DT>::var(name + str(k), 1.25 + 0.3125 * double(k) * ((k % 3 == 1) ? -1.0 : 1.0)); ci(k, IT(j)); va(k, v); if(dense) (*dense)[i][j] += v; ++k; }
    }
    rp(ur, IT(k));
    return MT(rows, cols, ci, va, rp, rn);
  }
  // ---- Banded: offsets strictly increasing in [0, rows+cols-2]; diagonal with offset o holds (i, i + o - (rows-1)); val[b*rows + i]
  template<typename DT, typename IT, typename MT>
  MT make_banded(Index rows, Index cols, const std::vector<Index>& offs, const std::string& name, Dense<DT>* dense)
  {
    if(dense) *dense = dense_zero<DT>(rows, cols);
    Index nb = Index(offs.size());
    LAFEM::DenseVector<IT, IT> of(nb); LAFEM::DenseVector<DT, IT> va(nb * rows);
    for(Index b = 0; b < nb; ++b)
    {
      of(b, IT(offs[b]));
      for(Index i = 0; i < rows; ++i)
      {
        Index q = b * rows + i;
        long j = long(i) + long(offs[b]) - long(rows - 1);
        // entries of the virtual band outside the matrix are padding: filled with a variable too, they must not influence anything
        DT v = H<DT>::var(name + str(q), 1.25 + 0.3125 * double(q) * ((q % 3 == 1) ? -1.0 : 1.0)); va(q, v);
        if(dense && j >= 0 && j < long(cols)) (*dense)[i][Index(j)] += v;
      }
    }
    return MT(rows, cols, va, of);
  }

  // run f under a SIGSEGV/SIGFPE guard: 0 = returned, 1 = FEAT abort / exception, 2 = memory fault (native crash of the real code)
  inline sigjmp_buf& segv_buf() { static sigjmp_buf b; return b; }
  inline void segv_handler(int) { siglongjmp(segv_buf(), 1); }
  template<typename F> int guarded(F f)
  {
    struct sigaction sa, old1, old2; std::memset(&sa, 0, sizeof sa); sa.sa_handler = segv_handler; sa.sa_flags = SA_NODEFER; sigemptyset(&sa.sa_mask);
    sigaction(SIGSEGV, &sa, &old1); sigaction(SIGBUS, &sa, &old2);
    int rc = 0;
    if(sigsetjmp(segv_buf(), 1) == 0) { try { f(); } catch(const FeatAbort&) { rc = 1; } catch(const std::exception&) { rc = 1; } }
    else rc = 2;
    sigaction(SIGSEGV, &old1, nullptr); sigaction(SIGBUS, &old2, nullptr);
    return rc;
  }
  // probe f in a forked child (heap corruption / glibc aborts cannot be survived in-process): 0 = returned, 1 = FEAT abort, 2 = killed by a signal
  template<typename F> int survives(F f)
  {
    fflush(stdout); fflush(stderr);
    pid_t pid = fork();
    if(pid == 0) { int rc = 0; try { f(); } catch(const FeatAbort&) { rc = 1; } catch(const std::exception&) { rc = 1; } _exit(rc); }
    int st = 0; waitpid(pid, &st, 0);
    if(WIFEXITED(st)) return WEXITSTATUS(st) == 0 ? 0 : 1;
    return 2;
  }
  // run f, report whether the FEAT abort stub was reached
  template<typename F> bool aborted(F f) { try { f(); } catch(const FeatAbort&) { return true; } catch(const std::exception&) { return true; } return false; }

  // Does f read uninitialised memory?  Symbolic build: an uninitialised SymReal has no validity tag and its use is fatal, so f is probed in
  // a forked child (needs MALLOC_PERTURB_, which ./check sets).  Double build (replay): malloc fills every block with 0xFF bytes (NaN as
  // double, see below), f itself returns whether all of its results are finite.
  template<typename DT, typename F> bool uninit_free(F f)
  {
    if constexpr(std::is_same<DT, double>::value) return f();
    else return survives([&] { (void)f(); }) == 0;
  }
}

#ifdef VH_REPLAY
// replay builds: every malloc'ed block starts as 0xFF bytes, i.e. uninitialised doubles are NaN and propagate visibly
#include <cstring>
extern "C" void* __libc_malloc(size_t);
extern "C" void* malloc(size_t n) { void* p = __libc_malloc(n); if(p != nullptr) std::memset(p, 0xFF, n); return p; }
#endif
