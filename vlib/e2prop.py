"""Run one E2 harness for a property check: build from current tree, execute symbolically, decide, replay, record."""
import os, json, random, time, re
from . import common as C
from . import e2


def run_e2(chk, src, name, timeout=60, harness_args=(), support=C.FEAT_MIN_SRCS, sig_prefix=None, max_group=64, extra_flags=(), case_filter=None, group_timeout=5, split=16, flips=True, max_flips_per_case=6, max_flips=4000):
    bdir = C.mkdir(os.path.join(C.BUILD, chk.pid, name))
    work = C.mkdir(os.path.join(bdir, 'smt'))
    for f in os.listdir(work):
        os.remove(os.path.join(work, f))
    t0 = time.time()
    binary, cw = e2.build(src, name, bdir, support=support, extra=extra_flags)
    dump = os.path.join(bdir, name + '.dump')
    rw = e2.run_harness(binary, dump, args=harness_args)
    d = e2.Dump(dump)
    cases = [c for c in d.cases if (case_filter is None or case_filter(c))]
    # split cases with many obligations into chunks so that the solver work of one configuration is spread over all cores
    if split:
        nc = []
        for c in cases:
            eqs = c['eqs'] + [{'_deq': q} for q in c.get('deqs', [])]
            if len(eqs) <= split:
                nc.append(c); continue
            for k in range(0, len(eqs), split):
                part = eqs[k:k + split]
                sub = dict(c); sub['eqs'] = [e for e in part if '_deq' not in e]; sub['deqs'] = [dict(e['_deq']) for e in part if '_deq' in e]
                if k > 0:
                    sub['facts'] = []; sub['wit'] = []
                nc.append(sub)
        cases = nc
    dumps = [d] * len(cases)
    # concolic branch exploration: every recorded "variable != constant" path condition is flipped by re-running the
    # harness for that case with the variable's shadow set to the constant (the other side of an exact-equality branch)
    if flips:
        todo = []
        for c in cases:
            seen = set()
            for (op, a, b) in c['pcs']:
                if op != 'ne':
                    continue
                na, nb = d.nodes[a], d.nodes[b]
                if na[0] == 'V' and nb[0] == 'C':
                    key = (na[1], float(nb[1]))
                elif nb[0] == 'V' and na[0] == 'C':
                    key = (nb[1], float(na[1]))
                else:
                    continue
                if key not in seen and len(seen) < max_flips_per_case:
                    seen.add(key); todo.append((c['name'], key))
        todo = todo[:max_flips]
        fdir = C.mkdir(os.path.join(bdir, 'flips'))
        for f in os.listdir(fdir):
            os.remove(os.path.join(fdir, f))

        def flip(ix):
            cname, (var, val) = todo[ix]
            ov = os.path.join(fdir, 'ov%d.txt' % ix); dp = os.path.join(fdir, 'flip%d.dump' % ix)
            with open(ov, 'w') as f:
                f.write('%s %.17g\n' % (var, val))
            env = dict(os.environ, VH_ONLY_CASE=cname, MALLOC_PERTURB_='171')
            rc, so, se, w = C.run([binary, dp, ov] + list(harness_args), timeout=600, env=env)
            if rc != 0:
                return ('ERR', 'flip run failed for %s: %s' % (cname, (se or so)[-300:]))
            fd = e2.Dump(dp)
            out = []
            for fc in fd.cases:
                if fc['name'] == cname:
                    fc['replay_case'] = cname
                    fc['name'] = '%s @flip(%s=%g)' % (cname, var, val)
                    out.append((fd, fc))
            os.remove(dp)
            return out
        for r in C.pmap(flip, range(len(todo))):
            if r and r[0] == 'ERR':
                chk.error(r[1]); continue
            for fd, fc in (r or []):
                cases.append(fc); dumps.append(fd)
        chk.extra['e2_branch_flips'] = chk.extra.get('e2_branch_flips', 0) + len(todo)
    rnd = random.Random(chk.seed)
    seeds = [rnd.randint(0, 1 << 30) for _ in cases]

    def one(ix):
        c = cases[ix]
        try:
            return e2.decide_case(dumps[ix], c, work, timeout=timeout, rnd=random.Random(seeds[ix]), max_group=max_group, group_timeout=group_timeout)
        except Exception as ex:  # noqa
            import traceback
            return ('ERR', traceback.format_exc())
    results = C.pmap(one, range(len(cases)))
    cex = []  # (case, result)
    ncases = 0
    for c, r in zip(cases, results):
        if r[0] == 'ERR':
            chk.error('%s/%s: %s' % (name, c['name'], r[1][-800:])); continue
        res, info = r
        ncases += 1
        cname = '%s/%s' % (name, c['name'])
        if not info['pcs_ok']:
            chk.error('%s: recorded path conditions do not hold at the exact shadow point (vacuity guard)' % cname); continue
        if not info['witness_ok']:
            chk.error('%s: deliberately wrong identity was not refuted (vacuity guard)' % cname)
        if info.get('shadow_mismatch'):
            chk.error('%s: term printer / shadow mismatch %s' % (cname, info['shadow_mismatch'][:2]))
        for (lab, st) in c['facts']:
            if st == 'ok':
                chk.ok(cname + '#' + lab, queries=0)
            else:
                cex.append((c, {'label': lab, 'status': 'fact', 'detail': st, 'assign': {}}))
        ntriv = 0
        dvar = {e['label']: e['deriv'] for e in c['eqs'] if e.get('deriv')}
        for r1 in res:
            if r1['label'] in dvar:
                r1['deriv'] = dvar[r1['label']]
            oname = cname + '#' + r1['label']
            if r1['status'] == 'unsat':
                chk.ok(oname, queries=r1['queries'], solver_s=r1['solver_s'],
                       sample={'obligation': oname, 'engine': 'E2', 'verdict': 'unsat', 'path_conditions': info['pcs'], 'dag_cone_nodes': info['cone'], 'config': c['meta']})
            elif r1['status'] == 'trivial':
                ntriv += 1
                chk.obligations += 1; chk.discharged += 1
            elif r1['status'] == 'cex':
                cex.append((c, r1))
            else:
                chk.inconcl(oname, r1.get('why', ''), queries=r1['queries'], solver_s=r1['solver_s'])
        if ntriv and len(chk.samples) < 4 and not any(x.get('case') == cname for x in chk.samples):
            chk.samples.append({'case': cname, 'engine': 'E2', 'obligations': len(res), 'identical_dag_terms': ntriv, 'facts': len(c['facts']), 'path_conditions': info['pcs'], 'config': c['meta']})
        chk.extra['e2_trivially_identical_terms'] = chk.extra.get('e2_trivially_identical_terms', 0) + ntriv
        chk.extra['e2_path_conditions'] = chk.extra.get('e2_path_conditions', 0) + info['pcs']
        chk.extra['e2_divisors_assumed_nonzero'] = chk.extra.get('e2_divisors_assumed_nonzero', 0) + info['divisors_assumed_nonzero']
    chk.extra['e2_cases'] = chk.extra.get('e2_cases', 0) + ncases
    chk.extra.setdefault('e2_harnesses', []).append({'harness': os.path.basename(src), 'cases': ncases, 'compile_s': round(cw, 1), 'symbolic_run_s': round(rw, 2), 'dag': getattr(d, 'stats', '')})
    # replay counterexamples on the double instantiation of the same harness (real code, real arithmetic types)
    if cex:
        try:
            rbin, _ = e2.build(src, name, bdir, replay=True, support=support, extra=extra_flags)
        except C.MachineryError as ex:
            chk.error('replay build failed: %s' % str(ex)[-500:]); rbin = None
        seen = set()
        for c, r1 in cex:
            sig = '%s/%s#%s' % (name, c['name'], r1['label'])
            if sig in seen:
                continue
            seen.add(sig)
            if rbin is None:
                continue
            af = os.path.join(work, 'assign_%d.txt' % len(seen))
            with open(af, 'w') as f:
                for k, v in r1.get('assign', {}).items():
                    f.write('%s %.17g\n' % (k, v))
            if r1.get('deriv'):
                # derivative obligation: central finite difference of f on the double build at var -h, var, var +h
                var = r1['deriv']; asg = dict(r1.get('assign', {})); v0 = asg.get(var, 0.0); h = 1e-5 * max(1.0, abs(v0)); vals = {}
                for tag, vv in (('m', v0 - h), ('c', v0), ('p', v0 + h)):
                    asg[var] = vv
                    with open(af, 'w') as f:
                        for k, v in asg.items():
                            f.write('%s %.17g\n' % (k, v))
                    rc, so, se, w = C.run([rbin, '--replay', c.get('replay_case', c['name']), af] + list(harness_args), timeout=600)
                    for l in so.split('\n'):
                        if l.startswith('DEQVAL') and ('label=' + r1['label'] + '\t') in l:
                            mm = re.search(r'f=(\S+)\tg=(\S+)', l); vals[tag] = (float(mm.group(1)), float(mm.group(2)))
                if len(vals) == 3:
                    fd = (vals['p'][0] - vals['m'][0]) / (2 * h); g = vals['c'][1]
                    if abs(fd - g) > 1e-4 * max(1.0, abs(fd), abs(g)):
                        chk.violation(sig if not sig_prefix else sig_prefix(sig), '%s: returned derivative %.10g but central finite difference of the returned value w.r.t. %s is %.10g (double build); %s' % (sig, g, var, fd, r1.get('how', '')),
                                      {'harness': src, 'case': c['name'], 'label': r1['label'], 'assignment': r1.get('assign', {}), 'finite_difference': fd, 'returned': g})
                    else:
                        chk.error('%s: derivative counterexample did not reproduce by finite differences (fd=%g, returned=%g)' % (sig, fd, g))
                else:
                    chk.error('%s: finite-difference replay produced no values' % sig)
                continue
            rc, so, se, w = C.run([rbin, '--replay', c.get('replay_case', c['name']), af] + list(harness_args), timeout=600)
            fails = [l for l in so.split('\n') if l.startswith('REPLAY-FAIL')]
            hit = [l for l in fails if ('label=' + r1['label']) in l or ('fact=' + r1['label']) in l]
            if rc == 1 and (hit or fails):
                desc = '%s: %s (%s); native double replay: %s' % (sig, r1.get('how', r1.get('detail', '')), 'lhs=%s rhs=%s' % (r1.get('lhs'), r1.get('rhs')), (hit or fails)[0])
                chk.violation(sig if not sig_prefix else sig_prefix(sig), desc, {'harness': src, 'case': c['name'], 'label': r1['label'], 'assignment': r1.get('assign', {}), 'replay_cmd': '%s --replay "%s" <assignment file>' % (rbin, c['name'])})
            elif rc in (0, 1):
                chk.error('%s: counterexample did not reproduce on the double build (encoding suspect): %s' % (sig, so[-300:]))
            else:
                # the real code aborted / crashed on the counterexample input: that is a reproduction too
                desc = '%s: native replay terminated abnormally rc=%s %s' % (sig, rc, (se or so)[-300:])
                chk.violation(sig if not sig_prefix else sig_prefix(sig), desc, {'harness': src, 'case': c['name'], 'assignment': r1.get('assign', {})})
    return d


E2_TRUSTED = ['g++-12 compiling the real FEAT templates with the SymReal scalar (same template source, different scalar)',
              'vsym term DAG + SMT-LIB printer (every root cross-checked against the shadow double each run)',
              'z3 5.1.0 (z3-new), nonlinear real arithmetic', 'hand-written oracles in the harness files']
E2_ASSUME = ['real arithmetic on values: the claim is about the rational functions the code computes, rounding is outside',
             'divisors are non-zero wherever the executed code divides (asserted as hypotheses of each query)',
             'path conditions recorded by concolic execution restrict each obligation (counted in evidence)']
E2_RULE = 'one obligation = one identity (or inequality) between a result of the real code and the oracle term for one discrete configuration, or one structural fact (dimensions, index arrays, pointer identity, completion) evaluated on the concrete discrete part of that configuration; distinct_nontrivial counts the structural facts plus the identities whose two DAG terms differ syntactically and for which z3 answered unsat over all real values of the free variables (identities whose hash-consed DAG terms coincide are discharged syntactically and are not counted; evaluations = solver queries)'


def e2_harness_path(name):
    return os.path.join(C.VERIF, 'harness', name)
