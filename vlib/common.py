"""Shared driver code: paths, subprocess helpers, evidence writer, known findings, parallel map."""
import os, sys, json, time, subprocess, hashlib, shutil, re, concurrent.futures, resource

VERIF = os.path.dirname(os.path.dirname(os.path.abspath(__file__)))
REPO = os.environ.get('VERIF_REPO', '/repo')
BUILD = os.path.join(VERIF, 'build')
EVID = os.path.join(VERIF, 'evidence')
REPLAYS = os.path.join(VERIF, 'replays')
NCPU = int(os.environ.get('VERIF_JOBS', str(os.cpu_count() or 4)))
GUARD = 'FEAT3_VERIF'


def seed():
    try:
        return int(os.environ.get('VERIF_SEED', '0'))
    except ValueError:
        return 0


def tier(default='quick'):
    t = os.environ.get('VERIF_TIER', default)
    return t if t in ('quick', 'thorough') else default


def mkdir(p):
    os.makedirs(p, exist_ok=True)
    return p


def run(cmd, timeout=None, cwd=None, env=None, mem_gb=None, stdin=None):
    """run a command, return (rc, stdout, stderr, wall); rc = -9 on timeout"""
    t = time.time()
    if mem_gb:
        # no preexec_fn (unsafe with threads): apply the address-space limit through the shell
        cmd = ['sh', '-c', 'ulimit -v %d; exec "$@"' % int(mem_gb * (1 << 20)), 'sh'] + list(cmd)
    try:
        p = subprocess.run(cmd, stdout=subprocess.PIPE, stderr=subprocess.PIPE, timeout=timeout, cwd=cwd, env=env, input=stdin)
        return p.returncode, p.stdout.decode('utf-8', 'replace'), p.stderr.decode('utf-8', 'replace'), time.time() - t
    except subprocess.TimeoutExpired as e:
        out = (e.stdout or b'').decode('utf-8', 'replace')
        err = (e.stderr or b'').decode('utf-8', 'replace')
        return -9, out, err, time.time() - t


def pmap(fn, items, jobs=None):
    items = list(items)
    if not items:
        return []
    with concurrent.futures.ThreadPoolExecutor(max_workers=jobs or NCPU) as ex:
        return list(ex.map(fn, items))


class MachineryError(Exception):
    pass


def feat_config_dir():
    """directory holding feat_config.hpp for harness builds: the repo's own build dir when present,
    otherwise a generated minimal one (same defines as the tested configuration: no MPI/CUDA/MKL, release asserts)"""
    d = os.path.join(REPO, '_build')
    if os.path.exists(os.path.join(d, 'feat_config.hpp')):
        return d
    g = mkdir(os.path.join(BUILD, 'cfg'))
    p = os.path.join(g, 'feat_config.hpp')
    if not os.path.exists(p):
        with open(p, 'w') as f:
            f.write('#pragma once\n#ifndef FEAT_CONFIG_HPP\n#define FEAT_CONFIG_HPP 1\n#define FEAT_SOURCE_DIR "%s"\n#define FEAT_BINARY_DIR "%s"\n'
                    '#define FEAT_BUILD_DIR "%s"\n#define BUILD_ID ""\n#define FEAT_BUILD_ID ""\n#define FEAT_CPU_TYPE ""\n#define FEAT_COMPILER_ID ""\n'
                    '#define CMAKE_CXX_COMPILER_ID "GNU"\n#define FEAT_GIT_SHA1 ""\n#define FEAT_HOSTNAME "vm"\n#endif\n' % (REPO, g, g))
    return g


CXXFLAGS_COMMON = ['-std=c++17', '-DNDEBUG', '-D' + GUARD, '-w']


def incflags():
    return ['-I' + REPO, '-I' + feat_config_dir(), '-I' + os.path.join(VERIF, 'e2'), '-I' + os.path.join(VERIF, 'wrappers')]


def compile_cxx(src, out, extra=(), opt='-O0', objs=(), timeout=1800, compiler='g++'):
    cmd = [compiler] + CXXFLAGS_COMMON + [opt] + incflags() + list(extra) + [src] + list(objs) + ['-o', out, '-lpthread']
    rc, so, se, w = run(cmd, timeout=timeout)
    if rc != 0:
        raise MachineryError('compile failed: %s\n%s' % (' '.join(cmd), se[-4000:]))
    return w


def compile_obj(src, out, extra=(), opt='-O0', timeout=1800, compiler='g++'):
    cmd = [compiler] + CXXFLAGS_COMMON + [opt] + incflags() + list(extra) + ['-c', src, '-o', out]
    rc, so, se, w = run(cmd, timeout=timeout)
    if rc != 0:
        raise MachineryError('compile failed: %s\n%s' % (' '.join(cmd), se[-4000:]))
    return w


def feat_support_objs(names, bdir, opt='-O0'):
    """compile the listed /repo .cpp files (relative to /repo) from the CURRENT tree into bdir; returns object paths"""
    mkdir(bdir)

    def one(rel):
        o = os.path.join(bdir, rel.replace('/', '_').replace('.cpp', '.o'))
        compile_obj(rel if rel.startswith('/') else os.path.join(REPO, rel), o, opt=opt)
        return o
    return pmap(one, names)


FEAT_MIN_SRCS = ['kernel/util/memory_pool.cpp', 'kernel/util/statistics.cpp', 'kernel/util/kahan_summation.cpp',
                 'kernel/backend.cpp', 'kernel/util/dist.cpp',
                 'kernel/adjacency/graph.cpp', 'kernel/adjacency/permutation.cpp', 'kernel/adjacency/coloring.cpp',
                 'kernel/adjacency/cuthill_mckee.cpp', os.path.join(VERIF, 'e2', 'feat_stubs.cpp')]


# ------------------------------------------------------------------------------------------ known findings
def load_known():
    """known_findings.txt lines:  known: property=<id> key=<signature> <text>   |   fixed: property=<id> <commit> <text>"""
    known = []
    p = os.path.join(VERIF, 'known_findings.txt')
    if os.path.exists(p):
        for ln in open(p):
            ln = ln.strip()
            m = re.match(r'known:\s+property=(\S+)\s+key=(\S+)\s*(.*)$', ln)
            if m:
                known.append((m.group(1), m.group(2), m.group(3)))
    return known


class Check:
    """collects obligations of one property check and writes the evidence file"""

    def __init__(self, pid, level='other'):
        self.pid = pid
        self.level = level
        self.tier = tier()
        self.seed = seed()
        self.t0 = time.time()
        self.obligations = 0
        self.discharged = 0
        self.inconclusive = []
        self.evaluations = 0  # solver queries issued
        self.distinct = set()
        self.samples = []
        self.violations = []  # (signature, description, replay_path)
        self.known_hits = []
        self.assumptions = []
        self.extra = {}
        self.functions = []
        self.solver_s = 0.0
        self.bounds = []
        self.errors = []
        self.known = [k for k in load_known() if k[0] == pid]
        mkdir(EVID)
        mkdir(REPLAYS)

    def assume(self, *txt):
        for t in txt:
            if t not in self.assumptions:
                self.assumptions.append(t)

    def ok(self, name, queries=1, solver_s=0.0, sample=None):
        self.obligations += 1
        self.discharged += 1
        self.evaluations += queries
        self.solver_s += solver_s
        self.distinct.add(name)
        if sample is not None and len(self.samples) < 12:
            self.samples.append(sample)

    def inconcl(self, name, why, queries=1, solver_s=0.0):
        self.obligations += 1
        self.evaluations += queries
        self.solver_s += solver_s
        self.inconclusive.append({'obligation': name, 'why': why})

    def violation(self, signature, desc, replay_payload, queries=1, solver_s=0.0):
        """a REPLAYED violation.  signature identifies the specific failing input/call site for known-findings matching"""
        self.obligations += 1
        self.evaluations += queries
        self.solver_s += solver_s
        for (_, key, text) in self.known:
            # key is a regular expression (no blanks; use \s) that must match the whole signature of the failing input / call site
            if key == signature or re.fullmatch(key, signature):
                if key not in [k for k, _ in self.known_hits]:
                    self.known_hits.append((key, text or desc))
                self.known_instances = getattr(self, 'known_instances', 0) + 1
                return
        h = hashlib.sha1((self.pid + signature).encode()).hexdigest()[:10]
        path = os.path.join(REPLAYS, '%s_%s.json' % (self.pid, h))
        with open(path, 'w') as f:
            json.dump({'property': self.pid, 'signature': signature, 'description': desc, 'replay': replay_payload}, f, indent=1, default=str)
        self.violations.append((signature, desc, path))

    def error(self, msg):
        self.errors.append(msg)

    def finish(self, explanation, rule, trusted=None):
        wall = time.time() - self.t0
        cov = {
            'evaluations': int(round(max(self.evaluations, 0))),
            'distinct_nontrivial': len(self.distinct),
            'rule': rule,
            'samples': self.samples[:12] if self.samples else [],
            'obligations': self.obligations,
            'discharged': self.discharged,
            'inconclusive': self.inconclusive[:50],
            'inconclusive_count': len(self.inconclusive),
            'explanation': explanation,
            'functions_encoded': self.functions,
            'bounds': self.bounds,
            'solver_seconds': round(self.solver_s, 3),
            'known_findings_hit': [k[0] for k in self.known_hits],
            'known_finding_instances': getattr(self, 'known_instances', 0),
            'machinery_errors': self.errors[:20],
            'trusted_base': trusted or [],
            'exhaustive': False,
        }
        cov.update(self.extra)
        if not cov['samples']:
            cov['samples'] = [{'note': 'no solver-discharged obligation in this run', 'obligations': self.obligations}]
        ev = {'property_id': self.pid, 'tier': self.tier, 'seed': self.seed, 'level': self.level, 'coverage': cov,
              'assumptions': self.assumptions, 'wall_s': round(wall, 3), 'violations': len(self.violations)}
        with open(os.path.join(EVID, self.pid + '.json'), 'w') as f:
            json.dump(ev, f, indent=1, default=str)
        for sig, text in self.known_hits:
            print('KNOWN-FINDING: property=%s %s [%s]' % (self.pid, text, sig))
        for sig, desc, path in self.violations[:8]:
            print('VIOLATION property=%s replay=%s' % (self.pid, path))
            print('  ' + desc[:600])
        if len(self.violations) > 8:
            print('... %d more violations (all replay files are under %s)' % (len(self.violations) - 8, REPLAYS))
        print('%s tier=%s obligations=%d discharged=%d inconclusive=%d violations=%d known=%d queries=%d solver=%.1fs wall=%.1fs' % (
            self.pid, self.tier, self.obligations, self.discharged, len(self.inconclusive), len(self.violations), len(self.known_hits), self.evaluations, self.solver_s, wall))
        if self.violations:
            return 1
        if self.errors:
            for e in self.errors[:10]:
                print('MACHINERY-ERROR: ' + e)
            return 2
        return 0
