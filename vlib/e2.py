"""E2 driver: run a SymReal harness built from /repo's current headers, turn its dump into SMT-LIB queries for z3-new,
fall back to exact-rational evaluation for counterexamples, replay candidates on the double instantiation."""
import os, re, sys, json, time, random, math, hashlib, threading
_DLOCK = threading.RLock()
from fractions import Fraction
from . import common as C

Z3 = os.environ.get('VERIF_Z3', 'z3-new')


# ---------------------------------------------------------------------------------------------- build / run
def build(src, name, bdir, replay=False, support=C.FEAT_MIN_SRCS, opt='-O0', extra=()):
    C.mkdir(bdir)
    objs = C.feat_support_objs(support, os.path.join(bdir, 'featobj')) if support else []
    out = os.path.join(bdir, name + ('_replay' if replay else ''))
    ex = list(extra) + (['-DVH_REPLAY'] if replay else [])
    w = C.compile_cxx(src, out, extra=ex, opt=opt, objs=objs)
    return out, w


def run_harness(binary, dump, overrides=None, timeout=1200, args=()):
    cmd = [binary, dump] + ([overrides] if overrides else []) + list(args)
    rc, so, se, w = C.run(cmd, timeout=timeout)
    if rc != 0:
        raise C.MachineryError('harness %s failed rc=%s\n%s\n%s' % (binary, rc, so[-2000:], se[-3000:]))
    return w


# ---------------------------------------------------------------------------------------------- dump parsing
class Dump:
    def __init__(self, path):
        self.nodes = {}   # id -> (op, a, b | name | Fraction)
        self.cases = []
        cur = None
        for ln in open(path):
            ln = ln.rstrip('\n')
            if ln.startswith('N '):
                p = ln.split(' ')
                i = int(p[1]); op = p[2]
                if op == 'C':
                    self.nodes[i] = ('C', Fraction(float.fromhex(p[3])))
                elif op == 'V':
                    self.nodes[i] = ('V', p[3], float.fromhex(p[4]))
                else:
                    self.nodes[i] = (op, int(p[3]), int(p[4]))
            elif ln.startswith('CASE '):
                nm, meta = ln[5:].split('\t', 1)
                try:
                    meta = json.loads(meta)
                except Exception:
                    meta = {'raw': meta}
                cur = {'name': nm, 'meta': meta, 'pcs': [], 'eqs': [], 'wit': [], 'notes': [], 'facts': []}
            elif ln.startswith('PC '):
                p = ln.split(' '); cur['pcs'].append((p[1], int(p[2]), int(p[3])))
            elif ln.startswith('EQ ') or ln.startswith('NEQW ') or ln.startswith('LE '):
                p = ln.split(' ', 5)
                rec = {'lhs': int(p[1]), 'rhs': int(p[2]), 'shl': float.fromhex(p[3]), 'shr': float.fromhex(p[4]), 'label': p[5] if len(p) > 5 else '', 'rel': 'le' if p[0] == 'LE' else 'eq'}
                (cur['wit'] if p[0] == 'NEQW' else cur['eqs']).append(rec)
            elif ln.startswith('DEQ '):
                p = ln.split(' ', 6)
                cur.setdefault('deqs', []).append({'f': int(p[1]), 'rhs': int(p[2]), 'shf': float.fromhex(p[3]), 'shr': float.fromhex(p[4]), 'var': p[5], 'label': p[6] if len(p) > 6 else ''})
            elif ln.startswith('NOTE '):
                cur['notes'].append(ln[5:])
            elif ln.startswith('FACT '):
                l, r = ln[5:].split('\t', 1); cur['facts'].append((l, r))
            elif ln == 'ENDCASE':
                self.cases.append(cur); cur = None
            elif ln.startswith('STATS'):
                self.stats = ln

    # ---- symbolic differentiation of the term DAG (new nodes get fresh ids)
    def _new(self, tup):
        key = tup
        with _DLOCK:
            if not hasattr(self, '_hc'):
                self._hc = {}; self._next = max(self.nodes) + 1 if self.nodes else 0
            if key in self._hc:
                return self._hc[key]
            i = self._next; self._next += 1; self.nodes[i] = tup; self._hc[key] = i
            return i

    def _const(self, fr):
        return self._new(('C', Fraction(fr)))

    def _is0(self, i):
        return self.nodes[i][0] == 'C' and self.nodes[i][1] == 0

    def _is1(self, i):
        return self.nodes[i][0] == 'C' and self.nodes[i][1] == 1

    def _mk(self, op, a, b=0):
        if op == '+':
            if self._is0(a):
                return b
            if self._is0(b):
                return a
        if op == '-':
            if self._is0(b):
                return a
            if self._is0(a):
                return self._mk('~', b)
        if op == '*':
            if self._is0(a) or self._is0(b):
                return self._const(0)
            if self._is1(a):
                return b
            if self._is1(b):
                return a
        if op == '/':
            if self._is0(a):
                return self._const(0)
            if self._is1(b):
                return a
        if op == '~':
            if self._is0(a):
                return a
            return self._new(('~', a, 0))
        return self._new((op, a, b))

    def deriv(self, root, var):
        memo = {}
        for i in self.cone([root]):
            n = self.nodes[i]; op = n[0]
            if op == 'C':
                memo[i] = self._const(0)
            elif op == 'V':
                memo[i] = self._const(1 if n[1] == var else 0)
            elif op in '+-':
                memo[i] = self._mk(op, memo[n[1]], memo[n[2]])
            elif op == '*':
                memo[i] = self._mk('+', self._mk('*', memo[n[1]], n[2]), self._mk('*', n[1], memo[n[2]]))
            elif op == '/':
                if self._is0(memo[n[2]]):
                    memo[i] = self._mk('/', memo[n[1]], n[2])
                else:
                    memo[i] = self._mk('/', self._mk('-', self._mk('*', memo[n[1]], n[2]), self._mk('*', n[1], memo[n[2]])), self._mk('*', n[2], n[2]))
            elif op == '~':
                memo[i] = self._mk('~', memo[n[1]])
            else:
                raise ValueError('cannot differentiate through sqrt')
        return memo[root]

    def cone(self, roots):
        need = set(); stack = list(roots)
        while stack:
            i = stack.pop()
            if i in need:
                continue
            need.add(i); n = self.nodes[i]
            if n[0] in '+-*/':
                stack.append(n[1]); stack.append(n[2])
            elif n[0] in '~Q':
                stack.append(n[1])
        return sorted(need)

    def vars_of(self, cone):
        return [(i, self.nodes[i][1], self.nodes[i][2]) for i in cone if self.nodes[i][0] == 'V']

    # exact evaluation; sqrt nodes make the result inexact (float) unless a perfect square
    def evaluate(self, cone, assign):
        val = {}
        for i in cone:
            n = self.nodes[i]; op = n[0]
            if op == 'C':
                val[i] = n[1]
            elif op == 'V':
                val[i] = assign[n[1]]
            elif op == '+':
                val[i] = val[n[1]] + val[n[2]]
            elif op == '-':
                val[i] = val[n[1]] - val[n[2]]
            elif op == '*':
                val[i] = val[n[1]] * val[n[2]]
            elif op == '/':
                if val[n[2]] == 0:
                    raise ZeroDivisionError()
                val[i] = val[n[1]] / val[n[2]]
            elif op == '~':
                val[i] = -val[n[1]]
            elif op == 'Q':
                v = val[n[1]]
                if v <= 0:
                    val[i] = Fraction(0)
                else:
                    r = _exact_sqrt(v)
                    val[i] = r if r is not None else math.sqrt(float(v))
        return val


def _exact_sqrt(fr):
    if isinstance(fr, float):
        return None
    a, b = fr.numerator, fr.denominator
    ra, rb = math.isqrt(a), math.isqrt(b)
    if ra * ra == a and rb * rb == b:
        return Fraction(ra, rb)
    return None


def frac_smt(fr):
    if fr.denominator == 1:
        s = '%d.0' % abs(fr.numerator)
    else:
        s = '(/ %d.0 %d.0)' % (abs(fr.numerator), fr.denominator)
    return '(- %s)' % s if fr < 0 else s


def vname(nm):
    return '|v_%s|' % nm


def smt_text(d, case, eqs, extra_assert=None):
    roots = []
    for (op, a, b) in case['pcs']:
        roots += [a, b]
    for e in eqs:
        roots += [e['lhs'], e['rhs']]
    cone = d.cone(roots)
    out = ['(set-option :produce-models true)']
    divs = []
    for i in cone:
        n = d.nodes[i]; op = n[0]
        if op == 'V':
            out.append('(declare-const %s Real)' % vname(n[1]))
            out.append('(define-fun n%d () Real %s)' % (i, vname(n[1])))
        elif op == 'C':
            out.append('(define-fun n%d () Real %s)' % (i, frac_smt(n[1])))
        elif op in '+-*/':
            out.append('(define-fun n%d () Real (%s n%d n%d))' % (i, op, n[1], n[2]))
            if op == '/' and d.nodes[n[2]][0] != 'C':
                divs.append(n[2])
        elif op == '~':
            out.append('(define-fun n%d () Real (- n%d))' % (i, n[1]))
        elif op == 'Q':
            out.append('(declare-const s%d Real)' % i)
            out.append('(assert (>= s%d 0.0))' % i)
            out.append('(assert (=> (> n%d 0.0) (= (* s%d s%d) n%d)))' % (n[1], i, i, n[1]))
            out.append('(define-fun n%d () Real (ite (<= n%d 0.0) 0.0 s%d))' % (i, n[1], i))
    for dn in sorted(set(divs)):
        out.append('(assert (not (= n%d 0.0)))' % dn)
    cm = {'lt': '<', 'le': '<=', 'eq': '='}
    for (op, a, b) in case['pcs']:
        if op == 'ne':
            out.append('(assert (not (= n%d n%d)))' % (a, b))
        else:
            out.append('(assert (%s n%d n%d))' % (cm[op], a, b))
    if extra_assert:
        out.append(extra_assert)
    if eqs:
        neg = ' '.join(('(> n%d n%d)' if e.get('rel') == 'le' else '(not (= n%d n%d))') % (e['lhs'], e['rhs']) for e in eqs)
        out.append('(assert (or %s))' % neg if len(eqs) > 1 else '(assert %s)' % neg)
    out.append('(check-sat)')
    vs = d.vars_of(cone)
    if vs:
        out.append('(get-value (%s))' % ' '.join(vname(v[1]) for v in vs))
    return '\n'.join(out) + '\n', cone, len(set(divs))


def parse_model(txt):
    """parse (get-value) output with rational values; returns dict name->Fraction or None if algebraic numbers appear"""
    vals = {}
    for m in re.finditer(r'\(\|v_([^|]+)\|\s+((?:\((?:[^()]|\([^()]*\))*\))|[-\d.]+)\)', txt):
        nm, v = m.group(1), m.group(2)
        fr = _parse_num(v)
        if fr is None:
            return None
        vals[nm] = fr
    return vals


def _parse_num(v):
    v = v.strip()
    m = re.fullmatch(r'(-?\d+)(?:\.(\d+))?', v)
    if m:
        return Fraction(v)
    m = re.fullmatch(r'\(-\s+(.*)\)', v)
    if m:
        r = _parse_num(m.group(1)); return -r if r is not None else None
    m = re.fullmatch(r'\(/\s+(\S+)\s+(\S+)\)', v)
    if m:
        a, b = _parse_num(m.group(1)), _parse_num(m.group(2))
        return a / b if a is not None and b else None
    return None


def z3_query(text, path, timeout):
    with open(path, 'w') as f:
        f.write(text)
    rc, so, se, w = C.run([Z3, '-T:%d' % int(timeout), path], timeout=timeout + 30, mem_gb=12)
    first = so.strip().split('\n')[0].strip() if so.strip() else ''
    res = first if first in ('sat', 'unsat') and rc != -9 else 'unknown'
    errs = [l for l in so.split('\n') if '(error' in l and 'model is not available' not in l]
    if errs:
        res = 'unknown'  # any error line other than the expected get-value-after-unsat makes the answer inconclusive
    return res, so, w


def pcs_hold(d, case, val):
    for (op, a, b) in case['pcs']:
        x, y = val[a], val[b]
        ok = {'lt': x < y, 'le': x <= y, 'eq': x == y, 'ne': x != y}[op]
        if not ok:
            return False
    return True


def differs(a, b, rel='eq'):
    if isinstance(a, float) or isinstance(b, float):
        sc = max(1.0, abs(float(a)), abs(float(b)))
        if rel == 'le':
            return float(a) - float(b) > 1e-9 * sc
        return abs(float(a) - float(b)) > 1e-9 * sc
    if rel == 'le':
        return a > b
    return a != b


_UID = [0]
_UID_LOCK = threading.Lock()


def decide_case(d, case, workdir, timeout=60, rnd=None, split_timeout=None, max_group=64, group_timeout=None):
    """returns list of results per EQ: dict(label, status in {unsat, trivial, cex, inconclusive}, assign (for cex), queries, solver_s)
    plus case-level info"""
    rnd = rnd or random.Random(0)
    res = []
    for dq in case.get('deqs', []):
        if dq.get('done'):
            continue
        dq['done'] = True
        try:
            dn = d.deriv(dq['f'], dq['var'])
            case['eqs'].append({'lhs': dn, 'rhs': dq['rhs'], 'shl': None, 'shr': dq['shr'], 'label': dq['label'], 'rel': 'eq', 'deriv': dq['var']})
        except ValueError as ex:
            case['eqs'].append({'lhs': dq['rhs'], 'rhs': dq['rhs'], 'shl': dq['shr'], 'shr': dq['shr'], 'label': dq['label'] + ' [NOT DIFFERENTIABLE: ' + str(ex) + ']', 'rel': 'eq'})
    info = {'pcs': len(case['pcs']), 'pcs_ok': True, 'witness_ok': True, 'queries': 0, 'solver_s': 0.0, 'cone': 0, 'divisors_assumed_nonzero': 0}
    allroots = []
    for (op, a, b) in case['pcs']:
        allroots += [a, b]
    for e in case['eqs'] + case['wit']:
        allroots += [e['lhs'], e['rhs']]
    cone = d.cone(allroots)
    info['cone'] = len(cone)
    shadow = {v[1]: Fraction(v[2]) for v in d.vars_of(cone)}
    try:
        val = d.evaluate(cone, shadow)
    except ZeroDivisionError:
        info['pcs_ok'] = False
        val = None
    if val is not None:
        info['pcs_ok'] = pcs_hold(d, case, val)
        # printer cross-check: exact/shadow agreement of every root
        for e in case['eqs'] + case['wit']:
            for side, sh in ((e['lhs'], e['shl']), (e['rhs'], e['shr'])):
                if sh is None:
                    continue
                ex = float(val[side])
                if abs(ex - sh) > 1e-6 * max(1.0, abs(ex), abs(sh)):
                    info.setdefault('shadow_mismatch', []).append((e['label'], ex, sh))
        for w in case['wit']:
            if not differs(val[w['lhs']], val[w['rhs']]):
                info['witness_ok'] = False
    pending = []
    for k, e in enumerate(case['eqs']):
        if e['lhs'] == e['rhs']:  # identical DAG node: holds for eq and le alike
            res.append({'label': e['label'], 'status': 'trivial', 'queries': 0, 'solver_s': 0.0}); continue
        if val is not None and info['pcs_ok'] and differs(val[e['lhs']], val[e['rhs']], e.get('rel', 'eq')):
            res.append({'label': e['label'], 'status': 'cex', 'assign': {k2: float(v) for k2, v in shadow.items()}, 'how': 'exact evaluation at shadow point',
                        'lhs': float(val[e['lhs']]), 'rhs': float(val[e['rhs']]), 'queries': 0, 'solver_s': 0.0}); continue
        pending.append(e)
    # group queries
    groups = [pending[i:i + max_group] for i in range(0, len(pending), max_group)]
    qn = [0]
    with _UID_LOCK:
        _UID[0] += 1; uid = '%d_%d' % (os.getpid(), _UID[0])

    def query(eqs, to):
        qn[0] += 1
        text, cn, nd = smt_text(d, case, eqs)
        info['divisors_assumed_nonzero'] = max(info['divisors_assumed_nonzero'], nd)
        # unique per decide_case call: split sub-cases of one case run concurrently and share the case name
        p = os.path.join(workdir, re.sub(r'[^\w.-]', '_', case['name'])[:60] + '_' + hashlib.sha1(case['name'].encode()).hexdigest()[:10] + '_%s_q%d.smt2' % (uid, qn[0]))
        r, so, w = z3_query(text, p, to)
        info['queries'] += 1; info['solver_s'] += w
        if r == 'unsat':
            try:
                os.remove(p)
            except OSError:
                pass
        return r, so, w

    def handle_sat(eqs, so):
        """identify failing equalities with the model; returns list of (eq, assign) and the rest"""
        model = parse_model(so)
        bad, rest = [], []
        if model is None:
            return None
        roots = []
        for e in eqs:
            roots += [e['lhs'], e['rhs']]
        for (op, a, b) in case['pcs']:
            roots += [a, b]
        cn = d.cone(roots)
        asg = {v[1]: model.get(v[1], Fraction(v[2])) for v in d.vars_of(cn)}
        try:
            vv = d.evaluate(cn, asg)
        except ZeroDivisionError:
            return None
        for e in eqs:
            if differs(vv[e['lhs']], vv[e['rhs']], e.get('rel', 'eq')):
                bad.append((e, asg, float(vv[e['lhs']]), float(vv[e['rhs']])))
            else:
                rest.append(e)
        return bad, rest

    def random_points(e, n=6):
        roots = [e['lhs'], e['rhs']]
        for (op, a, b) in case['pcs']:
            roots += [a, b]
        cn = d.cone(roots)
        vs = d.vars_of(cn)
        tries = 0; found = 0
        while found < n and tries < 40 * n:
            tries += 1
            scale = Fraction(1, rnd.choice([2, 4, 8, 16, 64]))
            asg = {v[1]: Fraction(v[2]) + scale * Fraction(rnd.randint(-7, 7), 8) for v in vs}
            try:
                vv = d.evaluate(cn, asg)
            except ZeroDivisionError:
                continue
            if not pcs_hold(d, case, vv):
                continue
            found += 1
            if differs(vv[e['lhs']], vv[e['rhs']], e.get('rel', 'eq')):
                return ('cex', asg, float(vv[e['lhs']]), float(vv[e['rhs']]))
        return ('agree', found)

    def settle_single(e, to):
        r, so, w = query([e], to)
        if r == 'unsat':
            res.append({'label': e['label'], 'status': 'unsat', 'queries': 1, 'solver_s': w}); return
        if r == 'sat':
            hs = handle_sat([e], so)
            if hs and hs[0]:
                _, asg, l, rr = hs[0][0]
                res.append({'label': e['label'], 'status': 'cex', 'assign': {k2: float(v) for k2, v in asg.items()}, 'how': 'z3 model', 'lhs': l, 'rhs': rr, 'queries': 1, 'solver_s': w}); return
        rp = random_points(e)
        if rp[0] == 'cex':
            res.append({'label': e['label'], 'status': 'cex', 'assign': {k2: float(v) for k2, v in rp[1].items()}, 'how': 'exact evaluation at rational point after solver %s' % r,
                        'lhs': rp[2], 'rhs': rp[3], 'queries': 1, 'solver_s': w}); return
        res.append({'label': e['label'], 'status': 'inconclusive', 'why': 'z3 %s in %ds; %d rational points agree' % (r, to, rp[1]), 'queries': 1, 'solver_s': w})

    for g in groups:
        r, so, w = query(g, timeout if len(g) == 1 else (group_timeout or timeout))
        if r == 'unsat':
            for e in g:
                res.append({'label': e['label'], 'status': 'unsat', 'queries': 1.0 / len(g), 'solver_s': w / len(g)})
            continue
        if len(g) == 1:
            # reuse this result path through settle_single's logic without a second query
            e = g[0]
            if r == 'sat':
                hs = handle_sat([e], so)
                if hs and hs[0]:
                    _, asg, l, rr = hs[0][0]
                    res.append({'label': e['label'], 'status': 'cex', 'assign': {k2: float(v) for k2, v in asg.items()}, 'how': 'z3 model', 'lhs': l, 'rhs': rr, 'queries': 1, 'solver_s': w}); continue
            rp = random_points(e)
            if rp[0] == 'cex':
                res.append({'label': e['label'], 'status': 'cex', 'assign': {k2: float(v) for k2, v in rp[1].items()}, 'how': 'exact evaluation at rational point after solver %s' % r, 'lhs': rp[2], 'rhs': rp[3], 'queries': 1, 'solver_s': w})
            else:
                res.append({'label': e['label'], 'status': 'inconclusive', 'why': 'z3 %s in %ds [%s] after %.1fs; %d rational points agree' % (r, timeout, so.strip()[:100].replace('\n', ' | '), w, rp[1]), 'queries': 1, 'solver_s': w})
            continue
        for e in g:
            settle_single(e, split_timeout or timeout)
    return res, info
