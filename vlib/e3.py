"""E3 driver: lower wrapper TU + /repo sources to LLVM IR (clang-14), run the IR symbolic executor on harness cases,
validate the interpreter against a native (g++, ASan) build on concrete inputs, replay counterexamples natively."""
import os, re, sys, json, time, random, hashlib
import z3
from . import common as C
sys.path.insert(0, C.VERIF)
from ir.irparse import Module
from ir import irsym

CLANG = 'clang++-14'
IRFLAGS = ['-std=c++17', '-O1', '-fno-vectorize', '-fno-slp-vectorize', '-fno-unroll-loops', '-ffp-contract=off', '-DNDEBUG', '-D' + C.GUARD, '-w', '-S', '-emit-llvm']


def build_ir(name, wrapper, repo_srcs, bdir, extra=()):
    """returns (Module, info) for wrapper + repo sources of the CURRENT tree"""
    C.mkdir(bdir)
    srcs = [wrapper] + [os.path.join(C.REPO, s) for s in repo_srcs]
    t0 = time.time()

    def one(src):
        out = os.path.join(bdir, os.path.basename(src).replace('.cpp', '.ll'))
        rc, so, se, w = C.run([CLANG] + IRFLAGS + C.incflags() + list(extra) + [src, '-o', out], timeout=1200)
        if rc != 0:
            raise C.MachineryError('clang IR generation failed for %s:\n%s' % (src, se[-3000:]))
        return out
    lls = C.pmap(one, srcs)
    linked = os.path.join(bdir, name + '.linked.ll')
    rc, so, se, w = C.run(['llvm-link-14', '-S'] + lls + ['-o', linked], timeout=600)
    if rc != 0:
        raise C.MachineryError('llvm-link failed: ' + se[-2000:])
    text = open(linked).read()
    mod = Module(text)
    return mod, {'ir_file': linked, 'ir_lines': text.count('\n'), 'functions_defined': len(mod.funcs), 'lower_s': round(time.time() - t0, 1)}


# ---------------------------------------------------------------------------------------- signatures
class Sig:
    """wrapper signature: list of ('u64'|'i32', name) | ('in', name, elem_bytes) | ('out', name, count, elem_bytes)"""

    def __init__(self, func, spec):
        self.func, self.spec = func, spec

    def replay_main(self):
        """C++ source of a generic native driver: reads all scalar and input-array values from a file, prints outputs"""
        ct = {8: 'unsigned long', 4: 'unsigned int', 1: 'unsigned char', 2: 'unsigned short'}
        decl, call, pre, post = [], [], [], []
        for s in self.spec:
            if s[0] in ('u64', 'i32'):
                t = 'unsigned long' if s[0] == 'u64' else 'int'
                decl.append('%s %s' % (t, s[1])); pre.append('  %s %s = (%s)rd();' % (t, s[1], t)); call.append(s[1])
            elif s[0] == 'in':
                t = ct[s[2]]; decl.append('const %s* %s' % (t, s[1]))
                pre.append('  unsigned long n_%s = rd(); %s* %s = (%s*)malloc(sizeof(%s) * (n_%s ? n_%s : 1)); for(unsigned long i = 0; i < n_%s; ++i) %s[i] = (%s)rd();' % (s[1], t, s[1], t, t, s[1], s[1], s[1], s[1], t))
                call.append(s[1]); post.append('  free(%s);' % s[1])
            elif s[0] == 'out':
                t = ct[s[3]]; decl.append('%s* %s' % (t, s[1]))
                pre.append('  unsigned long n_%s = rd(); %s* %s = (%s*)malloc(sizeof(%s) * (n_%s ? n_%s : 1)); for(unsigned long i = 0; i < n_%s; ++i) %s[i] = (%s)0xA5A5A5A5A5A5A5A5ul;' % (s[1], t, s[1], t, t, s[1], s[1], s[1], s[1], t))
                call.append(s[1])
                post.append('  printf("OUT %s"); for(unsigned long i = 0; i < n_%s; ++i) printf(" %%lu", (unsigned long)%s[i]); printf("\\n"); free(%s);' % (s[1], s[1], s[1], s[1]))
        return ('#include <cstdio>\n#include <cstdlib>\nextern "C" long %s(%s);\nstatic FILE* F; static unsigned long rd() { unsigned long v = 0; if(fscanf(F, "%%lu", &v) != 1) { fprintf(stderr, "input underrun\\n"); exit(3); } return v; }\n'
                'int main(int argc, char** argv) { F = fopen(argv[1], "r"); if(!F) return 3;\n%s\n  long rv = %s(%s);\n  printf("RET %%ld\\n", rv);\n%s\n  return 0; }\n') % (
                    self.func, ', '.join(decl), '\n'.join(pre), self.func, ', '.join(call), '\n'.join(post))


class Native:
    """native (g++ -O1, ASan+UBSan) build of the same wrapper + repo sources with generated drivers, for interpreter validation and replay"""

    def __init__(self, name, wrapper, repo_srcs, bdir, sigs):
        self.bdir = C.mkdir(os.path.join(bdir, 'native')); self.exes = {}
        flags = ['-O1', '-fsanitize=address', '-fno-omit-frame-pointer', '-g0']

        def cobj(src):
            o = os.path.join(self.bdir, hashlib.sha1(src.encode()).hexdigest()[:8] + '_' + os.path.basename(src).replace('.cpp', '.o'))
            cmd = ['g++'] + C.CXXFLAGS_COMMON + flags + C.incflags() + ['-c', src, '-o', o]
            rc, so, se, w = C.run(cmd, timeout=1800)
            if rc != 0:
                raise C.MachineryError('native compile failed: %s\n%s' % (src, se[-2000:]))
            return o
        objs = C.pmap(cobj, [wrapper, os.path.join(C.VERIF, 'e2', 'feat_stubs.cpp'), os.path.join(C.VERIF, 'wrappers', 'verif_native_stubs.cpp')] + [os.path.join(C.REPO, s) for s in repo_srcs])
        for sig in sigs:
            src = os.path.join(self.bdir, 'main_%s.cpp' % sig.func)
            open(src, 'w').write(sig.replay_main())
            exe = os.path.join(self.bdir, 'run_' + sig.func)
            rc, so, se, w = C.run(['g++'] + flags + [src] + objs + ['-o', exe, '-lpthread'], timeout=600)
            if rc != 0:
                raise C.MachineryError('native link failed: ' + se[-2000:])
            self.exes[sig.func] = (exe, sig)
        self.n = 0

    def run(self, func, values):
        """values: dict name -> int | list of ints (inputs) | int count (outputs).  returns dict(status, ret, outs)"""
        exe, sig = self.exes[func]
        toks = []
        for s in sig.spec:
            v = values[s[1]]
            if s[0] in ('u64', 'i32'):
                toks.append(str(v & ((1 << 64) - 1)))
            elif s[0] == 'in':
                toks.append(str(len(v))); toks += [str(x) for x in v]
            else:
                toks.append(str(v))
        self.n += 1
        f = os.path.join(self.bdir, 'in_%d_%d.txt' % (os.getpid(), self.n))
        open(f, 'w').write(' '.join(toks) + '\n')
        env = dict(os.environ, ASAN_OPTIONS='detect_leaks=1:abort_on_error=0:exitcode=77', MALLOC_PERTURB_='171')
        rc, so, se, w = C.run([exe, f], timeout=120, env=env)
        os.remove(f)
        res = {'rc': rc, 'outs': {}, 'ret': None, 'stderr': se[-1500:]}
        for ln in so.split('\n'):
            if ln.startswith('RET '):
                res['ret'] = int(ln[4:])
            elif ln.startswith('OUT '):
                p = ln.split(); res['outs'][p[1]] = [int(x) for x in p[2:]]
        if rc == 0:
            res['status'] = 'ok'
        elif 'AddressSanitizer' in se or 'LeakSanitizer' in se or rc == 77:
            res['status'] = 'memory-error'
        elif 'FATAL ERROR' in se or rc in (-6, 134):
            res['status'] = 'abort'
        else:
            res['status'] = 'crash'
        return res


# ---------------------------------------------------------------------------------------- case runner
class CaseResult:
    def __init__(self):
        self.paths = 0; self.aborts = 0; self.queries = 0; self.solver_s = 0.0; self.instr = 0
        self.ok = []; self.viol = []; self.inconclusive = []; self.forks = 0


def run_case(mod, sig, name, sym_inputs, base_constraints, oracle, budget=120, abort_ok=False, max_paths=4000, expect_abort=None, noop_stubs=()):
    """sym_inputs: dict name -> value (python int or z3 term) for scalars, list for 'in' arrays, count for 'out' arrays
    oracle(get, rv) -> list of (label, z3 Bool / python bool); get(name, k) reads output cell k (z3 term or int)
    returns CaseResult; violations carry a concrete model of all symbolic inputs"""
    R = CaseResult()
    ex = irsym.Executor(mod, timeout=budget, max_paths=max_paths)
    from ir import rbtree
    rbtree.install(ex)
    ex.stubs['verif_choose'] = lambda ex_, st_, args_, work_: ex_.concretize(st_, args_[0], work_, maxvals=64)
    for nm_ in noop_stubs:
        ex.stubs[nm_] = lambda ex_, st_, args_, work_: 0
    st = ex.new_state(); st.pc = list(base_constraints)
    args = []; ptrs = {}
    for s in sig.spec:
        v = sym_inputs[s[1]]
        if s[0] in ('u64', 'i32'):
            args.append(v if irsym.is_sym(v) else (v & ((1 << (64 if s[0] == 'u64' else 32)) - 1)))
        elif s[0] == 'in':
            p = ex.arr(st, s[1], list(v), s[2]); ptrs[s[1]] = (p, s[2], len(v)); args.append(p)
        else:
            p = ex.arr(st, s[1], [0xA5A5A5A5A5A5A5A5 & ((1 << (8 * s[3])) - 1)] * max(v, 1), s[3], kind='output'); ptrs[s[1]] = (p, s[3], v); args.append(p)
    symvars = []
    for s in sig.spec:
        v = sym_inputs[s[1]]
        for x in (v if isinstance(v, list) else [v]):
            if irsym.is_sym(x):
                symvars.append(x)

    def model_values(mdl):
        out = {}
        for s in sig.spec:
            v = sym_inputs[s[1]]
            if s[0] == 'out':
                out[s[1]] = v
            elif isinstance(v, list):
                out[s[1]] = [(mdl.eval(x, model_completion=True).as_long() if irsym.is_sym(x) else x) for x in v]
            else:
                out[s[1]] = mdl.eval(v, model_completion=True).as_long() if irsym.is_sym(v) else v
        return out
    t0 = time.time()
    try:
        results = ex.call(sig.func, args, st)
    except irsym.Violation as e:
        # memory-safety violation on some path: get a model of the current path condition (the executor adds the failing condition to the message)
        mdl = None
        ex.solver.push()
        try:
            ex.solver.add(*[c for c in getattr(e, 'pc', base_constraints) if c is not True])
            if ex.solver.check() == z3.sat:
                mdl = ex.solver.model()
        finally:
            ex.solver.pop()
        R.viol.append({'label': 'memory safety', 'detail': (str(e) + ' in ' + getattr(e, 'where', '?'))[:600], 'inputs': (model_values(mdl) if mdl is not None else None), 'kind': 'memory'})
        R.queries = ex.stats['queries']; R.solver_s = ex.stats['qtime']; R.instr = ex.stats['instructions']
        return R, ex
    except (irsym.Unmodelled, irsym.PathLimit) as e:
        R.inconclusive.append({'label': 'execution', 'why': '%s: %s' % (type(e).__name__, str(e)[:300])})
        R.queries = ex.stats['queries']; R.solver_s = ex.stats['qtime']; R.instr = ex.stats['instructions']
        return R, ex
    R.paths = len(results); R.forks = ex.stats['forks']
    for (fs, rv) in results:
        if isinstance(rv, str) and rv == 'ABORT':
            R.aborts += 1
            if expect_abort is not None:
                continue
            if not abort_ok:
                ex.solver.push(); ex.solver.add(*[c for c in fs.pc if c is not True]); mdl = ex.solver.model() if ex.solver.check() == z3.sat else None; ex.solver.pop()
                R.viol.append({'label': 'no abort on valid input', 'detail': 'abort / exception reached: %s' % ', '.join(fs.log[-2:]), 'inputs': model_values(mdl) if mdl is not None else None, 'kind': 'abort'})
            continue

        def get(nm, k, fs=fs):
            p, nb, cnt = ptrs[nm]
            return ex.load(fs, irsym.Ptr(p.reg, nb * k), nb)
        try:
            props = oracle(get, rv, fs, ex)
        except irsym.Violation as e:
            ex.solver.push(); ex.solver.add(*[c for c in fs.pc if c is not True]); mdl = ex.solver.model() if ex.solver.check() == z3.sat else None; ex.solver.pop()
            R.viol.append({'label': 'output readable', 'detail': str(e)[:300], 'inputs': model_values(mdl) if mdl is not None else None, 'kind': 'oracle-read'}); continue
        leaks = ex.leaks(fs)
        if leaks:
            props.append(('no heap block leaked', False if leaks else True))
        if expect_abort is not None:
            # inputs for which an abort is REQUIRED: a normally returning path must not satisfy the abort-required predicate
            props.append(('abort required for this input', z3.Not(expect_abort)))
        for (lab, pr) in props:
            try:
                ok, mdl = ex.must_hold(fs.pc, pr)
            except irsym.Unmodelled as e:
                R.inconclusive.append({'label': lab, 'why': str(e)[:200]}); continue
            if ok:
                R.ok.append(lab)
            else:
                R.viol.append({'label': lab, 'detail': 'solver model violates the property' + (' (leaked: %s)' % leaks[:3] if lab.startswith('no heap') else ''), 'inputs': model_values(mdl), 'kind': 'property'})
    R.queries = ex.stats['queries']; R.solver_s = ex.stats['qtime']; R.instr = ex.stats['instructions']
    R.wall = time.time() - t0
    return R, ex


def concrete_run(mod, sig, values, budget=60, noop_stubs=()):
    """run the interpreter on fully concrete inputs; returns dict like Native.run"""
    ex = irsym.Executor(mod, timeout=budget)
    from ir import rbtree
    rbtree.install(ex)
    ex.stubs['verif_choose'] = lambda ex_, st_, args_, work_: args_[0]
    for nm_ in noop_stubs:
        ex.stubs[nm_] = lambda ex_, st_, args_, work_: 0
    st = ex.new_state(); args = []; ptrs = {}
    for s in sig.spec:
        v = values[s[1]]
        if s[0] in ('u64', 'i32'):
            args.append(v & ((1 << (64 if s[0] == 'u64' else 32)) - 1))
        elif s[0] == 'in':
            p = ex.arr(st, s[1], list(v), s[2]); args.append(p)
        else:
            p = ex.arr(st, s[1], [0xA5A5A5A5A5A5A5A5 & ((1 << (8 * s[3])) - 1)] * max(v, 1), s[3], kind='output'); ptrs[s[1]] = (p, s[3], v); args.append(p)
    try:
        res = ex.call(sig.func, args, st)
    except irsym.Violation as e:
        return {'status': 'memory-error', 'detail': str(e)}
    if len(res) != 1:
        return {'status': 'forked?'}
    fs, rv = res[0]
    if isinstance(rv, str) and rv == 'ABORT':
        return {'status': 'abort'}
    outs = {}
    for nm, (p, nb, cnt) in ptrs.items():
        o = []
        for k in range(cnt):
            c = fs.regions[p.reg].cells.get(nb * k)
            if c is not None and c[1] == nb and isinstance(c[0], float) and nb in (4, 8):
                import struct
                o.append(struct.unpack('<Q' if nb == 8 else '<I', struct.pack('<d' if nb == 8 else '<f', c[0]))[0]); continue
            o.append(c[0] if c is not None and c[1] == nb and isinstance(c[0], int) else (0xA5A5A5A5A5A5A5A5 & ((1 << (8 * nb)) - 1)))
        outs[nm] = o
    if ex.leaks(fs):
        return {'status': 'memory-error', 'detail': 'leak ' + str(ex.leaks(fs)[:3])}
    return {'status': 'ok', 'ret': rv, 'outs': outs}
