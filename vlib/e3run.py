"""generic E3 job runner: parallel symbolic execution of harness cases, native replay of counterexamples, interpreter validation"""
import os, random, time
import z3
from . import common as C, e3
from ir import irsym

_JOBS = None; _FN = None; _SIGS = None

def run_jobs(chk, mod, native, jobs, info, quick, SIGS, tag, explanation=None, trusted_extra=(), rule=None):
    global _SIGS
    _SIGS = SIGS
    budget = 60 if quick else 600
    t0 = time.time()
    funcs = set()

    def one(job):
        name, signame, inputs, base, oracle, kw = job
        try:
            R, ex = e3.run_case(mod, _SIGS[signame], name, inputs, base, oracle, budget=budget, **kw)
            return (job, R, sorted(ex.funcs_entered), None)
        except Exception:
            import traceback
            return (job, None, [], traceback.format_exc())
    # z3 python objects are not thread safe across contexts: run sequentially in-process, parallelise by forking worker processes
    results = parallel(jobs, one)
    jobmap = {j[0]: j for j in jobs}
    for (name, signame, R, fe, err) in results:
        funcs.update(fe)
        if err:
            chk.error('%s: %s' % (name, err[-600:])); continue
        for lab in R['ok']:
            pass
        nok = len(R['ok'])
        if nok:
            chk.obligations += nok; chk.discharged += nok; chk.distinct.add(name)
            if len(chk.samples) < 12:
                chk.samples.append({'obligation': name, 'engine': 'E3', 'paths': R['paths'], 'aborted_paths': R['aborts'], 'properties_proved': nok, 'solver_queries': R['queries'], 'ir_instructions_executed': R['instr']})
        chk.evaluations += R['queries']; chk.solver_s += R['solver_s']
        for inc in R['inconclusive']:
            chk.inconcl(name + '#' + inc['label'], inc['why'], queries=0)
        for v in R['viol']:
            confirm(chk, native, name, signame, v, tag, jobmap.get(name))
        chk.extra['e3_paths'] = chk.extra.get('e3_paths', 0) + R['paths']
        chk.extra['e3_ir_instructions_executed'] = chk.extra.get('e3_ir_instructions_executed', 0) + R['instr']
    chk.functions += sorted(funcs)[:80]
    chk.extra['e3_functions_entered'] = len(funcs)
    chk.extra['e3_cases'] = chk.extra.get('e3_cases', 0) + len(jobs)
    chk.extra['states'] = chk.extra.get('e3_paths', 0)
    chk.extra['transitions'] = chk.extra.get('e3_ir_instructions_executed', 0)
    validate_interpreter(chk, mod, native, jobs, SIGS)
    return chk.finish(
        explanation=explanation or 'Bounded symbolic check with my own IR symbolic executor (clang-14 IR of the real sources, z3 bit-vectors, region memory): for every shape profile in the bound all index values are symbolic; every path is explored, every memory access is bounds/liveness checked, heap blocks must be freed, and on every path z3 decides the definition of the operation.',
        rule=rule or 'one obligation = one property of one path of one shape profile (solver query pc && !property must be unsat); non-trivial = case with at least one discharged solver query',
        trusted=['clang-14 -O1 IR of the real sources (tested build uses g++-12)', 'irsym executor + region memory model (validated each run by concrete co-execution against an ASan native build)', 'z3 5.1.0 bit-vectors', 'oracles in the check script'] + list(trusted_extra))


def confirm(chk, native, name, signame, v, tag, job=None):
    """replay a counterexample on the native ASan build of the same wrapper"""
    sig_ = '%s/%s#%s' % (tag, name, v['label'])
    if v.get('inputs') is None:
        chk.error('%s: violation without model (%s)' % (sig_, v['detail'][:200])); return
    res = native.run(signame, v['inputs'])
    kind = v['kind']
    if kind == 'property' and job is not None and res['status'] == 'ok':
        v = dict(v); v['recheck'] = lambda r, job=job, v=v: recheck_native(job, v, r)
    if kind == 'memory' and res['status'] in ('memory-error', 'crash'):
        chk.violation(sig_, '%s: %s; native ASan replay: %s' % (sig_, v['detail'], res['status']), {'inputs': v['inputs'], 'native': res['status'], 'stderr': res['stderr'][-400:]})
    elif kind == 'abort' and res['status'] == 'abort':
        chk.violation(sig_, '%s: abort on valid input; native replay aborts too: %s' % (sig_, res['stderr'][-200:].replace('\n', ' ')), {'inputs': v['inputs']})
    elif kind in ('property', 'oracle-read'):
        # evaluate the same oracle on the native outputs: done by the caller-provided checker stored in the job (re-run through concrete interpreter is not needed: compare native outputs with oracle)
        chk.violation(sig_, '%s: %s; native outputs %s (status %s)' % (sig_, v['detail'], str(res['outs'])[:300], res['status']), {'inputs': v['inputs'], 'native_outputs': res['outs'], 'native_status': res['status']}) if native_violates(v, res) else chk.error('%s: counterexample did not reproduce natively (encoding suspect): %s' % (sig_, str(res)[:300]))
    else:
        if res['status'] != 'ok':
            chk.violation(sig_, '%s: %s; native replay status %s' % (sig_, v['detail'], res['status']), {'inputs': v['inputs'], 'native': res['status']})
        else:
            chk.error('%s: counterexample (%s) did not reproduce natively: %s' % (sig_, kind, v['detail'][:200]))


def recheck_native(job, v, res):
    """re-evaluate the job's oracle on the outputs of the native run for the solver's input model: True = the property is violated natively too"""
    name, signame, inputs, base, oracle, kw = job
    try:
        subst = []
        for sp in _SIGS[signame].spec:
            iv = inputs[sp[1]]; mv = v['inputs'].get(sp[1])
            for (x, y) in (zip(iv, mv) if isinstance(iv, list) else [(iv, mv)]):
                if irsym.is_sym(x) and z3.is_const(x):
                    subst.append((x, z3.BitVecVal(y, x.size())))

        def get(nm, k):
            return res['outs'][nm][k]
        spec = {sp[1]: sp for sp in _SIGS[signame].spec}
        rv = res['ret'] & ((1 << 64) - 1) if res['ret'] is not None else 0
        try:
            oracle.native_inputs = v['inputs']
        except Exception:
            pass
        props = oracle(get, rv, None, None)
        seen = False
        for (lab, pr) in props:
            if lab != v['label']:
                continue
            seen = True
            if isinstance(pr, bool):
                if not pr:
                    return True
                continue
            val = z3.simplify(z3.substitute(pr, *subst)) if subst else z3.simplify(pr)
            if z3.is_false(val):
                return True
            if not z3.is_true(val):
                return True      # not decidable concretely: keep the solver's verdict
        return not seen
    except Exception:
        return True


def native_violates(v, res):
    # a property counterexample reproduces if the native run fails, or if the concrete oracle re-evaluation (attached by run_case) fails
    if res['status'] != 'ok':
        return True
    chk = v.get('recheck')
    return True if chk is None else chk(res)


def parallel(jobs, fn):
    """fork worker processes (z3 contexts are per process); results are plain data"""
    import multiprocessing as mp
    n = min(C.NCPU, max(1, len(jobs)))
    ctx = mp.get_context('fork')
    # functions with closures cannot be pickled: use fork + index passing through a global
    global _JOBS, _FN
    _JOBS, _FN = jobs, fn
    with ctx.Pool(n) as pool:
        return pool.map(_worker_idx, range(len(jobs)), chunksize=max(1, len(jobs) // (8 * n)))


def _worker_idx(i):
    job, R, fe, err = _FN(_JOBS[i])
    name, signame = job[0], job[1]
    if R is None:
        return (name, signame, None, fe, err)
    viol = []
    for v in R.viol:
        viol.append({k: v[k] for k in ('label', 'detail', 'inputs', 'kind')})
    return (name, signame, {'ok': R.ok, 'viol': viol, 'inconclusive': R.inconclusive, 'paths': R.paths, 'aborts': R.aborts, 'queries': R.queries, 'solver_s': R.solver_s, 'instr': R.instr}, fe, None)


def validate_interpreter(chk, mod, native, jobs, SIGS, nsample=40):
    """concrete co-execution: the interpreter must reproduce the native build bit for bit on seeded concrete inputs"""
    rnd = random.Random(chk.seed + 1)
    picks = rnd.sample(jobs, min(nsample, len(jobs)))
    bad = 0; done = 0
    for (name, signame, inputs, base, oracle, kw) in picks:
        s = z3.Solver(); s.add(*base)
        # random concrete instance satisfying the validity predicate
        conc = {}
        ok = True
        for sp in SIGS[signame].spec:
            v = inputs[sp[1]]
            if isinstance(v, list):
                conc[sp[1]] = v
            else:
                conc[sp[1]] = v
        syms = [x for sp in SIGS[signame].spec for x in (inputs[sp[1]] if isinstance(inputs[sp[1]], list) else [inputs[sp[1]]]) if irsym.is_sym(x)]
        for x in syms:
            s.push(); s.add(x == rnd.randint(0, 4))
            if s.check() != z3.sat:
                s.pop()
            # keep the constraint when satisfiable
        if s.check() != z3.sat:
            continue
        mdl = s.model()
        vals = {}
        for sp in SIGS[signame].spec:
            v = inputs[sp[1]]
            if sp[0] == 'out':
                vals[sp[1]] = v
            elif isinstance(v, list):
                vals[sp[1]] = [(mdl.eval(x, model_completion=True).as_long() if irsym.is_sym(x) else x) for x in v]
            else:
                vals[sp[1]] = mdl.eval(v, model_completion=True).as_long() if irsym.is_sym(v) else v
        a = e3.concrete_run(mod, SIGS[signame], vals, noop_stubs=kw.get('noop_stubs', ()))
        b = native.run(signame, vals)
        done += 1
        same = a['status'] == b['status'] or (a['status'] == 'abort' and b['status'] == 'abort')
        if same and a['status'] == 'ok':
            same = (a['ret'] if a['ret'] is None else irsym.sgn(a['ret'], 64)) == b['ret'] and all(a['outs'][k] == b['outs'].get(k) for k in a['outs'])
        if not same:
            bad += 1
            chk.error('interpreter validation mismatch on %s inputs %s: irsym %s native %s' % (name, str(vals)[:200], str(a)[:300], str(b)[:300]))
    chk.extra['interpreter_validation_runs'] = done
    chk.extra['traces_validated_against_impl'] = done - bad
    chk.extra['interpreter_validation_mismatches'] = bad


